"""Workbook-level shrinking moves for minimisation (DESIGN 2.7).

Each move maps a case to an iterator of smaller candidate cases; the caller
keeps a candidate only if it still violates the same rule with the same tag.
"""
import copy


def _ops_addresses(case):
    used = set()
    for op in case.get('ops', []):
        for k in ('a', 'rng'):
            if k in op:
                used.add(op[k])
        for k in ('inputs', 'outputs', 'addrs'):
            for a in op.get(k) or ():
                used.add(a)
    for a in case.get('cfg', {}).get('pre', []) or ():
        used.add(a)
    for k in ('targets', 'inputs', 'outputs'):
        for a in case.get('cfg', {}).get(k, []) or ():
            used.add(a)
    return used


def formulas_to_constants(case):
    spec = case['spec']
    for i in range(len(spec['cells']) - 1, -1, -1):
        c = spec['cells'][i]
        if 'f' in c and 'cse' not in c:
            cand = copy.deepcopy(case)
            cand['spec']['cells'][i] = {'a': c['a'], 'v': 1}
            yield cand


def drop_cse_blocks(case):
    spec = case['spec']
    blocks = sorted({c['cse'] for c in spec['cells'] if 'cse' in c})
    for b in blocks:
        cand = copy.deepcopy(case)
        cand['spec']['cells'] = [
            ({'a': c['a'], 'v': 1} if c.get('cse') == b else c)
            for c in cand['spec']['cells']]
        yield cand


def drop_unreferenced(case):
    spec = case['spec']
    referenced = set()
    for c in spec['cells']:
        referenced.update(c.get('p', ()))
        referenced.update(c.get('d', ()))
    from .wbgen import flat_range
    for target in spec.get('names', {}).values():
        t = target.replace('$', '')
        referenced.update(flat_range(t) if ':' in t else [t])
    used = _ops_addresses(case)
    in_ranges = set()
    for u in used:
        if ':' in u:
            try:
                in_ranges.update(flat_range(u))
            except Exception:
                pass
    pinned = set(spec.get('pinned', ()))
    for i in range(len(spec['cells']) - 1, -1, -1):
        c = spec['cells'][i]
        a = c['a']
        if (a not in referenced and a not in used and a not in in_ranges and
                a not in pinned and 'cse' not in c):
            cand = copy.deepcopy(case)
            del cand['spec']['cells'][i]
            yield cand


def drop_names(case):
    for n in list(case['spec'].get('names', {})):
        # only if no formula mentions the name
        if not any(n in c.get('f', '') for c in case['spec']['cells']):
            cand = copy.deepcopy(case)
            del cand['spec']['names'][n]
            yield cand


def simplify_cfg(case):
    cfg = case.get('cfg', {})
    if cfg.get('origin') not in (None, 'nodata'):
        cand = copy.deepcopy(case)
        cand['cfg']['origin'] = 'nodata'
        yield cand
    if cfg.get('pre'):
        for i in range(len(cfg['pre'])):
            cand = copy.deepcopy(case)
            del cand['cfg']['pre'][i]
            yield cand


def simplify_formulas(case):
    """replace a formula by one of its own precedents (keeps reachability)"""
    spec = case['spec']
    for i in range(len(spec['cells']) - 1, -1, -1):
        c = spec['cells'][i]
        if 'f' in c and 'cse' not in c and len(c.get('p', ())) > 1:
            sheet = c['a'].rsplit('!', 1)[0]
            for p in c['p']:
                psheet, pcoord = p.rsplit('!', 1)
                from .wbgen import quote_sheet
                txt = pcoord if psheet == sheet else f'{quote_sheet(psheet)}!{pcoord}'
                cand = copy.deepcopy(case)
                cand['spec']['cells'][i] = {'a': c['a'], 'f': '=' + txt + '+0', 'p': [p], 'd': []}
                yield cand


def spec_moves():
    return [simplify_cfg, drop_cse_blocks, formulas_to_constants, drop_unreferenced,
            drop_names, simplify_formulas, drop_unreferenced]
