"""Histories against the reference model: the workload shared by C01, C04,
C05 and C08 (DESIGN 3).

A case is {"spec", "cfg": {"origin", "pre", ...}, "ops": [...]}.  `legalise`
recomputes, from the harness DAG alone, which addresses a history may touch
(after a restart only what was saved exists) and drops operations that became
illegal - it is used by the generator and by the minimiser.
"""
import hashlib
import json

from . import plugin, values, wbgen
from .refmodel import Actor, Reference, RefError
from .world import Driver, TmpDir

SERIAL = ('yml', 'json', 'pkl')


# ---------------------------------------------------------------------------
# static bookkeeping

class Static:
    """what the harness knows without running pycel"""

    def __init__(self, case):
        self.case = case
        self.spec = case['spec']
        self.dag = wbgen.Dag(self.spec)
        self.cfg = case.get('cfg', {})
        self.all = set(self.dag.order)
        self.pinned = set(self.spec.get('pinned', ()))

    def touch_set(self, op):
        """addresses an operation brings into the model (before closure)"""
        if op['op'] == 'eval':
            if op.get('form') == 'range':
                return set(self.range_members(op['rng']))
            return {op['a']}
        if op['op'] in ('set', 'touch', 'poke'):
            return {op['a']}
        if op['op'] == 'trim':
            out = set()
            for a in op['outputs']:
                out.update(self.range_members(a) if ':' in a else [a])
            return out
        return set()

    def range_members(self, rng):
        """cells of a (possibly unbounded) range that exist in the spec"""
        sheet, coords = wbgen.split_addr(rng)
        a, b = coords.replace('$', '').split(':')
        if a.isalpha() or a.isdigit():
            out = []
            for addr in self.dag.order:
                s, c = wbgen.split_addr(addr)
                if s != sheet:
                    continue
                r, col = wbgen.coord_rc(c)
                if a.isalpha():
                    lo = wbgen.coord_rc(a + '1')[1]
                    hi = wbgen.coord_rc(b + '1')[1]
                    if lo <= col <= hi:
                        out.append(addr)
                elif int(a) <= r <= int(b):
                    out.append(addr)
            return out
        return [x for x in wbgen.flat_range(rng)]


def initial_universe(st):
    cfg = st.cfg
    if cfg.get('origin', 'nodata') in SERIAL:
        return st.dag.closure(_expand(st, cfg.get('pre', [])))
    return set(st.all)


def _expand(st, addrs):
    out = set()
    for a in addrs:
        out.update(st.range_members(a) if ':' in a else [a])
    return out


def legalise(case):
    """drop operations the (possibly shrunk) history may no longer perform"""
    st = Static(case)
    # pre must exist
    cfg = case.setdefault('cfg', {})
    cfg['pre'] = [a for a in cfg.get('pre', []) if _expand(st, [a]) <= st.all and _expand(st, [a])]
    st = Static(case)
    universe = initial_universe(st)
    has_wb = cfg.get('origin', 'nodata') not in SERIAL
    touched = set(_expand(st, cfg.get('pre', []))) if not has_wb else set()
    touched_ranges = set(a for a in cfg.get('pre', []) if ':' in a)
    ops = []
    for op in case.get('ops', []):
        kind = op['op']
        if kind == 'eval':
            if op.get('form') == 'range':
                members = set(st.range_members(op['rng']))
                if not members or not members <= universe:
                    continue
                if _unbounded(op['rng']) and not has_wb and op['rng'] not in touched_ranges:
                    continue
                if not _unbounded(op['rng']) and not set(wbgen.flat_range(op['rng'])) <= st.all:
                    continue
                touched_ranges.add(op['rng'])
            else:
                if op['a'] not in universe:
                    continue
                if op.get('form') == 'nosheet' and (
                        not has_wb or wbgen.split_addr(op['a'])[0] != st.spec['active']):
                    op = dict(op, form='cell')
        elif kind in ('set', 'touch'):
            a = op['a']
            if a not in universe or a in st.pinned:
                continue
            if kind == 'set' and wbgen.is_formula_cell(st.dag.cell[a]) and not op.get('over_formula'):
                continue
        elif kind == 'restart':
            touched |= st.touch_set(op)
            universe = universe & st.dag.closure(touched)
            has_wb = False
            ops.append(op)
            continue
        elif kind == 'trim':
            pass
        elif kind == 'recalc':
            if not has_wb and not op.get('any_origin'):
                continue
        touched |= st.touch_set(op)
        ops.append(op)
    case['ops'] = ops
    return case


def _unbounded(rng):
    a = wbgen.split_addr(rng)[1].replace('$', '').split(':')[0]
    return a.isalpha() or a.isdigit()


# ---------------------------------------------------------------------------
# running

def cache_digest(model):
    """which nodes exist and which hold a value (never the values' identity)"""
    try:
        items = sorted((a, c.value is not None) for a, c in model.cell_map.items())
    except Exception:
        return 'n/a'
    h = hashlib.sha256(repr(items).encode()).hexdigest()[:8]
    return h


def classify_write(old, new):
    if new is None:
        return 'to-blank'
    co, cn = values.canon(old), values.canon(new)
    if co == cn:
        return 'same-value'
    if old is not None and old == new and co[0] != cn[0]:
        return 'equal-other-type'
    if old is None:
        return 'over-blank'
    return 'ordinary'


def origin_class(origin):
    return 'serialized' if origin in SERIAL else origin


class HistoryRun:
    """executes one case; oracles are plugged in by the property modules"""

    def __init__(self, case, monitor=None, plugins=None):
        self.case = case
        self.st = Static(case)
        self.cfg = case.get('cfg', {})
        self.monitor = monitor
        self.events = []
        self.counts = {}
        self.violation = None
        self.sig_items = []
        self.overrides = {}
        self.writes = []            # (step, addr, kind)
        self.last_eval_value = {}   # addr -> canon of last expected value
        self.nontrivial = False
        self.plugins = plugins

    def count(self, key, n=1):
        self.counts[key] = self.counts.get(key, 0) + n

    def current(self, addr):
        if addr in self.overrides:
            return self.overrides[addr]
        return self.st.dag.cell[addr].get('v')

    def violate(self, rule, step, op, expected, got, **extra):
        if self.violation is None:
            self.violation = dict(rule=rule, step=step, op=op, expected=expected,
                                  got=got, **extra)

    # -- reference: everything the oracle needs, computed before the run -------------
    def plan_expected(self, ops, sweep):
        """runs on a thread of its own; no history, no cache reuse, no restart"""
        from .refmodel import InlineActor
        ref = Reference(self.st.spec, actor=InlineActor(),
                        plugins=self.plugins or ('sim.plugin',))
        self.ref = ref
        expected = {}
        stored = {}
        if self.cfg.get('origin') == 'xlsx':
            for a in self.st.dag.formulas():
                try:
                    stored[a] = ref.value(a, {})
                except RefError:
                    pass
        overrides = {}
        universe = initial_universe(self.st)
        # cells the reference itself cannot evaluate are not evaluated before the save either
        self.pre_skip = set()
        if self.cfg.get('origin') in SERIAL:
            for a in self.cfg.get('pre', []):
                try:
                    ref.value(a, {})
                except RefError:
                    self.pre_skip.add(a)
        touched = set(_expand(self.st, [a for a in self.cfg.get('pre', [])
                                        if a not in self.pre_skip]))
        for i, op in enumerate(ops):
            if op['op'] == 'eval':
                target = op.get('rng') if op.get('form') == 'range' else op['a']
                try:
                    expected[i] = ('ok', ref.value(target, overrides))
                except RefError as exc:
                    expected[i] = ('err', str(exc)[:80])
            elif op['op'] == 'set':
                overrides = dict(overrides)
                if op.get('unset'):
                    overrides.pop(op['a'], None)     # set_value(formula cell, None): calculate it again
                else:
                    overrides[op['a']] = op['v']
            elif op['op'] == 'recalc':
                # recalculate(): every formula is calculated again, assigned values are gone
                overrides = {a: v for a, v in overrides.items()
                             if not wbgen.is_formula_cell(self.st.dag.cell[a])}
            elif op['op'] == 'restart':
                universe &= self.st.dag.closure(touched)
            touched |= self.st.touch_set(op)
        sweep_items = []
        if sweep:
            for a in self.st.dag.order:
                if a in universe:
                    try:
                        sweep_items.append((a, ('ok', ref.value(a, overrides))))
                    except RefError as exc:
                        sweep_items.append((a, ('err', str(exc)[:80])))
        self.count('ref-compiles', ref.compiles)
        return expected, stored, sweep_items

    # -- set-up --------------------------------------------------------------
    def build(self, driver):
        """returns (error outcome | None, pending restart op | None)"""
        origin = self.cfg.get('origin', 'nodata')
        spec = self.st.spec
        self.count('origin:' + origin)
        if origin == 'xlsx':
            driver.build_xlsx(spec, self.stored, cycles=self.cfg.get('cycles'))
            return None, None
        driver.build_nodata(spec, cycles=self.cfg.get('cycles'))
        if origin in SERIAL:
            for a in self.cfg.get('pre', []):
                if a in self.pre_skip:
                    self.count('probe:ref-raised-step-skipped')
                    continue
                out = driver.step({'op': 'eval', 'a': a, 'rng': a,
                                   'form': 'range' if ':' in a else 'cell'})
                if 'exc' in out:
                    return out, None
            op = {'op': 'restart', 'fmt': origin, 'where': self.cfg.get('where', 'same')}
            out = driver.restart_save(op)
            if 'exc' in out:
                return out, None
            return None, op
        return None, None

    # -- main loop -------------------------------------------------------------
    def run(self, check_eval, after_op=None, sweep=True):
        from .refmodel import on_fresh_thread
        plugin.reset()
        self.check_eval, self.after_op = check_eval, after_op
        ops = list(self.case.get('ops', []))
        self.expected, self.stored, self.sweep_items = on_fresh_thread(
            self.plan_expected, ops, sweep, name='ref')
        if self.pre_skip:
            # the reference cannot evaluate what this history evaluates before its first
            # save (a formula that raises in pycel's function library): the saved model
            # would not hold what the rest of the history was planned on
            self.count('probe:run-skipped-reference-raises-before-first-save')
            return self.finish()
        with TmpDir() as tmp:
            driver = Driver(tmp, plugins=self.plugins or ('sim.plugin',), inline=True)
            self.driver = driver
            self.pos = 0
            self.pending = None
            self.built = False
            try:
                if self.monitor:
                    self.monitor.attach(self)
                k = 0
                while on_fresh_thread(self.segment, ops, name=f'sut-{k}') == 'more':
                    k += 1
                return self.finish()
            finally:
                if self.monitor:
                    self.monitor.detach()

    def segment(self, ops):
        """the part of the history that runs on one thread"""
        driver = self.driver
        if not self.built:
            self.built = True
            err, pending = self.build(driver)
            if err is not None:
                self.violate('exception', -1, {'op': 'build'}, 'model built',
                             err, exc=err.get('exc'))
                return 'done'
            if pending is not None:
                self.pending = pending
                if pending.get('where') == 'thread':
                    return 'more'
        if self.pending is not None:
            op, self.pending = self.pending, None
            out = driver.restart_load(op)
            self.count('fault:restart-' + op.get('where', 'same'))
            if 'exc' in out:
                self.violate('exception', self.pos - 1, op, 'save/load works', out,
                             exc=out['exc'], during=out.get('during'))
                return 'done'
            self.events.append((self.pos - 1, 'loaded', op['fmt'], op.get('where'),
                                cache_digest(driver.model)))
        while self.pos < len(ops) and not self.violation:
            i, op = self.pos, ops[self.pos]
            self.pos += 1
            if op['op'] == 'restart':
                if self.overrides:
                    self.count('probe:restart-with-changed-inputs')
                self.count('restart-fmt:' + op['fmt'])
                self.count('ops')
                out = driver.restart_save(op)
                self.sig_items.append(('r', op['fmt'], op.get('where')))
                if 'exc' in out:
                    self.violate('exception', i, op, 'save/load works', out,
                                 exc=out['exc'], during=out.get('during'))
                    return 'done'
                self.pending = op
                if op.get('where') == 'thread':
                    return 'more'
                if op.get('where') == 'process':
                    self.pending = None
                    self.rest_in_child(i, op, ops)
                    return 'done'
                op2, self.pending = self.pending, None
                out = driver.restart_load(op2)
                self.count('fault:restart-' + op.get('where', 'same'))
                if 'exc' in out:
                    self.violate('exception', i, op, 'save/load works', out,
                                 exc=out['exc'], during=out.get('during'))
                    return 'done'
                self.events.append((i, 'loaded', op['fmt'], op.get('where'),
                                    cache_digest(driver.model)))
                continue
            self.step(i, op, self.check_eval)
            if self.after_op and not self.violation:
                self.after_op(self, i, op)
        if not self.violation:
            for a, exp in self.sweep_items:
                if self.violation:
                    break
                self.step(len(ops), {'op': 'eval', 'a': a, 'form': 'cell', 'sweep': True},
                          self.check_eval, expected=exp)
        return 'done'

    def rest_in_child(self, i, rop, ops):
        """restart-fresh-process: the rest of the history runs in a brand-new interpreter
        (other PYTHONHASHSEED) that has only what to_file made durable"""
        from .world import run_child
        driver = self.driver
        rest, meta = [], []
        for j in range(i + 1, len(ops)):
            o = dict(ops[j])
            if o['op'] == 'eval':
                if self.expected[j][0] == 'err':
                    self.count('probe:ref-raised-step-skipped')
                    continue
                if o.get('form') == 'range':
                    o['members'] = self.st.range_members(o['rng'])
            if o['op'] == 'restart' and o.get('where') == 'process':
                o['where'] = 'same'
            rest.append(o)
            meta.append((j, self.expected.get(j)))
        for a, exp in self.sweep_items:
            if exp[0] == 'ok':
                rest.append({'op': 'eval', 'a': a, 'form': 'cell', 'sweep': True})
                meta.append((len(ops), exp))
        payload = {'mode': 'driver', 'path': driver.pending_path,
                   'plugins': list(self.plugins or ('sim.plugin',)), 'ops': rest,
                   'tmpdir': driver.tmpdir,
                   'cse_members': [a for a in self.st.dag.order if 'cse' in self.st.dag.cell[a]]}
        res = run_child(payload)
        self.count('fault:restart-process')
        self.count('hashseed-of-child:' + str(res.get('hashseed')))
        if 'exc' in res['load']:
            self.violate('exception', i, rop, 'save/load works', res['load'],
                         exc=res['load']['exc'], during='from_file')
            return
        self.events.append((i, 'loaded-in-child', rop['fmt']))
        for o, (j, exp), out in zip(rest, meta, res.get('outcomes', [])):
            if self.violation:
                break
            self.count('ops')
            if out.get('skip'):
                self.count('probe:skipped-cse-member-not-in-saved-model')
                continue
            if o['op'] == 'eval':
                target = o.get('rng') if o.get('form') == 'range' else o['a']
                self.count('evals')
                self.events.append((j, 'eval', o.get('form', 'cell'), target, out.get('v'),
                                    out.get('exc'), 'child'))
                self.sig_items.append(('e', o.get('form', 'cell'), 'child'))
                self.observe_eval(j, o, target, exp[1])
                self.check_eval(self, j, o, target, exp[1], out)
            elif o['op'] == 'set':
                a = o['a']
                wkind = classify_write(self.current(a), o['v'])
                self.count('probe:write-' + wkind)
                self.count('sets')
                self.overrides[a] = o['v']
                self.writes.append((j, a, wkind))
                self.events.append((j, 'set', a, values.jsonable(o['v']), out.get('exc'), 'child'))
                self.sig_items.append(('s', 'child'))
                if 'exc' in out:
                    self.violate('exception', j, o, 'set_value returns', out, exc=out['exc'])
            elif o['op'] == 'restart':
                self.count('fault:restart-same')
                self.count('restart-fmt:' + o['fmt'])
                if 'exc' in out:
                    self.violate('exception', j, o, 'save/load works', out, exc=out['exc'],
                                 during=out.get('during'))

    def step(self, i, op, check_eval, expected=None):
        driver = self.driver
        kind = op['op']
        self.count('ops')
        if kind in ('eval', 'set', 'touch') and self.unsaved_cse_member(op):
            # after a load only what was saved exists; a CSE member that was only ever
            # reached through its block's range node was never a cell of the saved model
            self.count('probe:skipped-cse-member-not-in-saved-model')
            self.events.append((i, 'skip-unsaved', op.get('a') or op.get('rng')))
            return
        if kind == 'eval':
            target = op.get('rng') if op.get('form') == 'range' else op['a']
            kind_e, expected = expected if expected is not None else self.expected[i]
            if kind_e == 'err':
                self.count('probe:ref-raised-step-skipped')
                self.events.append((i, 'skip', target, expected[:60]))
                return
            out = driver.step(op)
            self.count('evals')
            self.events.append((i, 'eval', op.get('form', 'cell'), target, out.get('v'),
                                out.get('exc'), cache_digest(driver.model)))
            self.sig_items.append(('e', op.get('form', 'cell'), cache_digest(driver.model)))
            self.observe_eval(i, op, target, expected)
            check_eval(self, i, op, target, expected, out)
        elif kind in ('set', 'touch'):
            a = op['a']
            model = driver.model
            if kind == 'set':
                old = self.current(a)
                wkind = classify_write(old, op['v'])
                self.count('probe:write-' + wkind)
                deps = self.st.dag.descendants(a)
                if a not in model.cell_map:
                    self.count('probe:set-of-address-not-yet-in-model')
                if deps and not any(d in model.cell_map for d in deps):
                    self.count('probe:set-before-any-dependant-built')
                elif any(d not in model.cell_map for d in deps):
                    self.count('probe:set-before-some-dependant-built')
            out = driver.step(op)
            self.count('sets')
            if kind == 'set':
                if op.get('unset'):
                    self.overrides.pop(a, None)
                    self.count('fault:assigned-formula-cell-set-back-to-its-formula')
                else:
                    self.overrides[a] = op['v']
                    if wbgen.is_formula_cell(self.st.dag.cell[a]):
                        self.count('fault:value-assigned-over-a-formula')
                self.writes.append((i, a, wkind))
            self.events.append((i, kind, a, values.jsonable(op.get('v')), out.get('exc'),
                                cache_digest(driver.model)))
            self.sig_items.append((kind[0], cache_digest(driver.model)))
            if 'exc' in out:
                self.violate('exception', i, op, 'set_value returns', out, exc=out['exc'])
        elif kind == 'recalc':
            out = driver.step(op)
            self.overrides = {a: v for a, v in self.overrides.items()
                              if not wbgen.is_formula_cell(self.st.dag.cell[a])}
            self.count('recalculates')
            self.events.append((i, 'recalc', out.get('exc'), cache_digest(driver.model)))
            self.sig_items.append(('R',))
            if 'exc' in out:
                # (a model with a cell that cannot be calculated: what recalculate() does with
                # it is C09's subject)
                self.count('recalculate-raised')
        elif kind == 'poke':
            # evaluate a cell that cannot be evaluated (a reference that cannot be resolved):
            # whatever it raises is the fault, the model has to stay usable
            if op.get('kind') == 'trim':
                # trim_graph with an output on a sheet that does not exist: raises, the caller
                # goes on with the model as it is
                out = driver.step({'op': 'trim', 'inputs': op['inputs'], 'outputs': op['outputs']})
                if 'exc' not in out:
                    self.violate('exception', i, op, 'trim_graph with an unknown output raises',
                                 out, exc='no exception')
            else:
                out = driver.step({'op': 'eval', 'a': op['a'], 'form': 'cell'})
            self.count('fault:evaluation-that-fails-while-the-graph-is-built'
                       if 'exc' in out else 'poke-returned-a-value')
            self.events.append((i, 'poke', op['a'], out.get('exc'), cache_digest(driver.model)))
            self.sig_items.append(('p', 'exc' in out))
        else:
            raise ValueError(kind)

    def unsaved_cse_member(self, op):
        model = self.driver.model
        if getattr(model.excel, 'workbook', None) is not None:
            return False     # still backed by the workbook: every cell can be built
        members = (self.st.range_members(op['rng']) if op.get('form') == 'range'
                   else [op['a']])
        return any('cse' in self.st.dag.cell.get(m, {}) and m not in model.cell_map
                   for m in members)

    def observe_eval(self, i, op, target, expected):
        ce = values.canon(expected)
        prev = self.last_eval_value.get(target)
        if prev is not None and prev != ce:
            self.count('probe:eval-whose-value-changed-since-last-read')
            self.nontrivial = True
        elif prev is None and self.relevant_write(target) is not None:
            self.count('probe:first-read-after-relevant-write')
            self.nontrivial = True
        self.last_eval_value[target] = ce
        if ':' not in target and 'cse' in self.st.dag.cell.get(target, {}):
            self.count('probe:cse-member-read')

    def relevant_write(self, target):
        """the last write to an ancestor (or to the cell itself) of target"""
        members = self.st.range_members(target) if ':' in target else [target]
        anc = set(members)
        for m in members:
            anc |= self.st.dag.ancestors(m)
        for step, a, wkind in reversed(self.writes):
            if a in anc:
                return step, a, wkind
        return None

    def finish(self):
        digest = hashlib.sha256(
            json.dumps(self.events, default=str).encode()).hexdigest()[:16]
        sig = hashlib.sha256(repr((self.cfg.get('origin'), self.sig_items)).encode()
                             ).hexdigest()[:16]
        return {
            'violation': self.violation,
            'digest': digest,
            'sig': sig,
            'nontrivial': self.nontrivial,
            'counts': self.counts,
        }
