"""Brand-new interpreter for restart-fresh-process (DESIGN 2.4): loads a saved
model, answers reads, runs a post-load history, saves again.  Talks JSON over
stdin/stdout; started by sim.world.run_child under another PYTHONHASHSEED.
"""
import json
import logging
import os
import sys


def main():
    logging.disable(logging.CRITICAL)
    payload = json.load(sys.stdin)
    from sim import values
    from sim.refmodel import on_fresh_thread
    from sim.world import outcome_of

    def work():
        from pycel import ExcelCompiler
        out = {'hashseed': os.environ.get('PYTHONHASHSEED')}
        res = outcome_of(lambda: ExcelCompiler.from_file(
            payload['path'], plugins=payload.get('plugins')))
        if 'exc' in res:
            out['load'] = res
            return out
        out['load'] = {'v': ['blank']}
        # outcome_of turned the model into json; load again for real
        model = ExcelCompiler.from_file(payload['path'], plugins=payload.get('plugins'))
        out['attrs'] = attrs_of(model)
        out['values'] = [outcome_of(lambda a=a: model.evaluate(a)) for a in payload.get('addrs', [])]
        post = []
        for op in payload.get('post', []):
            if op['op'] == 'eval':
                kwargs = {k: op[k] for k in ('iterations', 'tolerance') if op.get(k) is not None}
                post.append(outcome_of(lambda: model.evaluate(op['a'], **kwargs)))
            elif op['op'] == 'set':
                post.append(outcome_of(lambda: model.set_value(op['a'], op['v'])))
        out['post'] = post
        rs = payload.get('resave')
        if rs:
            res = outcome_of(lambda: model.to_file(rs['base'], file_types=tuple(rs['types'])))
            out['resave'] = res
        return out

    if payload.get('fresh_thread'):
        result = on_fresh_thread(work, name='child-thread')
    else:
        result = work()
    sys.stdout.write(json.dumps(result, default=str))


def attrs_of(model):
    from sim import values
    extra = model.extra_data
    try:
        extra = json.loads(json.dumps(extra, default=str)) if extra is not None else None
    except Exception:
        extra = repr(extra)
    return {
        'cycles': json.loads(json.dumps(model.cycles, default=str)),
        'filename': model.filename,
        'hash': model._excel_file_md5_digest,
        'hash_matches': bool(model.hash_matches),
        'extra_data': extra,
    }


if __name__ == '__main__':
    main()
