"""Brand-new interpreter for restart-fresh-process (DESIGN 2.4): loads a saved
model, answers reads, runs a post-load history, saves again.  Talks JSON over
stdin/stdout; started by sim.world.run_child under another PYTHONHASHSEED.
"""
import json
import logging
import os
import sys


def main():
    logging.disable(logging.CRITICAL)
    payload = json.load(sys.stdin)
    from sim import values
    from sim.refmodel import on_fresh_thread
    from sim.world import outcome_of

    def work():
        from pycel import ExcelCompiler
        out = {'hashseed': os.environ.get('PYTHONHASHSEED')}
        box = {}
        res = outcome_of(lambda: box.__setitem__('m', ExcelCompiler.from_file(
            payload['path'], plugins=payload.get('plugins'))))
        if 'exc' in res:
            out['load'] = res
            return out
        out['load'] = {'v': ['blank']}
        model = box['m']
        if payload.get('mode') == 'driver':
            return drive(model, out)
        out['attrs'] = attrs_of(model)
        out['values'] = [outcome_of(lambda a=a: model.evaluate(a)) for a in payload.get('addrs', [])]
        post = []
        for op in payload.get('post', []):
            if op['op'] == 'eval':
                kwargs = {k: op[k] for k in ('iterations', 'tolerance') if op.get(k) is not None}
                post.append(outcome_of(lambda: model.evaluate(op['a'], **kwargs)))
            elif op['op'] == 'set':
                if op['a'] not in model.cell_map:
                    outcome_of(lambda: model.evaluate(op['a']))
                post.append(outcome_of(lambda: model.set_value(op['a'], op['v'])))
        out['post'] = post
        rs = payload.get('resave')
        if rs:
            res = outcome_of(lambda: model.to_file(rs['base'], file_types=tuple(rs['types'])))
            out['resave'] = res
        return out

    def drive(model, out):
        """the rest of a history (sim.history) runs here: explicit operations through a Driver"""
        from sim.world import Driver
        driver = Driver(payload['tmpdir'], plugins=tuple(payload.get('plugins') or ()), inline=True)
        driver.model = model
        driver.n_files = 100          # file names of its own
        cse = set(payload.get('cse_members', []))
        outcomes = []
        for op in payload['ops']:
            members = op.get('members') or [op.get('a')]
            if op['op'] in ('eval', 'set') and any(
                    m in cse and m not in driver.model.cell_map for m in members):
                outcomes.append({'skip': 'unsaved-cse-member'})
                continue
            res = driver.step(op)
            outcomes.append(res)
            if 'exc' in res and op['op'] == 'restart':
                break
        out['outcomes'] = outcomes
        return out

    if payload.get('fresh_thread'):
        result = on_fresh_thread(work, name='child-thread')
    else:
        result = work()
    sys.stdout.write(json.dumps(result, default=str))


def attrs_of(model):
    from sim import values
    extra = model.extra_data
    try:
        extra = json.loads(json.dumps(extra, default=str)) if extra is not None else None
    except Exception:
        extra = repr(extra)
    return {
        'cycles': json.loads(json.dumps(model.cycles, default=str)),
        'filename': model.filename,
        'hash': model._excel_file_md5_digest,
        'hash_matches': bool(model.hash_matches),
        'extra_data': extra,
    }


if __name__ == '__main__':
    main()
