"""Harness-owned Excel functions, loaded through pycel's own `plugins=` seam.

PROBE(tag, x)  identity; records (tag, x) - pass clock and observation point
BOOM(site, x)  identity; raises when the fault plan says so

State is process-global and reset at the start of every run.
"""
from pycel.lib.function_helpers import excel_helper

EXC_CLASSES = {
    'RuntimeError': RuntimeError, 'ValueError': ValueError, 'TypeError': TypeError,
    'KeyError': KeyError, 'NameError': NameError, 'ZeroDivisionError': ZeroDivisionError,
    'AttributeError': AttributeError, 'IndexError': IndexError,
}

STATE = {}


def reset():
    STATE.clear()
    STATE.update(
        probe_log=[],        # (tag, value)
        boom_calls={},       # site -> number of calls
        armed={},            # site -> dict(at=k or None, until=k or None, exc=name, fired=0)
        fired=0,             # total number of injected raises
        env_log=None,        # (tag, settings snapshot) when a check asks for it
    )


reset()


def arm(site, exc='RuntimeError', at=1, persistent=True):
    """BOOM(site, .) raises on its at-th call from now on (once, or until disarmed)"""
    STATE['armed'][site] = dict(
        start=STATE['boom_calls'].get(site, 0), at=at, persistent=persistent,
        exc=exc, fired=0)


def disarm(site=None):
    if site is None:
        STATE['armed'].clear()
    else:
        STATE['armed'].pop(site, None)


def settings_snapshot():
    """interpreter / library settings that are global to the process or kept per thread, as a
    formula sees them in the middle of an evaluation: whatever one evaluation changes for its
    own duration must not be seen (or taken back) under another thread's evaluation"""
    import decimal
    import locale
    import os
    import sys
    import numpy as np
    ctx = decimal.getcontext()
    return (sys.getrecursionlimit(), ctx.prec, ctx.rounding, tuple(sorted(np.geterr().items())),
            os.getcwd(), locale.getlocale(locale.LC_NUMERIC), sys.getswitchinterval())


@excel_helper(err_str_params=None)
def probe(tag, x):
    STATE['probe_log'].append((tag, x))
    if STATE.get('env_log') is not None:
        STATE['env_log'].append((tag, settings_snapshot()))
    return x


@excel_helper(err_str_params=None)
def boom(site, x):
    calls = STATE['boom_calls']
    calls[site] = calls.get(site, 0) + 1
    plan = STATE['armed'].get(site)
    if plan is not None:
        k = calls[site] - plan['start']
        if (k == plan['at']) or (plan['persistent'] and k >= plan['at']):
            plan['fired'] += 1
            STATE['fired'] += 1
            raise EXC_CLASSES[plan['exc']](f'injected fault at {site}')
    return x
