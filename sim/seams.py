"""Seams the simulator owns (DESIGN section 1): the injection point where the
compiler hands `_C_`/`_R_` to compiled formulas and receives `eval_func`.

Wrapping `ExcelFormula.build_eval_context` from the harness gives the complete
read trace (formula being evaluated, address read), entry/exit events of every
formula evaluation and a place for the thread scheduler to take control.  No
change to /repo is involved; models that were unpickled rebuild their `_eval`
lazily through the same classmethod.
"""
import threading

LISTENERS = []
_state = {'installed': False, 'orig': None}


def install():
    if _state['installed']:
        return
    from pycel.excelformula import ExcelFormula
    orig = ExcelFormula.build_eval_context.__func__
    _state['orig'] = orig

    def patched(cls, evaluate, evaluate_range, logger=None, plugins=None):
        compiler = getattr(evaluate, '__self__', None)

        def ev(addr):
            for l in LISTENERS:
                l.on_read(compiler, addr, 'C')
            try:
                return evaluate(addr)
            finally:
                for l in LISTENERS:
                    l.after_read(compiler, addr, 'C')

        def evr(addr):
            for l in LISTENERS:
                l.on_read(compiler, addr, 'R')
            try:
                return evaluate_range(addr)
            finally:
                for l in LISTENERS:
                    l.after_read(compiler, addr, 'R')

        inner = orig(cls, ev, evr, logger, plugins)

        def eval_func(formula, cse_array_address=None):
            for l in LISTENERS:
                l.on_enter(compiler, formula)
            try:
                return inner(formula, cse_array_address=cse_array_address)
            finally:
                for l in LISTENERS:
                    l.on_exit(compiler, formula)
        return eval_func

    ExcelFormula.build_eval_context = classmethod(patched)
    _state['installed'] = True


def uninstall():
    if _state['installed']:
        from pycel.excelformula import ExcelFormula
        ExcelFormula.build_eval_context = classmethod(_state['orig'])
        _state['installed'] = False


class Listener:
    """base: events carry the compiler the formula belongs to"""

    def on_read(self, compiler, addr, kind):
        pass

    def after_read(self, compiler, addr, kind):
        pass

    def on_enter(self, compiler, formula):
        pass

    def on_exit(self, compiler, formula):
        pass


class ReadTrace(Listener):
    """per-thread stack of formulas being evaluated + a callback per read"""

    def __init__(self, on_event, thread_prefix='sut'):
        self.on_event = on_event
        self.prefix = thread_prefix
        self.tls = threading.local()

    def _stack(self):
        if not hasattr(self.tls, 'stack'):
            self.tls.stack = []
        return self.tls.stack

    def _mine(self):
        return threading.current_thread().name.startswith(self.prefix)

    def on_enter(self, compiler, formula):
        if self._mine():
            self._stack().append(formula)

    def on_exit(self, compiler, formula):
        if self._mine():
            self._stack().pop()

    def on_read(self, compiler, addr, kind):
        if self._mine():
            st = self._stack()
            self.on_event(compiler, st[-1] if st else None, addr, kind)


# ---------------------------------------------------------------------------
# file seam: `open` and `os` as looked up from pycel.excelcompiler's globals

class InjectedIOError(OSError):
    pass


class _TornFile:
    def __init__(self, f, seam, name=''):
        self._f = f
        self._seam = seam
        self._name = str(name)

    def write(self, data):
        seam = self._seam
        plan = seam.plan
        if plan and plan.get('file') and not self._name.endswith(plan['file']):
            return self._f.write(data)      # the fault is aimed at another file of this save
        seam.writes += 1
        if plan and not seam.fired and plan['kind'] in ('write-fails', 'torn-write') and \
                seam.writes == plan['at']:
            seam.fired = True
            if plan['kind'] == 'torn-write':
                self._f.write(data[:len(data) // 2])
                self._f.flush()
            raise InjectedIOError(28, f'No space left on device (injected, {plan["kind"]})')
        return self._f.write(data)

    def __getattr__(self, k):
        return getattr(self._f, k)

    def __enter__(self):
        return self

    def __exit__(self, *a):
        return self._f.__exit__(*a)

    def __iter__(self):
        return iter(self._f)


class _OsProxy:
    def __init__(self, real, seam):
        self._real = real
        self._seam = seam

    def unlink(self, path, *a, **k):
        seam = self._seam
        seam.unlinks += 1
        plan = seam.plan
        if plan and not seam.fired and plan['kind'] == 'unlink-fails':
            seam.fired = True
            raise InjectedIOError(13, 'Permission denied (injected, unlink-fails)')
        return self._real.unlink(path, *a, **k)

    def __getattr__(self, k):
        return getattr(self._real, k)


class FileSeam:
    """with FileSeam(plan): ... - faults hit the n-th write / open / unlink issued by to_file"""

    def __init__(self, plan=None):
        self.plan = plan
        self.writes = 0
        self.opens = 0
        self.unlinks = 0
        self.fired = False

    def _open(self, name, mode='r', *a, **k):
        import builtins
        if 'w' in mode:
            self.opens += 1
            plan = self.plan
            if plan and not self.fired and plan['kind'] == 'open-fails' and \
                    self.opens == plan['at']:
                self.fired = True
                raise InjectedIOError(13, 'Permission denied (injected, open-fails)')
            return _TornFile(builtins.open(name, mode, *a, **k), self, name)
        return builtins.open(name, mode, *a, **k)

    def __enter__(self):
        import os as real_os
        import pycel.excelcompiler as ec
        self._ec = ec
        self._had_open = 'open' in ec.__dict__
        ec.open = self._open
        ec.os = _OsProxy(real_os, self)
        return self

    def __exit__(self, *a):
        import os as real_os
        ec = self._ec
        if not self._had_open:
            del ec.open
        ec.os = real_os
        return False
