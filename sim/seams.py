"""Seams the simulator owns (DESIGN section 1): the injection point where the
compiler hands `_C_`/`_R_` to compiled formulas and receives `eval_func`.

Wrapping `ExcelFormula.build_eval_context` from the harness gives the complete
read trace (formula being evaluated, address read), entry/exit events of every
formula evaluation and a place for the thread scheduler to take control.  No
change to /repo is involved; models that were unpickled rebuild their `_eval`
lazily through the same classmethod.
"""
import threading

LISTENERS = []
_state = {'installed': False, 'orig': None}


def install():
    if _state['installed']:
        return
    from pycel.excelformula import ExcelFormula
    orig = ExcelFormula.build_eval_context.__func__
    _state['orig'] = orig

    def patched(cls, evaluate, evaluate_range, logger=None, plugins=None):
        compiler = getattr(evaluate, '__self__', None)

        def ev(addr):
            for l in LISTENERS:
                l.on_read(compiler, addr, 'C')
            try:
                return evaluate(addr)
            finally:
                for l in LISTENERS:
                    l.after_read(compiler, addr, 'C')

        def evr(addr):
            for l in LISTENERS:
                l.on_read(compiler, addr, 'R')
            try:
                return evaluate_range(addr)
            finally:
                for l in LISTENERS:
                    l.after_read(compiler, addr, 'R')

        inner = orig(cls, ev, evr, logger, plugins)

        def eval_func(formula, cse_array_address=None):
            for l in LISTENERS:
                l.on_enter(compiler, formula)
            try:
                return inner(formula, cse_array_address=cse_array_address)
            finally:
                for l in LISTENERS:
                    l.on_exit(compiler, formula)
        return eval_func

    ExcelFormula.build_eval_context = classmethod(patched)
    _state['installed'] = True


def uninstall():
    if _state['installed']:
        from pycel.excelformula import ExcelFormula
        ExcelFormula.build_eval_context = classmethod(_state['orig'])
        _state['installed'] = False


class Listener:
    """base: events carry the compiler the formula belongs to"""

    def on_read(self, compiler, addr, kind):
        pass

    def after_read(self, compiler, addr, kind):
        pass

    def on_enter(self, compiler, formula):
        pass

    def on_exit(self, compiler, formula):
        pass


class ReadTrace(Listener):
    """per-thread stack of formulas being evaluated + a callback per read"""

    def __init__(self, on_event, thread_prefix='sut'):
        self.on_event = on_event
        self.prefix = thread_prefix
        self.tls = threading.local()

    def _stack(self):
        if not hasattr(self.tls, 'stack'):
            self.tls.stack = []
        return self.tls.stack

    def _mine(self):
        return threading.current_thread().name.startswith(self.prefix)

    def on_enter(self, compiler, formula):
        if self._mine():
            self._stack().append(formula)

    def on_exit(self, compiler, formula):
        if self._mine():
            self._stack().pop()

    def on_read(self, compiler, addr, kind):
        if self._mine():
            st = self._stack()
            self.on_event(compiler, st[-1] if st else None, addr, kind)
