"""Self-tests of the machinery (DESIGN 2.10):

  ./check selftest regressions   every witness of a repaired defect replays clean on /repo,
                                 every known finding replays as KNOWN-FINDING
  ./check selftest determinism   N seeds per property twice (other process, other order, other
                                 worker count, other PYTHONHASHSEED): run digests must agree
  ./check selftest mutants [ID]  sensitivity: small semantic edits applied to a scratch copy of
                                 /repo/src (outside /repo and /verif), quick check must exit 1
"""
import json
import os
import shutil
import subprocess
import sys
import tempfile
import time

from . import core

VERIF = core.VERIF
PROPS = ('C01', 'C03', 'C04', 'C05', 'C06', 'C07', 'C08', 'C09', 'C12')

# (id, property expected to catch it, file under src/pycel, old text, new text, note)
MUTANTS = [
    ('M01', 'C01', 'excelcompiler.py',
     "            if not self.cycles:\n                self._reset(cell_or_range)\n",
     "            if not self.cycles:\n                pass\n",
     'set_value skips _reset'),
    ('M02', 'C09', 'excelcompiler.py',
     "                if (child_cell.value is not None or child_cell.empty_result or\n                        child_cell.address.is_range):\n",
     "                if (child_cell.value is not None or child_cell.empty_result):\n",
     '_reset does not look behind range nodes without a value (D20 reverted; since D38 only a '
     'failure inside such a range leaves one without a value, hence C09)'),
    ('M03', 'C01', 'excelcompiler.py',
     "            return None if formula and self._inputs_changed else value\n",
     "            return value\n",
     'stored results trusted after set_value (D3 reverted)'),
    ('M04', 'C03', 'excelcompiler.py',
     "            if a_cell.formula and a_cell.formula.python_code:\n                return '=' + a_cell.formula.python_code\n",
     "            if a_cell.formula and a_cell.formula.python_code and a_cell.value is None:\n                return '=' + a_cell.formula.python_code\n",
     '_to_text writes values of evaluated formula cells'),
    ('M05', 'C03', 'excelcompiler.py',
     "        to_removes = '_eval excel log graph_todos range_todos ' \\\n",
     "        to_removes = '_eval excel log graph_todos range_todos cycles ' \\\n",
     '__getstate__ drops cycles'),
    ('M06', 'C03', 'excelcompiler.py',
     "            if text_changed or pickle_digest != text_digest:\n",
     "            if text_changed or pickle_digest is None:\n",
     'pickle gating by existence only (D9 reverted)'),
    ('M07', 'C04', 'excelformula.py',
     "                    if t.type == 1 and t.string in ADDR_FUNCS_NAMES and (\n",
     "                    if t.type == 1 and t.string in ('_C_', '_R_') and (\n",
     'needed_addresses scanner ignores _REF_'),
    ('M08', 'C05', 'excelcompiler.py',
     "            if len(result[0]) == 1:\n                result = tuple(row[0] for row in result)\n            if len(result) == 1:\n                result = result[0]\n",
     "            if len(result) == 1:\n                result = result[0]\n            elif len(result[0]) == 1:\n                result = tuple(row[0] for row in result)\n",
     'dimension trimming swapped (1x1 range comes back as a 1-tuple)'),
    ('M09', 'C05', 'excelwrapper.py',
     "            self._max_col_row[sheet] = worksheet.max_column, worksheet.max_row\n",
     "            self._max_col_row[sheet] = worksheet.max_column, max(1, worksheet.max_row - 1)\n",
     'unbounded range clipped one row short of the used area'),
    ('M25', 'C05', 'excelcompiler.py',
     "            if len(result[0]) == 1:\n                result = tuple(row[0] for row in result)\n",
     "            if len(result[0]) == 1 and len(result) == 1:\n                result = tuple(row[0] for row in result)\n",
     'single-column ranges not flattened'),
    ('M10', 'C06', 'excelutil.py',
     "        return (self.ns.iteration_number >= self.ns.iterations or\n",
     "        return (self.ns.iteration_number > self.ns.iterations or\n",
     'one pass too many'),
    ('M11', 'C06', 'excelcompiler.py',
     "        if not self.close_enough(\n                self._prev_value, tol=iterative_eval_tracker.tolerance):\n            iterative_eval_tracker.wip(self)\n",
     "        if not self.close_enough(\n                self._prev_value, tol=iterative_eval_tracker.tolerance * 50):\n            iterative_eval_tracker.wip(self)\n",
     'tolerance not honoured (x50)'),
    ('M12', 'C07', 'excelutil.py',
     "class _IterativeEvalTracker:\n    \"\"\"When iteratively evaluating, keep track of which cycle we are on\"\"\"\n    _ns = threading.local()\n",
     "class _IterativeEvalTracker:\n    \"\"\"When iteratively evaluating, keep track of which cycle we are on\"\"\"\n    _ns = type('NS', (), {})()\n",
     'iterative tracker state shared by all threads'),
    ('M13', 'C07', 'excelutil.py',
     "        that the result will end up in\n    \"\"\"\n    _ns = threading.local()\n",
     "        that the result will end up in\n    \"\"\"\n    _ns = type('NS', (), {})()\n",
     'array-formula context stack shared by all threads'),
    ('M27', 'C07', 'excelutil.py',
     "def uniqueify(seq):\n    seen = set()\n    return tuple(x for x in seq if x not in seen and not seen.add(x))\n",
     "_SEEN = set()\n\n\ndef uniqueify(seq):\n    seen = _SEEN\n    seen.clear()\n    return tuple(x for x in seq if x not in seen and not seen.add(x))\n",
     'scratch set of a leaf helper made module-global: visible only when a thread is pre-empted '
     'inside the helper (line granularity)'),
    ('M28', 'C07', 'excellib.py',
     "    # ignore non numeric cells\n    args = tuple(flatten(args))\n",
     "    # ignore non numeric cells\n    buf = _numerics.__dict__.setdefault('buf', [])\n    buf[:] = flatten(args)\n    args = tuple(buf)\n",
     'SUM & co collect their arguments in a module-global buffer: two threads inside the '
     'helper at once (line granularity)'),
    ('M29', 'C01', 'excelcompiler.py',
     "            cell_range.value = data\n            if cell_range.formula and not self.cycles:\n                self._evaluate_referenced_ranges(cell_range)\n",
     "            cell_range.value = data\n",
     'an array formula does not calculate the ranges it only refers to (D56 reverted)'),
    ('M30', 'C05', 'excelcompiler.py',
     "            self.range_todos = []\n            raise failure\n",
     "            raise failure\n",
     'a range whose build failed stays queued (D57 reverted)'),
    ('M14', 'C08', 'excelcompiler.py',
     "                    if child_address in needed_cells or ':' in child_address:\n",
     "                    if child_address in needed_cells and ':' not in child_address:\n",
     'walk_precedents freezes range nodes'),
    ('M15', 'C08', 'excelcompiler.py',
     "                        for member in input_cell:\n                            walk_dependents(self.cell_map[member.address])\n",
     "                        pass\n",
     'members of an input range not walked (D11 reverted)'),
    ('M16', 'C09', 'excelcompiler.py',
     "        range_todos, self.range_todos = self.range_todos, []\n",
     "        range_todos = list(self.range_todos)\n",
     'pending range list never cleared (also not after a failure)'),
    ('M17', 'C09', 'excelcompiler.py',
     "                            cell.formula, cse_array_address=cse_array_address)\n                    except Exception:\n                        if isinstance(cell, _CycleCell):\n                            # a failed calculation is not in progress anymore\n                            cell.wip = False\n",
     "                            cell.formula, cse_array_address=cse_array_address)\n                    except Exception:\n                        pass\n",
     'work-in-progress flag not cleared after a failure (D7 reverted)'),
    ('M18', 'C09', 'excelformula.py',
     "                del error_messages[:]\n                capture_error_state(exc, msg)\n",
     "                capture_error_state(exc, msg)\n                assert 1 == len(error_messages)\n",
     'assert on the error list instead of clearing it (D8 reverted)'),
    ('M26', 'C09', 'excelformula.py',
     "            except RecursionError as exc:\n",
     "            except (RecursionError, ZeroDivisionError, KeyError) as exc:\n",
     'some plugin exceptions surface as a bare RecursionError instead of FormulaEvalError'),
    ('M19', 'C12', 'excelcompiler.py',
     "                    if not (original_value is None or\n                            cell.close_enough(original_value, tol=tolerance)):\n",
     "                    if not (original_value is None or isinstance(original_value, str) or\n                            cell.close_enough(original_value, tol=tolerance)):\n",
     'text stored results never reported'),
    ('M20', 'C12', 'excelcompiler.py',
     "                if verify_tree:  # pragma: no branch\n",
     "                if verify_tree and False:  # pragma: no branch\n",
     'verify_tree ignored'),
    ('M21', 'C12', 'excelcompiler.py',
     "            if tol is not None:\n                return abs(value - self.value) < (1 + rel) * tol\n",
     "            if tol is not None:\n                return abs(value - self.value) < (1 + rel) * tol * 1000\n",
     'tolerance x1000 in close_enough'),
    ('M22', 'C04', 'excelcompiler.py',
     "                self.dep_graph.add_edge(\n                    self.cell_map[precedent_address.address], dependant)\n",
     "                if not (precedent_address.is_range and dependant.address.is_range):\n                    self.dep_graph.add_edge(\n                        self.cell_map[precedent_address.address], dependant)\n",
     'no edge from a range precedent to an array-formula range'),
    ('M24', 'C01', 'excelcompiler.py',
     "                add_node_to_graph(ref_cell)\n                self.range_todos.append(str(address))\n",
     "                self.range_todos.append(str(address))\n",
     'unbounded-range reference not wired (D14 reverted)'),
]


def regressions():
    known = core.load_known()
    bad = 0
    for entry in known.get('fixed', []):
        for path in [entry['replay']] + entry.get('more', []):
            prop_id = entry['property']
            with open(os.path.join(VERIF, path)) as f:
                prop_id = json.load(f).get('property', prop_id)
            out = subprocess.run([os.path.join(VERIF, 'check'), prop_id, '--replay', path],
                                 stdout=subprocess.PIPE, stderr=subprocess.STDOUT, cwd=VERIF)
            ok = out.returncode == 0 and b'no violation' in out.stdout
            print(f'{"ok  " if ok else "FAIL"} fixed  {entry["defect"]:5} {path}', flush=True)
            bad += not ok
    for entry in known.get('findings', []):
        out = subprocess.run([os.path.join(VERIF, 'check'), entry['property'], '--replay',
                              entry['replay']], stdout=subprocess.PIPE, stderr=subprocess.STDOUT,
                             cwd=VERIF)
        ok = out.returncode == 0 and b'KNOWN-FINDING:' in out.stdout
        print(f'{"ok  " if ok else "FAIL"} known  {entry["id"]:5} {entry["replay"]}', flush=True)
        bad += not ok
    return 1 if bad else 0


def _digests(prop_id, n, workers, hashseed, reverse):
    code = (
        "import sys, json\n"
        "from sim import core, refmodel\n"
        "refmodel.quiet()\n"
        f"runs = core.load_prop('{prop_id}').budget('quick')['runs']\n"
        f"idx = sorted(set(list(range({n} // 2)) + [(i * runs) // {n} for i in range({n})]))\n"
        f"items=[(i, core.run_seed('{prop_id}', i, 1)) for i in idx]\n"
        f"items = items[::-1] if {reverse} else items\n"
        f"res = core.run_pool('{prop_id}', 'quick', items, {workers})\n"
        "print(json.dumps({str(r['index']): r.get('digest') for r in res}))\n")
    env = dict(os.environ, PYTHONHASHSEED=str(hashseed))
    path = os.path.join(tempfile.gettempdir(), f'pv-det-{os.getpid()}.py')
    with open(path, 'w') as f:
        f.write("if __name__ == '__main__':\n" + ''.join('    ' + l + '\n' for l in code.splitlines()))
    try:
        out = subprocess.run([sys.executable, path], stdout=subprocess.PIPE,
                             stderr=subprocess.PIPE, env=env, cwd=VERIF, timeout=3600)
    finally:
        os.unlink(path)
    if out.returncode != 0:
        raise core.HarnessError(out.stderr.decode()[-2000:])
    return json.loads(out.stdout.decode().strip().splitlines()[-1])


def determinism(props, n=200):
    bad = 0
    summary = {}
    for prop_id in props:
        t0 = time.time()
        a = _digests(prop_id, n, 16, 0, False)
        # C07 resolves its line-grained schedules against the lines pycel executes, and pycel
        # itself iterates over sets of strings here and there: the step at which a function is
        # reached moves by a line or two with PYTHONHASHSEED.  ./check pins PYTHONHASHSEED=0
        # (replays included), so for C07 the second pass differs in everything but that.
        other_seed = 0 if prop_id == 'C07' else 4242
        b = _digests(prop_id, n, 1 if n <= 60 else 5, other_seed, True)
        diff = [k for k in a if a[k] != b.get(k)]
        summary[prop_id] = {'seeds': n, 'mismatches': len(diff), 'wall_s': round(time.time() - t0, 1)}
        print(f'{prop_id}: {n} seeds x 2 (16 workers/hashseed 0/forward vs '
              f'{"1" if n <= 60 else "5"} workers/hashseed {other_seed}/reverse): '
              f'{len(diff)} digest mismatches {diff[:5]}', flush=True)
        bad += bool(diff)
    os.makedirs(os.path.join(VERIF, 'selftest'), exist_ok=True)
    with open(os.path.join(VERIF, 'selftest', 'determinism.json'), 'w') as f:
        json.dump(summary, f, indent=1, sort_keys=True)
    return 2 if bad else 0


def mutants(only=None, ids=None):
    results = []
    scratch_root = tempfile.mkdtemp(prefix='pycel-mutants-')
    try:
        for mid, prop_id, fname, old, new, note in MUTANTS:
            if only and prop_id not in only:
                continue
            if ids and mid not in ids:
                continue
            src = os.path.join(scratch_root, mid, 'src')
            shutil.copytree('/repo/src', src)
            path = os.path.join(src, 'pycel', fname)
            with open(path) as f:
                text = f.read()
            if text.count(old) != 1:
                print(f'{mid} {prop_id}: pattern occurs {text.count(old)} times - mutant stale, skipped',
                      flush=True)
                results.append({'id': mid, 'property': prop_id, 'note': note, 'status': 'stale'})
                shutil.rmtree(os.path.join(scratch_root, mid))
                continue
            with open(path, 'w') as f:
                f.write(text.replace(old, new))
            t0 = time.time()
            env = dict(os.environ, PYCEL_SRC=src)
            out = subprocess.run([os.path.join(VERIF, 'check'), prop_id, 'quick'], env=env,
                                 stdout=subprocess.PIPE, stderr=subprocess.STDOUT, cwd=VERIF)
            text_out = out.stdout.decode()
            viol = [l for l in text_out.splitlines() if l.startswith('VIOLATION')]
            tags = [l.strip() for l in text_out.splitlines() if l.strip().startswith('violation tag=')]
            caught = out.returncode == 1 and bool(viol)
            print(f'{mid} {prop_id}: {"CAUGHT" if caught else "MISSED (exit %d)" % out.returncode}'
                  f'  {note}  [{time.time() - t0:.0f}s] {tags[:1]}', flush=True)
            results.append({'id': mid, 'property': prop_id, 'note': note,
                            'status': 'caught' if caught else 'missed',
                            'exit': out.returncode, 'first_tags': tags[:3]})
            shutil.rmtree(os.path.join(scratch_root, mid))
    finally:
        shutil.rmtree(scratch_root, ignore_errors=True)
        # replay files written while running against mutants are not findings on /repo
    os.makedirs(os.path.join(VERIF, 'selftest'), exist_ok=True)
    if not only and not ids:
        with open(os.path.join(VERIF, 'selftest', 'mutants.json'), 'w') as f:
            json.dump(results, f, indent=1, sort_keys=True)
    return 0 if all(r['status'] != 'missed' for r in results) else 1


def main(argv):
    if not argv:
        print(__doc__)
        return 2
    if argv[0] == 'regressions':
        return regressions()
    if argv[0] == 'determinism':
        props = [a.upper() for a in argv[1:] if not a.isdigit()] or PROPS
        n = next((int(a) for a in argv[1:] if a.isdigit()), 200)
        return determinism(props, n)
    if argv[0] == 'mutants':
        only = [a.upper() for a in argv[1:] if a.upper().startswith('C')]
        ids = [a.upper() for a in argv[1:] if a.upper().startswith('M')]
        return mutants(only or None, ids or None)
    print(__doc__)
    return 2
