"""Driving the system under test: one `Driver` executes explicit operations
against a real ExcelCompiler on a thread that belongs to the run.

Operation vocabulary (plain JSON, see DESIGN 2.4):

  {"op": "eval", "a": ADDR, "form": cell|list|tuple|gen|nosheet|obj}
  {"op": "eval", "rng": RANGE, "form": range}          range / unbounded range
  {"op": "set",  "a": ADDR, "v": scalar}
  {"op": "restart", "fmt": yml|json|pkl, "where": same|thread|process}
  {"op": "trim", "inputs": [...], "outputs": [...]}
  {"op": "validate", "outputs": [...]|null, "tolerance": x|null}

`step(op)` returns an outcome {"v": jsonable value} or {"exc": class, "msg": text}.
"""
import json
import os
import shutil
import subprocess
import sys
import tempfile

from . import values, wbgen
from .refmodel import Actor, InlineActor

PLUGIN = 'sim.plugin'


def outcome_of(fn):
    try:
        return {'v': values.jsonable(fn())}
    except Exception as exc:   # noqa
        return {'exc': type(exc).__name__, 'msg': str(exc)[-300:],
                'pycel': _is_pycel_exc(exc)}


def _is_pycel_exc(exc):
    from pycel.excelutil import PyCelException
    return isinstance(exc, PyCelException)


class Driver:
    """owns the model and the thread it is used on"""

    def __init__(self, tmpdir, plugins=(PLUGIN,), thread_name='sut', inline=False):
        self.tmpdir = tmpdir
        self.plugins = plugins
        self.inline = inline
        self.actor = InlineActor() if inline else Actor(thread_name)
        self.model = None
        self.n_files = 0
        self.restarts = 0
        self.events = []
        self.downgraded = False

    # -- building -----------------------------------------------------------
    def build_nodata(self, spec, overrides=None, cycles=None):
        from pycel import ExcelCompiler
        wb = wbgen.to_workbook(spec, overrides)

        def make():
            if cycles is None:
                return ExcelCompiler(excel=wb, plugins=self.plugins)
            return ExcelCompiler(excel=wb, plugins=self.plugins, cycles=cycles)
        self.model = self.actor.call(make)
        return self.model

    def build_xlsx(self, spec, stored, overrides=None, name='book.xlsx', cycles=None,
                   strict=True, compress=True):
        from pycel import ExcelCompiler
        if strict and any('f' in c and wbgen.unstorable(stored.get(c['a'])) for c in spec['cells']):
            # a formula whose result is empty (=A1:A3 over a blank cell), the empty text (which
            # openpyxl reads back as no value at all) or unknown: a file
            # written by Excel would carry a cached value for it, ours would not while the
            # dependants have one - not a consistent file.  Histories that write inputs fall
            # back to the workbook without stored results.
            self.downgraded = True
            return self.build_nodata(spec, overrides, cycles)
        path = os.path.join(self.tmpdir, name)
        wbgen.to_xlsx(spec, path, stored, overrides, compress=compress)

        def make():
            if cycles is None:
                return ExcelCompiler(filename=path, plugins=self.plugins)
            return ExcelCompiler(filename=path, plugins=self.plugins, cycles=cycles)
        self.model = self.actor.call(make)
        return self.model

    # -- operations -----------------------------------------------------------
    def step(self, op):
        kind = op['op']
        out = getattr(self, 'op_' + kind)(op)
        return out

    def op_eval(self, op):
        form = op.get('form', 'cell')
        model = self.model
        if form == 'range':
            arg = op['rng']
        elif form == 'cell':
            arg = op['a']
        elif form == 'list':
            arg = [op['a']]
        elif form == 'tuple':
            arg = (op['a'],)
        elif form == 'gen':
            arg = (x for x in [op['a']])
        elif form == 'nested':
            # an iterable inside a list: [generator of addresses, address]
            arg = [(x for x in [op['a']]), op['a']]
        elif form == 'nosheet':
            arg = op['a'].rsplit('!', 1)[1]
        elif form == 'obj':
            from pycel.excelutil import AddressCell
            arg = AddressCell(op['a'])
        else:
            raise ValueError(form)
        kwargs = {}
        if op.get('iterations') is not None:
            kwargs['iterations'] = op['iterations']
        if op.get('tolerance') is not None:
            kwargs['tolerance'] = op['tolerance']

        def run():
            r = model.evaluate(arg, **kwargs)
            if form in ('list', 'tuple', 'gen'):
                r = r[0]
            elif form == 'nested':
                r = r[0]                                  # what the generator gave: (value,)
                r = r[0] if len(r) == 1 else r
            return r
        return self.actor.call(outcome_of, run)

    def op_touch(self, op):
        """make sure the address is in cell_map (documented precondition of set_value)"""
        model = self.model
        a = op['a']
        if a in model.cell_map:
            return {'v': ['blank']}
        return self.actor.call(outcome_of, lambda: (model.evaluate(a), None)[1])

    def op_set(self, op):
        model = self.model
        a, v = op['a'], op['v']
        pre = None
        if a not in model.cell_map:
            pre = self.actor.call(outcome_of, lambda: (model.evaluate(a), None)[1])
            if 'exc' in pre and a not in model.cell_map:
                pre['during'] = 'touch'
                return pre
        return self.actor.call(outcome_of, lambda: model.set_value(a, v))

    def save(self, fmt, name=None):
        if self.model is None:
            return None, {'exc': 'HarnessState', 'msg': 'no model', 'pycel': False}
        self.n_files += 1
        name = name or f'model{self.n_files}'
        base = os.path.join(self.tmpdir, name)
        model = self.model
        out = self.actor.call(outcome_of, lambda: model.to_file(base, file_types=(fmt,)))
        return base, out

    def op_restart(self, op):
        out = self.restart_save(op)
        if 'exc' in out:
            return out
        if op.get('where', 'same') == 'thread' and not self.inline:
            self.actor.close()
            self.actor = Actor(f'sut-r{self.restarts + 1}')
        return self.restart_load(op)

    def restart_save(self, op):
        """first half of a restart: make the model durable, drop it"""
        base, out = self.save(op['fmt'])
        if 'exc' in out:
            out['during'] = 'to_file'
            return out
        self.pending_path = base + '.' + op['fmt']
        self.model = None
        return out

    def restart_load(self, op):
        """second half: only what to_file wrote survives"""
        from pycel import ExcelCompiler
        path = self.pending_path
        self.restarts += 1
        plugins = self.plugins

        def load():
            self.model = ExcelCompiler.from_file(path, plugins=plugins)
        out = self.actor.call(outcome_of, load)
        if 'exc' in out:
            out['during'] = 'from_file'
        return out

    def op_validate(self, op):
        """validate_calcs() of everything: a debugging aid that evaluates every formula and
        swallows what it cannot evaluate; the model is used on afterwards"""
        model = self.model

        def run():
            import contextlib
            import io
            with contextlib.redirect_stdout(io.StringIO()):
                model.validate_calcs()
            return None
        return self.actor.call(outcome_of, run)

    def op_recalc(self, op):
        model = self.model
        return self.actor.call(outcome_of, lambda: model.recalculate())

    def op_trim(self, op):
        model = self.model
        return self.actor.call(
            outcome_of, lambda: model.trim_graph(op['inputs'], op['outputs']))

    def close(self):
        self.actor.close()


class TmpDir:
    def __enter__(self):
        base = '/dev/shm' if os.path.isdir('/dev/shm') and os.access('/dev/shm', os.W_OK) else None
        self.path = tempfile.mkdtemp(prefix='pycel-verif-', dir=base)
        return self.path

    def __exit__(self, *a):
        shutil.rmtree(self.path, ignore_errors=True)


def run_child(payload, hashseed='4242', timeout=120):
    """execute `payload` (see sim/child.py) in a brand-new interpreter"""
    env = dict(os.environ)
    env['PYTHONHASHSEED'] = str(hashseed)
    env['PYTHONPATH'] = os.pathsep.join(p for p in sys.path if p)
    proc = subprocess.run(
        [sys.executable, '-m', 'sim.child'], input=json.dumps(payload).encode(),
        stdout=subprocess.PIPE, stderr=subprocess.PIPE, env=env, timeout=timeout,
        cwd=os.getcwd())
    if proc.returncode != 0:
        raise RuntimeError('child failed: ' + proc.stderr.decode()[-2000:])
    return json.loads(proc.stdout.decode())
