"""Baton-passing scheduler for real threads (DESIGN 2.5).

Real `threading.Thread`s are needed because the state under test lives in
`threading.local()`.  Exactly one controlled thread holds the baton; every
other controlled thread is parked on a condition variable.  A thread offers
the scheduler a decision at each yield point (operation boundaries, entry and
return of every formula evaluation, entry and return of every `_C_`/`_R_` read
- installed through sim.seams).  Who runs next is data: a list of switches
[[global step, thread name], ...]; one schedule is one exactly repeatable
execution.
"""
import os
import sys
import threading

from . import seams


CURRENT = [None]     # the scheduler of the run in progress (for sim.slowplug's import pause)


def import_pause(name):
    """called from the body of a module that is being imported on a controlled thread"""
    s = CURRENT[0]
    if s is not None:
        s.import_pause(name)


def import_done(name):
    s = CURRENT[0]
    if s is not None:
        s.importing.pop(name, None)


def forget_module(name):
    """the next import of `name` executes the module again"""
    pkg, _, leaf = name.rpartition('.')
    sys.modules.pop(name, None)
    if pkg in sys.modules and hasattr(sys.modules[pkg], leaf):
        delattr(sys.modules[pkg], leaf)


class _ImportlibProxy:
    """stands in for the `importlib` pycel.excelformula looks up: a controlled thread that asks
    for a module another controlled thread is in the middle of importing waits for it, as it
    would on the interpreter's per-module import lock - deterministically, by handing the baton
    to the importing thread"""

    def __init__(self, real):
        self._real = real

    def import_module(self, name, package=None):
        s = CURRENT[0]
        if s is not None:
            s.wait_for_import(name)
        return self._real.import_module(name, package)

    def __getattr__(self, k):
        return getattr(self._real, k)


def install_import_seam():
    import importlib
    import pycel.excelformula as ef
    if not isinstance(ef.importlib, _ImportlibProxy):
        ef.importlib = _ImportlibProxy(importlib)


class StepCap(BaseException):
    """raised inside a controlled thread once the run exceeded its step budget"""


class Scheduler(seams.Listener):
    def __init__(self, names, switches, step_cap=100000, first=None, grain='cell', prefix=None):
        """grain 'cell': yield points of cell-evaluation granularity only (seam listener);
        grain 'line': in addition every line of pycel's own source (files below `prefix`)
        executed by a controlled thread is a yield point (sys.settrace on that thread)"""
        self.names = list(names)
        self.grain = grain
        self.prefix = prefix
        self.switch_sites = []   # where line-grained switches pre-empted ("file:function")
        self.site_steps = None   # {"file:function": [steps]} when the caller asks for it
        self.switch_at = {}
        for step, name in switches:
            self.switch_at.setdefault(int(step), name)
        self.cv = threading.Condition()
        self.cur = first or self.names[0]
        self.done = set()
        self.step = 0
        self.step_cap = step_cap
        self.capped = False
        self.trace = []          # (step, thread, what) - the event log of the schedule
        self.switches_taken = []  # (step, from, to)
        self.inside = {}         # thread -> depth of formula evaluations (for probes)
        self.preempt_inside_eval = 0
        self.results = {}
        self.importing = {}      # module name -> thread in the middle of importing it
        self.on_import_pause = None   # (thread to switch to, steps it gets or 0) - one shot
        self.import_waits = 0
        self.import_pauses = 0

    # -- seam listener: yield points at cell-evaluation granularity ----------------
    def on_enter(self, compiler, formula):
        self.yield_point('enter')
        self._depth(+1)

    def on_exit(self, compiler, formula):
        self._depth(-1)
        self.yield_point('exit')

    def on_read(self, compiler, addr, kind):
        self.yield_point('read')

    def after_read(self, compiler, addr, kind):
        self.yield_point('read-done')

    def _depth(self, d):
        me = threading.current_thread().name
        if me in self.inside:
            self.inside[me] += d

    # -- line granularity: every line of pycel source is a yield point -------------
    def _tracer(self, frame, event, arg):
        code = frame.f_code
        if code.co_name == '<module>' or not code.co_filename.startswith(self.prefix):
            return None
        # One yield point per *change* of line within a frame.  CPython 3.12 reports the
        # line of a caller a second time when a callee was inlined by the specialising
        # interpreter (property getters, generators) - which depends on how often the code
        # ran in this process before.  Ignoring a repeated report of the line a frame is
        # already on makes the count a function of the control flow alone.
        last = [None]

        def line(frame, event, arg):
            if event == 'line':
                n = frame.f_lineno
                if n != last[0]:
                    last[0] = n
                    self.yield_point('line', frame)
            return line
        return line

    # -- the baton ---------------------------------------------------------------
    def yield_point(self, what, frame=None):
        me = threading.current_thread().name
        if me not in self.inside:
            return                       # not a controlled thread (reference runs etc.)
        with self.cv:
            if self.cur != me:
                # only happens if a thread runs without the baton: harness defect
                raise RuntimeError(f'thread {me} ran without the baton (cur={self.cur})')
            self.step += 1
            if self.step > self.step_cap:
                self.capped = True
                raise StepCap(f'step cap {self.step_cap} exceeded')
            self.trace.append((self.step, me, what))
            if self.site_steps is not None and frame is not None:
                self.site_steps.setdefault(
                    os.path.basename(frame.f_code.co_filename) + ':' + frame.f_code.co_name,
                    []).append(self.step)
            nxt = self.switch_at.get(self.step)
            if nxt is not None and nxt != me and nxt in self.inside and nxt not in self.done:
                self.switches_taken.append((self.step, me, nxt))
                if self.inside.get(me, 0) > 0:
                    self.preempt_inside_eval += 1
                if frame is not None:
                    self.switch_sites.append(
                        os.path.basename(frame.f_code.co_filename) + ':' + frame.f_code.co_name)
                self.cur = nxt
                self.cv.notify_all()
                while self.cur != me:
                    self.cv.wait()

    # -- imports that take a while ------------------------------------------------------
    def import_pause(self, name):
        me = threading.current_thread().name
        if me not in self.inside:
            return
        self.importing[name] = me
        self.import_pauses += 1
        plan, self.on_import_pause = self.on_import_pause, None
        if plan:
            others = [t for t in self.names if t != me and t not in self.done]
            to = plan[0] if plan[0] in others else (others[0] if others else None)
            if to is not None:
                self.switch_at[self.step + 1] = to
                if plan[1]:
                    self.switch_at.setdefault(self.step + 1 + plan[1], me)
        self.yield_point('import-pause')

    def wait_for_import(self, name):
        me = threading.current_thread().name
        if me not in self.inside:
            return
        while self.importing.get(name) not in (None, me):
            owner = self.importing[name]
            with self.cv:
                if owner in self.done:
                    self.importing.pop(name, None)
                    break
                self.import_waits += 1
                self.trace.append((self.step, me, 'blocked-on-import'))
                self.cur = owner
                self.cv.notify_all()
                while self.cur != me:
                    self.cv.wait()

    def run(self, programs, copy_context=False):
        """programs: {name: callable()}; returns {name: result or ('EXC', repr)}

        copy_context: start every thread the way asyncio.to_thread / context-propagating
        executors do - inside a copy of the starting thread's contextvars context"""
        threads = {}
        for name in self.names:
            self.inside[name] = 0

        def wrap(name, fn):
            with self.cv:
                while self.cur != name:
                    self.cv.wait()
            try:
                if self.grain == 'line':
                    sys.settrace(self._tracer)
                try:
                    value = fn()
                finally:
                    sys.settrace(None)
                self.results[name] = ('ok', value)
            except StepCap as exc:
                self.results[name] = ('cap', str(exc))
            except BaseException as exc:   # noqa
                self.results[name] = ('exc', f'{type(exc).__name__}: {exc}')
            with self.cv:
                self.done.add(name)
                alive = [t for t in self.names if t not in self.done]
                if self.cur == name:
                    self.cur = alive[0] if alive else None
                self.cv.notify_all()

        for name in self.names:
            if copy_context:
                import contextvars
                threads[name] = threading.Thread(
                    target=contextvars.copy_context().run, args=(wrap, name, programs[name]),
                    name=name, daemon=True)
            else:
                threads[name] = threading.Thread(target=wrap, args=(name, programs[name]),
                                                 name=name, daemon=True)
        seams.install()
        seams.LISTENERS.append(self)
        CURRENT[0] = self
        try:
            for t in threads.values():
                t.start()
            for t in threads.values():
                t.join()
        finally:
            CURRENT[0] = None
            seams.LISTENERS.remove(self)
        return self.results
