"""WbSpec: generated workbooks as plain JSON, the harness's own dependency DAG,
and materialisers (in-memory openpyxl workbook, real .xlsx with stored results).

A spec is

  {"sheets": [names...], "active": name, "data_sheet": name|None,
   "cells":  [{"a": "S!A1", "v": const}                       constant / blank
              {"a": "S!B2", "f": "=A1+1", "p": [...], "d": [...]}   formula
              {"a": "S!H1", "cse": "S!H1:H3", "f": "=A1:A3*2", "p": [...]}   CSE member
              ...],               in generation order (references point backwards)
   "names":  {"nm": "S!$A$1:$B$2"},
   "iter":   null | [iterations, tolerance],
   "pinned": [addresses never written by histories]}

"p" are the cells whose value the formula reads (the harness DAG), "d" the
cells it only names (ROW()/COLUMN() operands).  Both come from the generator,
never from pycel's parser.
"""
import io
import re
import zipfile
from xml.sax.saxutils import escape

COLS = 'ABCDEFGHIJKLMNOPQRSTUVWXYZ'


# ---------------------------------------------------------------------------
# address helpers (harness-owned; deliberately not pycel's)

def split_addr(addr):
    sheet, coord = addr.rsplit('!', 1)
    return sheet, coord


def coord_rc(coord):
    m = re.fullmatch(r'\$?([A-Z]+)\$?(\d+)', coord)
    col = 0
    for ch in m.group(1):
        col = col * 26 + ord(ch) - 64
    return int(m.group(2)), col


def rc_coord(row, col):
    s = ''
    while col:
        col, r = divmod(col - 1, 26)
        s = chr(65 + r) + s
    return f'{s}{row}'


def mk(sheet, row, col):
    return f'{sheet}!{rc_coord(row, col)}'


def range_cells(rng):
    """'S!A1:B2' -> list of rows of addresses"""
    sheet, coords = split_addr(rng)
    a, b = coords.replace('$', '').split(':')
    r1, c1 = coord_rc(a)
    r2, c2 = coord_rc(b)
    return [[mk(sheet, r, c) for c in range(c1, c2 + 1)]
            for r in range(r1, r2 + 1)]


def flat_range(rng):
    return [a for row in range_cells(rng) for a in row]


def quote_sheet(sheet):
    if re.fullmatch(r'[A-Za-z_][A-Za-z0-9_]*', sheet):
        return sheet
    return "'" + sheet.replace("'", "''") + "'"


def is_formula_cell(c):
    return 'f' in c


# ---------------------------------------------------------------------------
# the harness DAG

class Dag:
    def __init__(self, spec):
        self.spec = spec
        self.cell = {c['a']: c for c in spec['cells']}
        self.order = [c['a'] for c in spec['cells']]
        self.prec = {a: list(c.get('p', ())) for a, c in self.cell.items()}
        self.decl = {a: list(c.get('p', ())) + list(c.get('d', ()))
                     for a, c in self.cell.items()}
        self._anc = {}
        self._anc_decl = {}
        self.deps = {a: [] for a in self.cell}
        for a, ps in self.prec.items():
            for p in ps:
                self.deps.setdefault(p, []).append(a)

    def ancestors(self, addr, declared=False):
        """transitive precedents (by value; with declared=True also by name)"""
        cache = self._anc_decl if declared else self._anc
        if addr not in cache:
            table = self.decl if declared else self.prec
            seen = set()
            todo = list(table.get(addr, ()))
            while todo:
                x = todo.pop()
                if x not in seen:
                    seen.add(x)
                    todo.extend(table.get(x, ()))
            cache[addr] = seen
        return cache[addr]

    def descendants(self, addr):
        seen = set()
        todo = list(self.deps.get(addr, ()))
        while todo:
            x = todo.pop()
            if x not in seen:
                seen.add(x)
                todo.extend(self.deps.get(x, ()))
        return seen

    def closure(self, addrs, declared=True):
        """addrs plus everything pycel has to build to evaluate them"""
        out = set()
        for a in addrs:
            if a in self.cell:
                out.add(a)
                out |= self.ancestors(a, declared=declared)
        return out

    def formulas(self):
        return [a for a in self.order if is_formula_cell(self.cell[a])]

    def constants(self):
        return [a for a in self.order if not is_formula_cell(self.cell[a])]


# ---------------------------------------------------------------------------
# generator

NUM_POOL = (0, 1, 2, 3, 5, 7, -1, -4, 10, 0.5, 1.5, -2.25, 0.1, 100, 12.75)
TEXT_POOL = ('txt', 'b', 'Abc', 'z z', 'x', 'Q', "'q", "'")
NUMTEXT_POOL = ('7', '0', '-3', '1.5')
SHEET_NAMES = ('S', 'Sh2', 'My Sheet', 'Calc 2', 'Copy (2)', 'Data 1', 'T_1')
AGGS = ('SUM', 'AVERAGE', 'MIN', 'MAX', 'COUNT')


def draw_const(rnd, kinds):
    k = rnd.choice(kinds)
    if k == 'num':
        return rnd.choice(NUM_POOL)
    if k == 'float':
        return round(rnd.uniform(-9, 9), rnd.choice((1, 2, 3)))
    if k == 'text':
        return rnd.choice(TEXT_POOL)
    if k == 'numtext':
        return rnd.choice(NUMTEXT_POOL)
    if k == 'bool':
        return rnd.choice((True, False))
    if k == 'blank':
        return None
    raise ValueError(k)


DEFAULT_KNOBS = dict(
    n_cells=(6, 20), width=(3, 5), n_sheets=(1, 3),
    p_const=0.35,
    const_kinds=('num', 'num', 'num', 'float', 'float', 'text', 'numtext', 'bool', 'blank'),
    ranges=True, names=True, cse=True, intersection=True, multicolon=True,
    rowcol=True, unbounded=True, text=True, index=True, percent=True,
    abs_refs=True, sheet_refs=True, lead_consts=3,
    iferr=True, rowcol_noarg=True, union=True, sumproduct=True, stats=True,
    lookup=True, reserve_name=True, lexical=True, condagg=True,
)


def draw_knobs(rnd, **override):
    """swarm: every run enables its own subset of grammar features"""
    k = dict(DEFAULT_KNOBS)
    for feat in ('ranges', 'names', 'cse', 'intersection', 'multicolon', 'rowcol',
                 'unbounded', 'text', 'index', 'percent', 'abs_refs', 'sheet_refs',
                 'iferr', 'rowcol_noarg', 'union', 'sumproduct', 'stats', 'lookup', 'condagg'):
        k[feat] = rnd.random() < 0.7
    k['reserve_name'] = rnd.random() < 0.3
    k['lexical'] = rnd.random() < 0.4
    k['ranges'] = rnd.random() < 0.85
    k['p_const'] = rnd.choice((0.2, 0.35, 0.5))
    k.update(override)
    return k


class SpecGen:
    """draws a WbSpec from a random.Random; all references point backwards"""

    def __init__(self, rnd, knobs=None):
        self.rnd = rnd
        self.k = dict(DEFAULT_KNOBS)
        if knobs:
            self.k.update(knobs)
        self.cells = []
        self.by_addr = {}
        self.names = {}
        self.filled = {}     # sheet -> number of grid cells defined (row-major)
        self.width = {}
        self.cse_blocks = []  # (sheet, r1, c1, r2, c2)
        self.pinned = []
        self.cur_sheet = None
        self.ranges_used = []   # plain rectangles written literally in the current formula
        self.declared_extra = []   # cells named (not read) by the current formula

    # -- layout -------------------------------------------------------------
    def grid_addr(self, sheet, i):
        w = self.width[sheet]
        return mk(sheet, i // w + 1, i % w + 1)

    def add(self, cell):
        self.cells.append(cell)
        self.by_addr[cell['a']] = cell

    def defined(self):
        return [c['a'] for c in self.cells]

    # -- references -----------------------------------------------------------
    def ref_text(self, addr):
        """one of the written forms of a cell reference"""
        rnd = self.rnd
        sheet, coord = split_addr(addr)
        r, c = coord_rc(coord)
        col = rc_coord(1, c)[:-1]
        if self.k['abs_refs']:
            form = rnd.choice(('', '', 'cr', 'c', 'r'))
        else:
            form = ''
        txt = (('$' if 'c' in form else '') + col +
               ('$' if 'r' in form else '') + str(r))
        if sheet != self.cur_sheet or (self.k['sheet_refs'] and rnd.random() < 0.25):
            txt = quote_sheet(sheet) + '!' + txt
        return txt

    def range_text(self, sheet, r1, c1, r2, c2):
        rnd = self.rnd

        def one(r, c):
            col = rc_coord(1, c)[:-1]
            if self.k['abs_refs'] and rnd.random() < 0.3:
                return f'${col}${r}'
            return f'{col}{r}'
        txt = f'{one(r1, c1)}:{one(r2, c2)}'
        if sheet != self.cur_sheet or (self.k['sheet_refs'] and rnd.random() < 0.25):
            txt = quote_sheet(sheet) + '!' + txt
        return txt

    def pick_cell(self):
        return self.rnd.choice(self.defined())

    def pick_rect(self):
        """a rectangle of already defined cells: (sheet, r1, c1, r2, c2) or None"""
        rnd = self.rnd
        sheets = [s for s, n in self.filled.items() if n >= 2]
        choices = []
        if sheets:
            choices.append('grid')
        if self.cse_blocks:
            choices.append('cse')
        if not choices:
            return None
        if rnd.choice(choices) == 'cse' and rnd.random() < 0.5:
            return rnd.choice(self.cse_blocks)
        if not sheets:
            return rnd.choice(self.cse_blocks)
        sheet = rnd.choice(sheets)
        w = self.width[sheet]
        last = rnd.randrange(1, self.filled[sheet])
        r2, c2 = divmod(last, w)
        r1 = rnd.randint(max(0, r2 - 2), r2)
        c1 = rnd.randint(0, c2)
        if r1 == r2 and c1 == c2:
            if c2 > 0:
                c1 = c2 - 1
            elif r2 > 0:
                r1 = r2 - 1
        return (sheet, r1 + 1, c1 + 1, r2 + 1, c2 + 1)

    def rect_addrs(self, rect):
        sheet, r1, c1, r2, c2 = rect
        return [mk(sheet, r, c) for r in range(r1, r2 + 1) for c in range(c1, c2 + 1)]

    def range_operand(self):
        """(text, value-precedents) of something usable as a range argument"""
        rnd, k = self.rnd, self.k
        roll = rnd.random()
        if k['unbounded'] and self.data_sheet and roll < 0.12:
            ds = self.data_sheet
            n = self.filled[ds]
            w = self.width[ds]
            rows = (n + w - 1) // w
            pick = rnd.random()
            if pick < 0.2 and w >= 2:
                # intersection of a band of columns and a row: both operands are only named
                # (a column with a row, i.e. a single cell, is not generated: pycel cannot
                # read a one-cell result of an intersection through _R_ at all, see section 8)
                r = rnd.randint(1, rows)
                col2 = rc_coord(1, 2)[:-1]
                txt = f'{quote_sheet(ds)}!A:{col2} {quote_sheet(ds)}!{r}:{r}'
                inter = [mk(ds, r, 1), mk(ds, r, 2)]
                self.declared_extra += [mk(ds, rr, cc) for rr in range(1, rows + 1)
                                        for cc in (1, 2) if rr != r]
                self.declared_extra += [mk(ds, r, cc) for cc in range(3, w + 1)]
                return txt, inter
            if pick < 0.3 and w >= 2 and k.get('lookup'):
                # a band of two whole columns / rows (a lookup table "to the end of the sheet")
                if rnd.random() < 0.6 or rows < 2:
                    txt = f'{quote_sheet(ds)}!A:B'
                    cells = [mk(ds, r, c) for r in range(1, rows + 1) for c in (1, 2)]
                else:
                    txt = f'{quote_sheet(ds)}!1:2'
                    cells = [mk(ds, r, c) for r in (1, 2) for c in range(1, w + 1)]
                return txt, [a for a in cells if a in self.by_addr]
            if pick < 0.6:
                c = rnd.randint(1, w)
                col = rc_coord(1, c)[:-1]
                txt = f'{quote_sheet(ds)}!{col}:{col}'
                cells = [mk(ds, r, c) for r in range(1, rows + 1)]
            else:
                r = rnd.randint(1, rows)
                txt = f'{quote_sheet(ds)}!{r}:{r}'
                cells = [mk(ds, r, c) for c in range(1, w + 1)]
            return txt, cells
        if k['names'] and roll < 0.25:
            rnames = [n for n, t in self.names.items() if ':' in t]
            if rnames:
                n = rnd.choice(rnames)
                return n, flat_range(self.names[n])
        rect = self.pick_rect()
        if rect is None:
            return None
        sheet, r1, c1, r2, c2 = rect
        single = r2 == r1 and c2 == c1
        if (k['intersection'] and roll > 0.88 and r2 > r1 and c2 > c1 and
                k.get('single_intersection', True) and rnd.random() < 0.3):
            # a column part and a row part of the rectangle that meet in one cell
            col, row_ = (sheet, r1, c2, r2, c2), (sheet, r2, c1, r2, c2)
            corner = self.rect_addrs((sheet, r2, c2, r2, c2))
            self.declared_extra += [a for a in self.rect_addrs(col) + self.rect_addrs(row_)
                                    if a not in corner]
            return self.range_text(*col) + ' ' + self.range_text(*row_), corner
        if k['intersection'] and roll > 0.88 and not single:
            # two overlapping rectangles inside the defined area whose
            # intersection is rect: widen one to the top/left, the other is rect
            ra = (sheet, max(1, r1 - 1), max(1, c1 - 1), r2, c2)
            # the other operand sticks out to the right / below where cells exist, so
            # that the intersection is a proper part of both written ranges
            rb = rect
            for cand in ((sheet, r1, c1, r2, c2 + 1), (sheet, r1, c1, r2 + 1, c2)):
                if all(a in self.by_addr for a in self.rect_addrs(cand)):
                    rb = cand
                    break
            if all(a in self.by_addr for a in self.rect_addrs(ra)):
                txt = self.range_text(*ra) + ' ' + self.range_text(*rb)
                # both operands are declared precedents, only the intersection is read
                self.declared_extra += [a for a in self.rect_addrs(ra) + self.rect_addrs(rb)
                                        if a not in self.rect_addrs(rect)]
                return txt, self.rect_addrs(rect)
        if k.get('union') and 0.70 < roll <= 0.78 and r2 > r1 and c2 > c1 and sheet == self.cur_sheet:
            # range operator between a range and a cell, parenthesised so that it is applied
            # at run time: (A1:B2):C3 reads the bounding rectangle A1:C3
            col1, colm, col2 = (rc_coord(1, c1)[:-1], rc_coord(1, c2 - 1)[:-1] if c2 - 1 >= c1 else None,
                                rc_coord(1, c2)[:-1])
            if colm and rnd.random() < 0.4:
                # chained: A3:(B1):C1 - the second operator spans what the first one gave
                txt = f'{col1}{r2}:({colm}{r1}):{col2}{r1}'
                return txt, self.rect_addrs(rect)
            if colm:
                txt = f'({col1}{r1}:{colm}{r2 - 1 if r2 - 1 >= r1 else r1}):{col2}{r2}'
                return txt, self.rect_addrs(rect)
        if k['multicolon'] and roll > 0.78 and r2 > r1 and c2 > c1:
            col1, col2 = rc_coord(1, c1)[:-1], rc_coord(1, c2)[:-1]
            txt = f'{col1}{r1}:{col1}{r2}:{col2}{r1}'
            if sheet != self.cur_sheet:
                # sheet prefix applies to the first corner only in Excel; keep it local
                return self.range_text(*rect), self.rect_addrs(rect)
            return txt, self.rect_addrs(rect)
        self.ranges_used.append(
            f'{sheet}!{rc_coord(r1, c1)}:{rc_coord(r2, c2)}')
        return self.range_text(*rect), self.rect_addrs(rect)

    # -- expressions ----------------------------------------------------------
    def atom(self):
        rnd = self.rnd
        roll = rnd.random()
        if roll < 0.62:
            a = self.pick_cell()
            return self.ref_text(a), [a], []
        if self.k['names'] and roll < 0.70:
            cnames = [n for n, t in self.names.items() if ':' not in t]
            if cnames:
                n = rnd.choice(cnames)
                return n, [self.names[n].replace('$', '')], []
        if roll < 0.9:
            if self.k.get('lexical') and rnd.random() < 0.25:
                # other spellings of a constant
                return rnd.choice(('1E+2', '.5', '1e-3', '2.', 'SUM({1,2,3})', 'TRUE()', '(3)',
                                   '+2', '1.50')), [], []
            return repr(rnd.choice((1, 2, 3, 0.5, 10, 0.25))), [], []
        if self.k['text']:
            if self.k.get('lexical') and rnd.random() < 0.4:
                # text that looks like what the code generator emits, quotes inside text
                return rnd.choice(('"_C_(""S!A1"")"', '" _R_(""S!B1:B2"") "', '"a""b"', '"it\'s"',
                                   '"x"")"', '"(A1:B2)"', '"S!A1"')), [], []
            return '"' + rnd.choice(('z', 'ab', '')) + '"', [], []
        return '2', [], []

    def agg(self):
        rnd = self.rnd
        ro = self.range_operand()
        if ro is None:
            return self.atom()
        txt, prec = ro
        fn = rnd.choice(AGGS)
        if self.k.get('lookup') and rnd.random() < 0.14 and ' ' not in txt and prec:
            # functions that care about the shape of the range and the types in it; the value
            # looked up is, more often than not, one the table holds
            if rnd.random() < 0.6:
                key, pk, dk = self.ref_text(rnd.choice(prec)), [], []     # (a cell of the table)
            else:
                key, pk, dk = self.atom()
            form = rnd.choice(('VLOOKUP', 'VLOOKUP', 'HLOOKUP', 'MATCH', 'INDEXMATCH', 'INDEX2'))
            exact = rnd.choice(('FALSE', 'FALSE', '0', 'TRUE'))
            if form == 'VLOOKUP':
                return f'VLOOKUP({key},{txt},{rnd.choice((1, 1, 2))},{exact})', prec + pk, dk
            if form == 'HLOOKUP':
                return f'HLOOKUP({key},{txt},{rnd.choice((1, 1, 2))},{exact})', prec + pk, dk
            if form == 'MATCH':
                return f'MATCH({key},{txt},{rnd.choice((0, 0, 1))})', prec + pk, dk
            if form == 'INDEXMATCH':
                return f'INDEX({txt},MATCH({key},{txt},0))', prec + pk, dk
            return f'INDEX({txt},{rnd.choice((1, 1, 2))},{rnd.choice((1, 1, 2))})', prec, []
        if self.k.get('condagg') and rnd.random() < 0.12 and ' ' not in txt and prec and \
                '(' not in txt:
            # conditional aggregates and operators applied to whole ranges: criteria as text, as
            # a cell, glued from an operator and a cell; the range to add up given in full or
            # (Excel's shorthand) by its first cell
            form = rnd.choice(('SUMIF', 'COUNTIF', 'SUMIFC', 'SUMIF3', 'SUMIF1', 'AVERAGEIF',
                               'SPCMP', 'SPCMP', 'SPLEN'))
            crit = rnd.choice(('">1"', '"<3"', '">=0"', '"<>2"', '1', 'TRUE', '"txt"'))
            if form != 'COUNTIF':
                # (a criteria that text can meet makes SUMIF / AVERAGEIF add text up and raise
                # a TypeError inside pycel's library: C15, not claimed)
                crit = rnd.choice(('">1"', '"<3"', '">=0"', '1'))
            if form == 'SUMIF':
                return f'SUMIF({txt},{crit})', prec, []
            if form == 'COUNTIF':
                return f'COUNTIF({txt},{crit})', prec, []
            if form == 'AVERAGEIF':
                return f'IFERROR(AVERAGEIF({txt},{crit}),-1)', prec, []
            key, pk, dk = self.atom()
            if form == 'SUMIFC':
                if rnd.random() < 0.5:
                    return f'COUNTIF({txt},">"&{key})', prec + pk, dk
                # (a blank criteria cell makes pycel's criteria parser raise: C15, not claimed)
                return f'COUNTIF({txt},{key}&"")', prec + pk, dk
            if form in ('SUMIF3', 'SUMIF1'):
                if form == 'SUMIF1':
                    # Excel's shorthand: the range to add up named by its first cell - a cell
                    # beside the criteria range where there is one
                    s0, c0 = split_addr(prec[0])
                    r0, k0 = coord_rc(c0)
                    beside = [a for a in (mk(s0, r0, k0 + 1), mk(s0, r0, k0 + 2), mk(s0, r0 + 1, k0))
                              if a in self.by_addr and a not in prec]
                    first = beside[0] if beside else prec[0]
                    return f'SUMIF({txt},{crit},{self.ref_text(first)})', uniq(prec + [first]), []
                return f'SUMIF({txt},{crit},{txt})', prec, []
            if form == 'SPCMP':
                op = rnd.choice(('=', '>', '<>', '>='))
                return f'SUMPRODUCT(({txt}{op}{key})*1)', prec + pk, dk
            return f'SUMPRODUCT(LEN({txt}&""))', prec, []
        if self.k.get('sumproduct') and rnd.random() < 0.08 and ' ' not in txt:
            return f'SUMPRODUCT({txt})', prec, []
        if self.k.get('stats') and rnd.random() < 0.08 and ' ' not in txt:
            # functions of pycel's statistics module (numpy inside)
            fn = rnd.choice(('SLOPE', 'INTERCEPT', 'FORECAST'))
            if fn == 'FORECAST':
                return f'FORECAST({rnd.choice((2, 0.5, 10))},{txt},{txt})', prec, []
            return f'{fn}({txt},{txt})', prec, []
        if rnd.random() < 0.25:
            t2, p2, d2 = self.atom()
            return f'{fn}({txt},{t2})', prec + p2, d2
        if rnd.random() < 0.15:
            ro2 = self.range_operand()
            if ro2:
                if self.k.get('union') and rnd.random() < 0.5 and not (set(' (') & set(txt + ro2[0])):
                    # (an intersection or a parenthesised range operator inside a union is translated
                    # wrongly by pycel - operator precedence: C02, not claimed)
                    # the union operator: references in parentheses, separated by commas
                    t3, p3, d3 = self.atom() if rnd.random() < 0.4 else ('', [], [])
                    if p3:
                        return f'{fn}(({txt},{ro2[0]},{t3}))', prec + ro2[1] + p3, d3
                    return f'{fn}(({txt},{ro2[0]}))', prec + ro2[1], []
                return f'{fn}({txt},{ro2[0]})', prec + ro2[1], []
        if self.k['index'] and rnd.random() < 0.08 and ' ' not in txt and prec and '!' not in txt[1:2]:
            # a whole column / row of the range picked by INDEX(range, 0, j): all of it is read
            cols = sorted({coord_rc(split_addr(a)[1])[1] for a in prec})
            rows = sorted({coord_rc(split_addr(a)[1])[0] for a in prec})
            if len(cols) * len(rows) == len(prec) and not txt[0].isdigit():
                if rnd.random() < 0.5:
                    return f'{fn}(INDEX({txt},0,{rnd.randint(1, len(cols))}))', prec, []
                return f'{fn}(INDEX({txt},{rnd.randint(1, len(rows))},0))', prec, []
        return f'{fn}({txt})', prec, []

    def expr(self, depth=0):
        rnd, k = self.rnd, self.k
        roll = rnd.random()
        if depth >= 2:
            return self.atom()
        if k.get('boost') and depth == 0 and rnd.random() < k['boost']:
            # (swarm) some checks want much more of the context-sensitive forms
            if rnd.random() < 0.5 and k['ranges']:
                mark = len(self.ranges_used), len(self.declared_extra)
                ro = self.range_operand()
                if ro and ' ' not in ro[0]:
                    fn = rnd.choice(('IFERROR', 'IFERROR', 'IFNA'))
                    return f'{fn}({ro[0]},{rnd.choice((-1, 5, 0))})', [], ro[1]
                del self.ranges_used[mark[0]:], self.declared_extra[mark[1]:]
            return rnd.choice(('ROW()*10', 'COLUMN()*10', 'ROW()*10', 'ROW()+COLUMN()')), [], ['@self']
        if roll < 0.28:
            a, pa, da = self.expr(depth + 1) if rnd.random() < 0.3 else self.atom()
            b, pb, db = self.atom()
            op = rnd.choice('+-*/' if rnd.random() < 0.3 else '+-*')
            if depth or rnd.random() < 0.3:
                return f'({a}{op}{b})', pa + pb, da + db
            return f'{a}{op}{b}', pa + pb, da + db
        if roll < 0.52 and k['ranges']:
            t, p, d = self.agg()
            if rnd.random() < 0.3:
                t2, p2, d2 = self.atom()
                return f'{t}{rnd.choice("+-*")}{t2}', p + p2, d + d2
            return t, p, d
        if roll < 0.64:
            a, pa, da = self.atom()
            b, pb, db = self.atom()
            c, pc, dc = self.expr(depth + 1)
            e, pe, de = self.expr(depth + 1)
            cmp_ = rnd.choice(('>', '<', '=', '<>', '>=', '<='))
            return (f'IF({a}{cmp_}{b},{c},{e})', pa + pb + pc + pe, da + db + dc + de)
        if roll < 0.72 and k['text']:
            a, pa, da = self.atom()
            b, pb, db = self.atom()
            return f'{a}&{b}', pa + pb, da + db
        if roll < 0.78 and k['index'] and k['ranges']:
            rect = self.pick_rect()
            if rect:
                sheet, r1, c1, r2, c2 = rect
                i = rnd.randint(1, r2 - r1 + 1)
                j = rnd.randint(1, c2 - c1 + 1)
                return (f'INDEX({self.range_text(*rect)},{i},{j})',
                        self.rect_addrs(rect), [])
        if roll < 0.83 and k['percent']:
            a, pa, da = self.atom()
            return (f'{a}%' if rnd.random() < 0.5 else f'-{a}'), pa, da
        if roll < 0.88 and k['rowcol']:
            a = self.pick_cell()
            b, pb, db = self.atom()
            fn = rnd.choice(('ROW', 'COLUMN'))
            return f'{fn}({self.ref_text(a)})+{b}', pb, db + [a]
        if roll < 0.93:
            a, pa, da = self.atom()
            b, pb, db = self.atom()
            return f'{a}{rnd.choice((">", "=", "<>", "<="))}{b}', pa + pb, da + db
        if 0.96 <= roll < 0.975 and k.get('iferr') and k['ranges']:
            # functions that behave differently inside an array formula: outside one a
            # range argument is the "error" case
            mark = len(self.ranges_used), len(self.declared_extra)
            ro = self.range_operand()
            if ro and ' ' not in ro[0]:
                fn = rnd.choice(('IFERROR', 'IFERROR', 'IFNA'))
                return f'{fn}({ro[0]},{rnd.choice((-1, 5, 0))})', [], ro[1]
            del self.ranges_used[mark[0]:], self.declared_extra[mark[1]:]
        if 0.975 <= roll < 0.985 and k.get('rowcol_noarg') and depth == 0:
            # the same text in every cell, the value depends on where it stands
            return rnd.choice(('ROW()*10', 'COLUMN()*10', 'ROW()*10', 'ROW()+COLUMN()')), [], ['@self']
        if roll < 0.99 and depth == 0 and k.get('computed_refs'):
            # a computed reference as the whole formula (value of another cell)
            t = self.pick_cell()
            ts, tc = split_addr(t)
            if ts == self.cur_sheet:
                tr, tcol = coord_rc(tc)
                same = [a for a in self.defined() if split_addr(a)[0] == ts]
                b = rnd.choice(same)
                br, bcol = coord_rc(split_addr(b)[1])
                if rnd.random() < 0.7:
                    return (f'OFFSET({self.ref_text(b)},{tr - br},{tcol - bcol})', [t], [b])
                return f'INDIRECT("{quote_sheet(ts)}!{tc}")', [t], []
        if roll < 0.96 and k['ranges'] and depth == 0 and k.get('whole_range', True):
            # a range where a scalar is expected: pycel takes the top-left cell
            rect = self.pick_rect()
            blanks = [c for c in self.cells if 'v' in c and c['v'] is None and
                      split_addr(c['a'])[0] in self.filled]
            if blanks and rnd.random() < 0.6:
                # ... preferably a blank one: the formula then evaluates to "empty"
                bs, bc = split_addr(rnd.choice(blanks)['a'])
                br, bcol = coord_rc(bc)
                cand = (bs, br, bcol, br + 1, bcol)
                if all(a in self.by_addr for a in self.rect_addrs(cand)):
                    rect = cand
                else:
                    cand = (bs, br, bcol, br, bcol + 1)
                    if all(a in self.by_addr for a in self.rect_addrs(cand)):
                        rect = cand
            if rect and rect not in self.cse_blocks:
                return self.range_text(*rect), [self.rect_addrs(rect)[0]], self.rect_addrs(rect)[1:]
        return self.atom()

    def formula(self):
        for _ in range(8):
            self.ranges_used = []
            self.declared_extra = []
            t, p, d = self.expr()
            if p or d:
                break
        d = [x for x in d if x != '@self']
        if self.k.get('lexical') and self.rnd.random() < 0.2:
            t = spaced(t, self.rnd)
        return '=' + t, uniq(p), uniq(d + self.declared_extra)

    # -- whole workbook ---------------------------------------------------------
    def generate(self):
        rnd, k = self.rnd, self.k
        n_sheets = rnd.randint(*k['n_sheets'])
        names = list(SHEET_NAMES)
        main = rnd.choice(('S', 'S', 'Sh2', 'My Sheet', 'Calc 2', 'Copy (2)'))
        if k.get('computed_refs'):
            # pycel emits broken code for a reference argument on a sheet whose name holds
            # parentheses (offset(_REF_("Copy (2)!B4")!B4"), ...): translation, not claimed
            names.remove('Copy (2)')
            if main == 'Copy (2)':
                main = 'S'
        names.remove(main)
        sheets = [main]
        self.data_sheet = None
        if k['unbounded'] and n_sheets >= 2:
            self.data_sheet = rnd.choice(('Data 1', 'T_1'))
            names.remove(self.data_sheet)
            sheets.append(self.data_sheet)
        while len(sheets) < n_sheets:
            s = rnd.choice(names)
            names.remove(s)
            sheets.append(s)
        n_total = rnd.randint(*k['n_cells'])

        # constants-only data sheet first (so everything may refer to it)
        if self.data_sheet:
            ds = self.data_sheet
            # (also one row or one column: the used part of A:A / 1:1 is then a single cell)
            w = rnd.choice((1, 2, 2, 3, 3))
            rows = rnd.choice((1, 2, 2, 3, 3))
            self.width[ds] = w
            self.filled[ds] = 0
            for i in range(w * rows):
                a = self.grid_addr(ds, i)
                last = i == w * rows - 1
                if i and not last and k.get('ds_formulas', True) and rnd.random() < 0.2:
                    # a formula inside the whole-row / whole-column ranges: it reads cells
                    # further up or left on the same sheet only
                    prev = [self.grid_addr(ds, j) for j in range(i)]
                    e1 = rnd.choice(prev)
                    if rnd.random() < 0.5:
                        self.add({'a': a, 'f': f'={split_addr(e1)[1]}*2', 'p': [e1], 'd': []})
                    else:
                        e2 = rnd.choice(prev)
                        self.add({'a': a, 'f': f'={split_addr(e1)[1]}+{split_addr(e2)[1]}',
                                  'p': uniq([e1, e2]), 'd': []})
                    self.filled[ds] = i + 1
                    continue
                v = draw_const(rnd, ('num', 'float') if last else
                               ('num', 'num', 'float', 'text', 'bool', 'blank', 'numtext'))
                self.add({'a': a, 'v': v})
                self.filled[ds] = i + 1
                if last:
                    self.pinned.append(a)

        formula_sheets = [s for s in sheets if s != self.data_sheet]
        budget = {s: 0 for s in formula_sheets}
        for _ in range(n_total):
            budget[rnd.choice(formula_sheets) if rnd.random() < 0.3 else formula_sheets[0]] += 1
        n_cse = 0
        for sheet in formula_sheets:
            self.cur_sheet = sheet
            self.width[sheet] = rnd.randint(*k['width'])
            self.filled[sheet] = 0
            for i in range(budget[sheet]):
                a = self.grid_addr(sheet, i)
                lead = len(self.cells) < k['lead_consts'] or (i == 0 and not self.cells)
                if lead or rnd.random() < k['p_const']:
                    kinds = ('num', 'float') if lead else k['const_kinds']
                    self.add({'a': a, 'v': draw_const(rnd, kinds)})
                else:
                    prev = self.cells[-1] if self.cells else None
                    if (prev and prev.get('f') in ('=ROW()*10', '=COLUMN()*10', '=ROW()+COLUMN()')
                            and wbgen_same_sheet(prev['a'], a) and rnd.random() < 0.6):
                        # the same text in the neighbouring cell (a numbering column)
                        f, p, d = prev['f'], [], []
                    else:
                        f, p, d = self.formula()
                    cell = {'a': a, 'f': f, 'p': p, 'd': d}
                    if self.ranges_used:
                        cell['r'] = uniq(self.ranges_used)
                    self.add(cell)
                self.filled[sheet] = i + 1
                # defined names now and then
                if k['names'] and rnd.random() < 0.12 and len(self.names) < 3:
                    self.add_name()
                # a CSE block now and then, to the right of the grid
                if (k['cse'] and k['ranges'] and n_cse < 2 and i >= 3 and
                        rnd.random() < k.get('p_cse', 0.12)):
                    if self.add_cse(sheet, n_cse):
                        n_cse += 1
        if k.get('reserve_name') and k['names']:
            # a name for an input area reserved well beyond the used part of its sheet; no
            # formula reads it, it merely sits in the workbook's table of names
            sh = rnd.choice(sheets)
            col = rc_coord(1, self.width.get(sh, 3) + rnd.choice((0, 1, 4)))[:-1]
            self.names['reserve_1'] = f'{sh}!${col}$1:${col}${rnd.choice((30, 40, 200))}'
        spec = {
            'sheets': sheets,
            'active': rnd.choice(formula_sheets),
            'data_sheet': self.data_sheet,
            'cells': self.cells,
            'names': self.names,
            'iter': None,
            'pinned': self.pinned,
        }
        return spec

    def add_name(self):
        rnd = self.rnd
        n = f'nm_{len(self.names) + 1}'
        if rnd.random() < 0.5 or not any(v >= 2 for v in self.filled.values()):
            a = self.pick_cell()
            sheet, coord = split_addr(a)
            r, c = coord_rc(coord)
            self.names[n] = f'{sheet}!${rc_coord(1, c)[:-1]}${r}'
        else:
            rect = self.pick_rect()
            if rect is None:
                return
            sheet, r1, c1, r2, c2 = rect
            self.names[n] = (f'{sheet}!${rc_coord(1, c1)[:-1]}${r1}:'
                             f'${rc_coord(1, c2)[:-1]}${r2}')

    def add_cse(self, sheet, n):
        """a CSE block placed right of the grid; operands from the grid"""
        rnd = self.rnd
        rect = self.pick_rect()
        if rect is None or rect[0] != sheet:
            return False
        _, r1, c1, r2, c2 = rect
        h, w = r2 - r1 + 1, c2 - c1 + 1
        if h > 3 or w > 2:
            r2 = min(r2, r1 + 2)
            c2 = min(c2, c1 + 1)
            h, w = r2 - r1 + 1, c2 - c1 + 1
        rect = (sheet, r1, c1, r2, c2)
        src = self.rect_addrs(rect)
        src_txt = self.range_text(*rect)
        # the first block touches the grid, so that ranges can span constants, formulas and
        # members of the block; the second one stands apart
        col0 = self.width[sheet] + 1 + 3 * n
        row0 = 1 + 4 * n
        kind = rnd.choice(('lift', 'lift2', 'scalar', 'trim', 'fill', 'reduce', 'mixed', 'mixed',
                           'copy', 'inter', 'inter', 'cmp', 'cat'))
        th, tw = h, w
        prec = list(src)
        decl = []
        inter = None
        if kind == 'inter' and self.k['intersection']:
            # an array formula over an intersection: the written operands are references only
            save = self.ranges_used, self.declared_extra, self.cur_sheet
            self.cur_sheet = sheet
            for _ in range(12):
                self.ranges_used, self.declared_extra = [], []
                ro = self.range_operand()
                if ro and ' ' in ro[0] and ':' in ro[0].split(' ')[0] and '!' not in ro[0]:
                    inter = (ro[0], list(ro[1]), list(self.declared_extra))
                    break
            self.ranges_used, self.declared_extra, self.cur_sheet = save
        if kind == 'inter' and inter is None:
            kind = 'lift'
        if kind == 'inter':
            txt, cells_, decl = inter
            rows_ = sorted({coord_rc(split_addr(a)[1])[0] for a in cells_})
            cols_ = sorted({coord_rc(split_addr(a)[1])[1] for a in cells_})
            # (blocks are laid out three columns apart: at most 3 x 2, a larger result is trimmed)
            th, tw = min(3, len(rows_)), min(2, len(cols_))
            prec = list(cells_)
            if th * tw == 1:
                # one cell times a column: the scalar is spread over the array
                f = f'=({txt})*{src_txt}'
                prec = list(cells_) + list(src)
                th, tw = h, w
            else:
                f = f'=({txt})*{rnd.choice((2, 0.5, -1))}'
        elif kind == 'cmp':
            # a comparison applied to a whole range: TRUE / FALSE per element
            a = self.pick_cell()
            if rnd.random() < 0.5:
                f = f'={src_txt}{rnd.choice((">", "=", "<>"))}{rnd.choice((0, 1, 2))}'
            else:
                f = f'={src_txt}{rnd.choice(("=", ">", "<="))}{self.ref_text(a)}'
                prec = list(src) + [a]
        elif kind == 'cat':
            tail = rnd.choice(('"x"', '""', '"-"'))
            f = f'={src_txt}&{tail}'
        elif kind == 'copy':
            f = f'={src_txt}'          # blanks of the source are zeros of the array
        elif kind == 'lift':
            f = f'={src_txt}*{rnd.choice((2, 0.5, -1))}'
        elif kind == 'lift2':
            f = f'={src_txt}+{src_txt}*{rnd.choice((1, 3))}'
        elif kind == 'mixed':
            # an array operand and a single (preferably formula) cell: that cell is first
            # evaluated from inside the array formula when the block is evaluated first
            fcells = [c['a'] for c in self.cells if 'f' in c and 'cse' not in c and
                      split_addr(c['a'])[0] == sheet]
            a = rnd.choice(fcells) if fcells and rnd.random() < 0.8 else self.pick_cell()
            ctx = [x for x in fcells if 'IFERROR' in self.by_addr[x]['f'] or 'IFNA' in self.by_addr[x]['f']]
            if ctx and rnd.random() < 0.7:
                a = rnd.choice(ctx)     # a cell whose value depends on the array context
            f = f'={src_txt}*10+{self.ref_text(a)}'
            prec = list(src) + [a]
        elif kind == 'scalar':
            a = self.pick_cell()
            f = f'={self.ref_text(a)}*2'
            prec = [a]
            th, tw = rnd.randint(2, 3), rnd.randint(1, 2)
        elif kind == 'trim':
            f = f'={src_txt}+1'
            th, tw = max(1, h - 1), w
            if th * tw < 2:
                th, tw = h, w
        elif kind == 'fill':
            f = f'={src_txt}-1'
            th, tw = h + 1, w
        else:
            f = f'=SUM({src_txt})*{src_txt}' if rnd.random() < 0.5 else f'=SUM({src_txt}*2)'
        if th * tw < 2:
            th = 2
        block = (sheet, row0, col0, row0 + th - 1, col0 + tw - 1)
        ref = f'{sheet}!{rc_coord(row0, col0)}:{rc_coord(row0 + th - 1, col0 + tw - 1)}'
        for a in self.rect_addrs(block):
            self.add({'a': a, 'cse': ref, 'f': f, 'p': list(prec), 'd': list(decl)})
        self.cse_blocks.append(block)
        if self.k.get('cse_twin', True) and rnd.random() < 0.25:
            # the same formula entered a second time as an array of its own, below the first
            # one with an ordinary cell in between: two arrays, not one
            for c in range(col0, col0 + tw):
                self.add({'a': mk(sheet, row0 + th, c), 'v': draw_const(rnd, ('num', 'float'))})
            twin = (sheet, row0 + th + 1, col0, row0 + 2 * th, col0 + tw - 1)
            ref2 = f'{sheet}!{rc_coord(twin[1], col0)}:{rc_coord(twin[3], twin[4])}'
            for a in self.rect_addrs(twin):
                self.add({'a': a, 'cse': ref2, 'f': f, 'p': list(prec), 'd': list(decl)})
            self.cse_blocks.append(twin)
        if n == 0 and rnd.random() < 0.5:
            # constants right of the block: ranges can start in the block and end outside it
            for r in range(row0, row0 + th):
                self.add({'a': mk(sheet, r, col0 + tw), 'v': draw_const(rnd, ('num', 'float', 'text'))})
        return True


def spaced(text, rnd):
    """the same formula typed with blanks (and a line break) where Excel allows them: after
    commas, around + and *, after an opening parenthesis - never inside text literals, never
    next to what could be an intersection"""
    out, in_str, mode = [], False, rnd.choice((1, 2, 3))
    for i, ch in enumerate(text):
        if ch == '"':
            in_str = not in_str
        if in_str:
            out.append(ch)
            continue
        prev = text[i - 1] if i else ''
        if ch == ',':
            out.append(', ' if mode != 3 else ' ,')
        elif ch in '+*' and prev not in 'Ee(' and i and mode != 3:
            out.append(f' {ch} ')
        elif ch == '(' and mode == 2 and prev.isalpha() and text[i + 1:i + 2] != ')':
            # (ROW() / COLUMN() keep their spelling: checks recognise them by it)
            out.append('(\n')
        else:
            out.append(ch)
    return ''.join(out)


def wbgen_same_sheet(a, b):
    return split_addr(a)[0] == split_addr(b)[0]


def uniq(seq):
    out = []
    for x in seq:
        if x not in out:
            out.append(x)
    return out


def generate(rnd, knobs=None):
    spec = SpecGen(rnd, knobs).generate()
    if knobs and knobs.get('gadget') and rnd.random() < knobs['gadget']:
        add_context_gadget(rnd, spec)
    return spec


def add_context_gadget(rnd, spec):
    """an array formula that reads a plain cell whose function asks 'am I inside an array
    formula?', plus a numbering column: structures whose value depends on the context and the
    place they are evaluated in (rows 25.. of the first formula sheet)"""
    sheet = next(s for s in spec['sheets'] if s != spec.get('data_sheet'))
    r0 = 25
    vals = [rnd.choice((1, 2, 3, 5, 0.5, -4)) for _ in range(3)]
    src = [mk(sheet, r0 + i, 1) for i in range(3)]
    for a, v in zip(src, vals):
        spec['cells'].append({'a': a, 'v': v})
    d = mk(sheet, r0, 4)
    fn = rnd.choice(('IFERROR', 'IFNA'))
    spec['cells'].append({'a': d, 'f': f'={fn}(A{r0}:A{r0 + 2},{rnd.choice((-1, 7))})',
                          'p': [], 'd': list(src)})
    ref = f'{sheet}!B{r0}:B{r0 + 2}'
    for i in range(3):
        spec['cells'].append({'a': mk(sheet, r0 + i, 2), 'cse': ref,
                              'f': f'=A{r0}:A{r0 + 2}+D{r0}', 'p': list(src) + [d], 'd': []})
    spec['cells'].append({'a': mk(sheet, r0, 5), 'f': f'=SUM(B{r0}:B{r0 + 2})+D{r0}',
                          'p': [mk(sheet, r0 + i, 2) for i in range(3)] + [d], 'd': []})
    for i in range(2):
        spec['cells'].append({'a': mk(sheet, r0 + 1 + i, 5), 'f': '=ROW()*10', 'p': [], 'd': []})
    spec.setdefault('gadget', []).extend([d, mk(sheet, r0 + 1, 2), mk(sheet, r0, 5),
                                          mk(sheet, r0 + 1, 5), mk(sheet, r0 + 2, 5)])


def add_numpy_gadget(rnd, spec):
    """formula cells whose results are numpy scalars (pycel's statistics functions), members
    of a range that another formula reads (rows 40.. of the first formula sheet)"""
    sheet = next(s_ for s_ in spec['sheets'] if s_ != spec.get('data_sheet'))
    r0 = 40
    xs = [mk(sheet, r0 + i, 1) for i in range(3)]
    for a, v in zip(xs, rnd.sample((1, 2, 4, 7, 11, 0.5), 3)):
        spec['cells'].append({'a': a, 'v': v})
    rng = f'A{r0}:A{r0 + 2}'
    full = f'{sheet}!{rng}'
    m1, m2, tot = mk(sheet, r0, 2), mk(sheet, r0 + 1, 2), mk(sheet, r0, 3)
    spec['cells'].append({'a': m1, 'f': f'=SLOPE({rng},{rng})*A{r0}', 'p': list(xs), 'd': [],
                          'r': [full]})
    spec['cells'].append({'a': m2, 'f': f'=FORECAST(A{r0 + 1},{rng},{rng})', 'p': list(xs),
                          'd': [], 'r': [full]})
    spec['cells'].append({'a': tot, 'f': f'=SUM(B{r0}:B{r0 + 1})+1', 'p': [m1, m2], 'd': [],
                          'r': [f'{sheet}!B{r0}:B{r0 + 1}']})
    spec.setdefault('gadget', []).extend([m1, m2, tot])


def add_poison_gadget(rnd, spec, bad_forms=None):
    """P names a cell on a sheet the workbook does not have (next to an ordinary reference), Q
    reads P and another formula: building the graph for Q fails half way.  Returns Q.
    bad_forms: other things that cannot be compiled ('{c}' = a cell of the sheet)"""
    sheet = next(s_ for s_ in spec['sheets'] if s_ != spec.get('data_sheet'))
    dag = Dag(spec)
    local = [a for a in dag.order if split_addr(a)[0] == sheet and 'cse' not in dag.cell[a]]
    if not local:
        return None
    forms = [a for a in local if is_formula_cell(dag.cell[a])] or local
    c1, f1 = rnd.choice(local), rnd.choice(forms)
    p_, q_ = mk(sheet, 36, 1), mk(sheet, 36, 2)
    bad = rnd.choice(bad_forms or ('ROW(Missing!A5)', 'ROW(Missing!A5)', 'SUM((A1):(C3))'))
    bad = bad.replace('{c}', split_addr(c1)[1])
    # (a sheet that does not exist / a formula pycel's parser gives up on)
    spec['cells'].append({'a': p_, 'f': f'={bad}+{split_addr(c1)[1]}', 'p': [c1],
                          'd': [], 'poison': True})
    spec['cells'].append({'a': q_, 'f': f'=A36+{split_addr(f1)[1]}', 'p': [p_, f1], 'd': [],
                          'poison': True})
    return q_


def add_big_range_gadget(rnd, spec):
    """a range of more than a thousand cells of which a handful are in use (a sum over a column
    that was reserved "to be safe"): one member is blank in the workbook and is also read on its
    own by another formula, so that it gets into the model some other way than through the
    range.  Sheet Big, formulas in row 50 of the first formula sheet."""
    sheet = next(s_ for s_ in spec['sheets'] if s_ != spec.get('data_sheet'))
    big = 'Big'
    if big in spec['sheets']:
        return
    spec['sheets'].append(big)
    n = rnd.choice((1040, 1100, 1500))
    k, m = sorted(rnd.sample(range(2, n), 2))
    top, blank, mid, last = mk(big, 1, 1), mk(big, k, 1), mk(big, m, 1), mk(big, n, 1)
    spec['cells'].append({'a': top, 'v': rnd.choice((1, 2, 5, 0.5))})
    spec['cells'].append({'a': blank, 'v': None})
    spec['cells'].append({'a': mid, 'v': rnd.choice((3, 10, -4, 'txt'))})
    spec['cells'].append({'a': last, 'v': rnd.choice((7, 1.5))})
    spec.setdefault('pinned', []).append(last)
    members = [top, blank, mid, last]
    tot, solo, both = mk(sheet, 50, 1), mk(sheet, 50, 2), mk(sheet, 50, 3)
    fn = rnd.choice(('SUM', 'SUM', 'COUNT', 'MAX'))
    spec['cells'].append({'a': tot, 'f': f'={fn}({big}!A1:A{n})+{big}!A1', 'p': list(members),
                          'd': []})
    spec['cells'].append({'a': solo, 'f': f'={big}!A{k}+1', 'p': [blank], 'd': []})
    spec['cells'].append({'a': both, 'f': '=A50+B50', 'p': [tot, solo], 'd': []})
    spec.setdefault('gadget', []).extend([tot, solo, both, blank])
    spec['big_range'] = f'{big}!A1:A{n}'


def add_lookup_gadget(rnd, spec):
    """a small price list that nothing writes to, looked up through whole-column and bounded
    references with a key that is an ordinary input; next to it a second list whose keys are
    equal to the first one's in Python but not in Excel (TRUE next to 1).  Sheet List, key and
    formulas in row 55 of the first formula sheet."""
    sheet = next(s_ for s_ in spec['sheets'] if s_ != spec.get('data_sheet'))
    lst = 'List'
    if lst in spec['sheets']:
        return
    spec['sheets'].append(lst)
    n = rnd.choice((3, 4))
    keys = rnd.sample((1, 2, 3, 5, 8, 13), n)
    if rnd.random() < 0.6:
        keys[0] = 1
    twin = [True if k_ == 1 else k_ for k_ in keys]
    cells = spec['cells']
    pinned = spec.setdefault('pinned', [])
    ka, va, kd, vd = [], [], [], []
    for i in range(n):
        for col, v, acc in ((1, keys[i], ka), (2, round(rnd.uniform(1, 9), 1), va),
                            (4, twin[i], kd), (5, round(rnd.uniform(10, 90), 1), vd)):
            a = mk(lst, i + 1, col)
            cells.append({'a': a, 'v': v})
            pinned.append(a)
            acc.append(a)
    # a third list with other keys (whatever remembers "the table searched last" forgets the
    # look-alike ones in between)
    kg = []
    for i, v in enumerate(rnd.sample((4, 6, 7, 9, 'k', 21), n)):
        a = mk(lst, i + 1, 7)
        cells.append({'a': a, 'v': v})
        pinned.append(a)
        kg.append(a)
    q = quote_sheet(lst)
    key, key2 = mk(sheet, 55, 1), mk(sheet, 55, 2)
    pool = list(keys) + [True, 999]
    cells.append({'a': key, 'v': rnd.choice(keys), 'w': pool})
    cells.append({'a': key2, 'v': rnd.choice((1, True)), 'w': [1, True, keys[-1]]})
    forms = [
        (f'=VLOOKUP(A55,{q}!A:B,2,FALSE)', [key] + ka + va),
        (f'=INDEX({q}!B:B,MATCH(A55,{q}!A:A,0))*10', [key] + ka + va),
        (f'=SUM({q}!B:B)+A55', [key] + va),
        (f'=VLOOKUP(A55,{q}!A1:B{n},2,FALSE)', [key] + ka + va),
        (f'=MATCH(B55,{q}!A1:A{n},0)', [key2] + ka),
        (f'=MATCH(B55,{q}!D1:D{n},0)', [key2] + kd),
        (f'=VLOOKUP(B55,{q}!D1:E{n},2,FALSE)', [key2] + kd + vd),
        (f'=VLOOKUP(B55,{q}!A1:B{n},2,FALSE)', [key2] + ka + va),
        (f'=MATCH(A55,{q}!G1:G{n},0)', [key] + kg),
        (f'=IFERROR(MATCH(B55,{q}!G:G,0),-1)+B55', [key2] + kg),
    ]
    # one pair of look-alike lookups always comes first (the same key in both lists)
    pair = forms[4:6] if rnd.random() < 0.5 else forms[6:8]
    rest = [x for x in forms[:8] if x not in pair]
    rnd.shuffle(rest)
    forms = pair + [forms[8 + rnd.randrange(2)]] + rest
    out = []
    for i, (f, p) in enumerate(forms[:rnd.choice((4, 6, 8))]):
        a = mk(sheet, 55, 3 + i)
        cells.append({'a': a, 'f': f, 'p': p, 'd': []})
        out.append(a)
    spec.setdefault('gadget', []).extend(out)
    spec['lookup_gadget'] = out


def add_branch_gadget(rnd, spec):
    """a formula that takes one of several branches depending on an input; each branch is a
    formula cell nobody else reads (row 60 of the first formula sheet): whatever calculates
    only the branch that is taken leaves the others uncalculated"""
    sheet = next(s_ for s_ in spec['sheets'] if s_ != spec.get('data_sheet'))
    cells = spec['cells']
    sw, base = mk(sheet, 60, 1), mk(sheet, 60, 2)
    cells.append({'a': sw, 'v': rnd.choice((1, -1, 2, 0)), 'w': [1, -1, 0, 2, 3, -3]})
    cells.append({'a': base, 'v': rnd.choice((3, 0.5, 7))})
    spec.setdefault('pinned', []).append(base)
    b1, b2, b3 = mk(sheet, 60, 3), mk(sheet, 60, 4), mk(sheet, 60, 5)
    cells.append({'a': b1, 'f': '=B60*2', 'p': [base], 'd': []})
    cells.append({'a': b2, 'f': '=B60+10', 'p': [base], 'd': []})
    cells.append({'a': b3, 'f': '=C60+D60', 'p': [b1, b2], 'd': []} if rnd.random() < 0.5 else
                 {'a': b3, 'f': '=B60-100', 'p': [base], 'd': []})
    out = []
    forms = [('=IF(A60>0,C60,D60)', [sw, b1, b2]),
             ('=IF(A60>0,1,E60)+A60', [sw, b3]),
             ('=CHOOSE(ABS(A60)+1,C60,D60,E60,C60)', [sw, b1, b2, b3]),
             ('=IFERROR(1/A60,E60)', [sw, b3]),
             ('=IF(A60=0,D60,IF(A60>1,E60,C60))', [sw, b1, b2, b3])]
    rnd.shuffle(forms)
    for i, (f, p) in enumerate(forms[:rnd.choice((1, 2, 3))]):
        a = mk(sheet, 60, 6 + i)
        cells.append({'a': a, 'f': f, 'p': p, 'd': []})
        out.append(a)
    spec.setdefault('gadget', []).extend(out)
    spec['branch_gadget'] = {'outputs': out, 'switch': sw}


def add_alias_gadget(rnd, spec):
    """a formula that reads a range on one sheet and single cells with coordinates inside that
    rectangle on other sheets (its own among them); sheets Al1 / Al2, formulas in row 65"""
    sheet = next(s_ for s_ in spec['sheets'] if s_ != spec.get('data_sheet'))
    if 'Al1' in spec['sheets']:
        return
    spec['sheets'] += ['Al1', 'Al2']
    cells = spec['cells']
    rng = []
    for r in (1, 2, 3):
        for c in (1, 2):
            a = mk('Al1', r, c)
            cells.append({'a': a, 'v': rnd.choice((1, 2, 3, 5, 0.5))})
            rng.append(a)
    k1, k2 = mk('Al2', 1, 1), mk('Al2', 2, 2)
    cells.append({'a': k1, 'v': rnd.choice((2, 4, 10))})
    cells.append({'a': k2, 'f': '=A1*3', 'p': [k1], 'd': []})          # Al2!B2 inside A1:B3
    own = mk(sheet, 65, 1)
    cells.append({'a': own, 'v': rnd.choice((1, 7))})
    f1, f2 = mk(sheet, 65, 2), mk(sheet, 65, 3)
    cells.append({'a': f1, 'f': '=SUM(Al1!A1:B3)*Al2!B2', 'p': rng + [k2], 'd': []})
    cells.append({'a': f2, 'f': '=SUM(Al1!A1:B3,Al2!A1)+B65', 'p': rng + [k1, f1], 'd': []})
    spec.setdefault('gadget', []).extend([f1, f2, k2])


def add_nested_array_gadget(rnd, spec):
    """an array formula over an intersection whose cells are the cells of another array formula
    over an intersection (rows 75-76 of the first formula sheet): values reach the outer array
    through range nodes only, the member cells in between are never calculated on their own"""
    sheet = next(s_ for s_ in spec['sheets'] if s_ != spec.get('data_sheet'))
    cells = spec['cells']

    def at(r, c):
        return mk(sheet, r, c)
    for r in (75, 76):
        for c in (1, 2, 3, 5):
            cells.append({'a': at(r, c), 'v': rnd.choice((1, 2, -5.6, 1.5, 0.1, 3))})
    inner = [at(75, 2), at(76, 2)]
    decl1 = [at(r, c) for r in (75, 76) for c in (1, 3)]
    k = rnd.choice((2, 0.5, -1))
    for r in (75, 76):
        cells.append({'a': at(r, 4), 'cse': f'{sheet}!D75:D76', 'f': f'=(A75:B76 B75:C76)*{k}',
                      'p': list(inner), 'd': list(decl1)})
    mid = [at(75, 4), at(76, 4)]
    decl2 = [at(r, c) for r in (75, 76) for c in (3, 5)]
    for r in (75, 76):
        cells.append({'a': at(r, 7), 'cse': f'{sheet}!G75:G76', 'f': '=(C75:D76 D75:E76)*-1',
                      'p': list(mid), 'd': list(decl2)})
    out = [at(75, 8), at(76, 8)]
    cells.append({'a': out[0], 'f': '=G75+0', 'p': [at(75, 7)], 'd': []})
    cells.append({'a': out[1], 'f': '=SUM(G75:G76)', 'p': [at(75, 7), at(76, 7)], 'd': []})
    spec.setdefault('gadget', []).extend(out + [at(76, 7)])


def add_compare_gadget(rnd, spec):
    """operators applied to a whole range whose cells hold numbers and logicals that are equal
    in Python and not in Excel (1 / TRUE, 0 / FALSE); rows 70-72 of the first formula sheet"""
    sheet = next(s_ for s_ in spec['sheets'] if s_ != spec.get('data_sheet'))
    cells = spec['cells']
    pool = [1, True, 0, False, 2]
    col = [mk(sheet, 70 + i, 1) for i in range(3)]
    for a, v in zip(col, rnd.sample((1, 2, 0, True, 3), 3)):
        cells.append({'a': a, 'v': v, 'w': pool})
    key = mk(sheet, 70, 2)
    cells.append({'a': key, 'v': rnd.choice((1, True, 0)), 'w': [1, True, 0, False]})
    out = []
    forms = [('=SUMPRODUCT((A70:A72=B70)*1)', col + [key]), ('=SUMPRODUCT(LEN(A70:A72&""))', col),
             ('=COUNTIF(A70:A72,B70&"")', col + [key]), ('=SUMPRODUCT((A70:A72>0)*1)', col),
             ('=SUMPRODUCT((A70:A72<>B70)*A70:A72)', col + [key])]
    rnd.shuffle(forms)
    for i, (f, p) in enumerate(forms[:3]):
        a = mk(sheet, 70, 3 + i)
        cells.append({'a': a, 'f': f, 'p': list(p), 'd': []})
        out.append(a)
    ref = f'{sheet}!G70:G72'
    f = rnd.choice(('=A70:A72=B70', '=A70:A72&""', '=A70:A72>=B70'))
    for i in range(3):
        cells.append({'a': mk(sheet, 70 + i, 7), 'cse': ref, 'f': f,
                      'p': col + ([key] if 'B70' in f else []), 'd': []})
    cells.append({'a': mk(sheet, 70, 8), 'f': '=SUMPRODUCT(G70:G72*1)' if '&' not in f else
                  '=G70&G71&G72', 'p': [mk(sheet, 70 + i, 7) for i in range(3)], 'd': []})
    out += [mk(sheet, 71, 7), mk(sheet, 70, 8)]
    spec.setdefault('gadget', []).extend(out)


def add_long_chain_gadget(rnd, spec):
    """a running balance: a column of several hundred cells, each calculated from the one above
    (sheet Bal).  Deep structures, shallow evaluations: the harness evaluates it in address
    order."""
    if 'Bal' in spec['sheets']:
        return None
    spec['sheets'].append('Bal')
    n = rnd.choice((320, 400, 480))
    cells = spec['cells']
    cells.append({'a': 'Bal!A1', 'v': rnd.choice((1000.0, 250.0, 1.0))})
    cells.append({'a': 'Bal!B1', 'v': rnd.choice((0.01, 0.001, 0.0)), 'w': [0.02, 0.01, 0.0, 0.005]})
    for r in range(2, n + 1):
        cells.append({'a': f'Bal!A{r}', 'f': f'=A{r - 1}*(1+$B$1)', 'p': [f'Bal!A{r - 1}', 'Bal!B1'],
                      'd': []})
    spec['long_chain'] = {'sheet': 'Bal', 'n': n}
    return n


def add_table_gadget(rnd, spec):
    """the same small table at the same place on up to two sheets; the formulas of its last
    column and a total next to it are written with structured references ([@qty], Tbl0[total]).
    Only for workbooks that are built in memory (the xlsx stub writes no tables)."""
    sheets = [s_ for s_ in spec['sheets'] if s_ != spec.get('data_sheet')][:2]
    r0 = 45
    cols = ('qty', 'price', 'total')
    n = rnd.randint(2, 3)
    for k, sheet in enumerate(sheets):
        name = f'Tbl{k}'
        for c, head in enumerate(cols):
            a = mk(sheet, r0, c + 1)
            spec['cells'].append({'a': a, 'v': head})
            spec.setdefault('pinned', []).append(a)
        totals = []
        for r in range(r0 + 1, r0 + 1 + n):
            qa, pa, ta = mk(sheet, r, 1), mk(sheet, r, 2), mk(sheet, r, 3)
            spec['cells'].append({'a': qa, 'v': rnd.choice((1, 2, 3, 5, 10)) + 100 * k})
            spec['cells'].append({'a': pa, 'v': rnd.choice((0.5, 2, 4))})
            spec['cells'].append({'a': ta, 'f': '=[@qty]*[@price]', 'p': [qa, pa], 'd': []})
            totals.append(ta)
        rng = f'{sheet}!C{r0 + 1}:C{r0 + n}'
        e = mk(sheet, r0, 5)
        spec['cells'].append({'a': e, 'f': f'=SUM({name}[total])+1', 'p': list(totals), 'd': [],
                              'r': [rng]})
        spec.setdefault('tables', []).append(
            {'sheet': sheet, 'name': name, 'ref': f'A{r0}:C{r0 + n}', 'cols': list(cols)})
        spec.setdefault('gadget', []).extend(totals + [e])


# ---------------------------------------------------------------------------
# materialisers

def effective_cells(spec, overrides=None):
    """[(addr, kind, payload)] with kind in const / formula / cse-head / cse-member

    overrides: {addr: constant} replaces whatever the spec has at addr (a
    formula cell overridden becomes a constant cell).
    """
    overrides = overrides or {}
    out = []
    seen_cse = set()
    for c in spec['cells']:
        a = c['a']
        if a in overrides:
            out.append((a, 'const', overrides[a]))
        elif 'cse' in c:
            if c['cse'] not in seen_cse:
                seen_cse.add(c['cse'])
                out.append((a, 'cse-head', (c['cse'], c['f'])))
            else:
                out.append((a, 'cse-member', c['cse']))
        elif 'f' in c:
            out.append((a, 'formula', c['f']))
        else:
            out.append((a, 'const', c['v']))
    return out


def to_workbook(spec, overrides=None):
    """a fresh in-memory openpyxl workbook; formula cells carry no stored result"""
    from openpyxl import Workbook
    from openpyxl.workbook.defined_name import DefinedName
    from openpyxl.workbook.properties import CalcProperties
    from openpyxl.worksheet.formula import ArrayFormula

    wb = Workbook()
    ws0 = wb.active
    ws0.title = spec['sheets'][0]
    sheets = {spec['sheets'][0]: ws0}
    for s in spec['sheets'][1:]:
        sheets[s] = wb.create_sheet(s)
    for a, kind, payload in effective_cells(spec, overrides):
        sheet, coord = split_addr(a)
        ws = sheets[sheet]
        if kind == 'const':
            if payload is not None:
                ws[coord] = payload
        elif kind == 'formula':
            ws[coord] = payload
        elif kind == 'cse-head':
            ref, f = payload
            ws[coord] = ArrayFormula(split_addr(ref)[1], f)
    for n, target in spec.get('names', {}).items():
        sheet, coords = split_addr(target)
        wb.defined_names[n] = DefinedName(n, attr_text=f'{quote_sheet(sheet)}!{coords}')
    for t in spec.get('tables', []):
        from openpyxl.worksheet.table import Table, TableColumn
        table = Table(displayName=t['name'], ref=t['ref'])
        table.tableColumns = [TableColumn(id=i + 1, name=h) for i, h in enumerate(t['cols'])]
        sheets[t['sheet']].add_table(table)
    if spec.get('iter'):
        wb.calculation = CalcProperties(
            iterate=True, iterateCount=spec['iter'][0], iterateDelta=spec['iter'][1])
    wb.active = wb.index(sheets[spec['active']])
    return wb


def _cell_xml(coord, formula=None, value=None, array_ref=None, has_formula=False):
    v = value
    if hasattr(v, 'item') and type(v).__module__ == 'numpy':
        v = v.item()        # numpy scalars (SUMPRODUCT, AVERAGE) are stored as plain numbers
    if isinstance(v, bool):
        t, vs = 'b', str(int(v))
    elif isinstance(v, (int, float)):
        t, vs = 'n', repr(float(v)) if isinstance(v, float) else repr(v)
    elif isinstance(v, str) and has_formula and v.startswith('#') and v in (
            '#NULL!', '#DIV/0!', '#VALUE!', '#REF!', '#NAME?', '#NUM!', '#N/A'):
        t, vs = 'e', escape(v)
    elif isinstance(v, str):
        t, vs = 'str', escape(v)
    else:
        t, vs = None, None
    f = ''
    if formula is not None:
        ftxt = escape(formula[1:] if formula.startswith('=') else formula)
        f = (f'<f t="array" ref="{array_ref}">{ftxt}</f>' if array_ref
             else f'<f>{ftxt}</f>')
    tattr = f' t="{t}"' if t else ''
    vx = f'<v>{vs}</v>' if vs is not None else ''
    if not f and not vx:
        return ''
    return f'<c r="{coord}"{tattr}>{f}{vx}</c>'


def unstorable(v):
    """a formula result no workbook file gives back as it is: nothing / the empty text (both
    read as "no stored result"), nan and the infinities (not numbers of the file format)"""
    return v is None or v == '' or (isinstance(v, float) and (v != v or v in (
        float('inf'), float('-inf'))))


def to_xlsx(spec, path, stored, overrides=None, compress=True):
    """write a real .xlsx whose formula cells carry `stored[addr]` as results"""
    # (nan and the infinities cannot be written: such a cell carries no stored result)
    stored = {a: (None if isinstance(v, float) and unstorable(v) else v)
              for a, v in stored.items()}
    by_sheet = {s: {} for s in spec['sheets']}
    for a, kind, payload in effective_cells(spec, overrides):
        sheet, coord = split_addr(a)
        if kind == 'const':
            by_sheet[sheet][coord] = _cell_xml(coord, None, payload)
        elif kind == 'formula':
            by_sheet[sheet][coord] = _cell_xml(
                coord, payload, stored.get(a), has_formula=True)
        elif kind == 'cse-head':
            ref, f = payload
            by_sheet[sheet][coord] = _cell_xml(
                coord, f, stored.get(a), array_ref=split_addr(ref)[1], has_formula=True)
        else:
            by_sheet[sheet][coord] = _cell_xml(coord, None, stored.get(a), has_formula=True)

    z = zipfile.ZipFile(path, 'w', zipfile.ZIP_DEFLATED if compress else zipfile.ZIP_STORED)
    n = len(spec['sheets'])
    ct = ['<?xml version="1.0" encoding="UTF-8" standalone="yes"?>'
          '<Types xmlns="http://schemas.openxmlformats.org/package/2006/content-types">'
          '<Default Extension="rels" ContentType="application/vnd.openxmlformats-package.relationships+xml"/>'
          '<Default Extension="xml" ContentType="application/xml"/>'
          '<Override PartName="/xl/workbook.xml" ContentType="application/vnd.openxmlformats-officedocument.spreadsheetml.sheet.main+xml"/>']
    for i in range(1, n + 1):
        ct.append(f'<Override PartName="/xl/worksheets/sheet{i}.xml" ContentType='
                  '"application/vnd.openxmlformats-officedocument.spreadsheetml.worksheet+xml"/>')
    ct.append('</Types>')
    z.writestr('[Content_Types].xml', ''.join(ct))
    z.writestr('_rels/.rels',
               '<?xml version="1.0" encoding="UTF-8" standalone="yes"?>'
               '<Relationships xmlns="http://schemas.openxmlformats.org/package/2006/relationships">'
               '<Relationship Id="rId1" Type="http://schemas.openxmlformats.org/officeDocument/2006/relationships/officeDocument" Target="xl/workbook.xml"/>'
               '</Relationships>')
    wbx = ['<?xml version="1.0" encoding="UTF-8" standalone="yes"?>'
           '<workbook xmlns="http://schemas.openxmlformats.org/spreadsheetml/2006/main" '
           'xmlns:r="http://schemas.openxmlformats.org/officeDocument/2006/relationships">']
    active = spec['sheets'].index(spec['active'])
    wbx.append(f'<bookViews><workbookView activeTab="{active}"/></bookViews>')
    wbx.append('<sheets>')
    for i, s in enumerate(spec['sheets'], 1):
        wbx.append(f'<sheet name="{escape(s, {chr(34): "&quot;"})}" sheetId="{i}" r:id="rId{i}"/>')
    wbx.append('</sheets>')
    if spec.get('names'):
        wbx.append('<definedNames>')
        for k, target in spec['names'].items():
            sheet, coords = split_addr(target)
            wbx.append(f'<definedName name="{k}">{escape(quote_sheet(sheet) + "!" + coords)}</definedName>')
        wbx.append('</definedNames>')
    if spec.get('iter'):
        wbx.append(f'<calcPr calcId="1" iterate="1" iterateCount="{spec["iter"][0]}" '
                   f'iterateDelta="{spec["iter"][1]!r}"/>')
    else:
        wbx.append('<calcPr calcId="1"/>')     # files written by Excel always carry one
    wbx.append('</workbook>')
    z.writestr('xl/workbook.xml', ''.join(wbx))
    z.writestr('xl/_rels/workbook.xml.rels',
               '<?xml version="1.0" encoding="UTF-8" standalone="yes"?>'
               '<Relationships xmlns="http://schemas.openxmlformats.org/package/2006/relationships">' +
               ''.join(f'<Relationship Id="rId{i}" Type="http://schemas.openxmlformats.org/officeDocument/2006/relationships/worksheet" Target="worksheets/sheet{i}.xml"/>'
                       for i in range(1, n + 1)) + '</Relationships>')
    for i, s in enumerate(spec['sheets'], 1):
        rows = {}
        for coord in sorted(by_sheet[s], key=coord_rc):
            if by_sheet[s][coord]:
                rows.setdefault(coord_rc(coord)[0], []).append(coord)
        sd = ''.join(f'<row r="{r}">' + ''.join(by_sheet[s][c] for c in cs) + '</row>'
                     for r, cs in sorted(rows.items()))
        z.writestr(f'xl/worksheets/sheet{i}.xml',
                   '<?xml version="1.0" encoding="UTF-8" standalone="yes"?>'
                   '<worksheet xmlns="http://schemas.openxmlformats.org/spreadsheetml/2006/main">'
                   f'<sheetData>{sd}</sheetData></worksheet>')
    z.close()
