"""entry point: ./check <ID> quick|thorough | ./check <ID> --replay FILE | ./check selftest ..."""
import os
import sys


def reexec_pinned():
    """one interpreter configuration for every run (DESIGN 2.1)"""
    want = {'PYTHONHASHSEED': os.environ.get('VERIF_HASHSEED', '0'), 'OMP_NUM_THREADS': '1'}
    if any(os.environ.get(k) != v for k, v in want.items()):
        env = dict(os.environ)
        env.update(want)
        os.execve(sys.executable, [sys.executable, '-m', 'sim.main'] + sys.argv[1:], env)


def main(argv):
    reexec_pinned()
    import pycel
    repo_src = os.environ.get('PYCEL_SRC', '/repo/src')
    if not os.path.abspath(pycel.__file__).startswith(os.path.abspath(repo_src) + os.sep):
        print(f'HARNESS-ERROR pycel imported from {pycel.__file__}, expected {repo_src}')
        return 2
    from sim import core, refmodel
    refmodel.quiet()
    if not argv:
        print(__doc__)
        return 2
    if argv[0] == 'selftest':
        from sim import selftest
        return selftest.main(argv[1:])
    prop_id = argv[0].upper()
    if '--replay' in argv:
        path = argv[argv.index('--replay') + 1]
        prop = core.load_prop(prop_id)
        res = core.replay_file(prop, path, quiet='--tag-only' in argv)
        v = res.get('violation')
        tag = v['tag'] if v else None
        if '--tag-only' in argv:
            print(f'TAG={tag}')
            return 0
        if v is None:
            print(f'replay: no violation (property {prop_id} held on this history)')
            return 0
        k = core.known_for(prop_id, tag)
        if k:
            print(f'KNOWN-FINDING: property={prop_id} {k["what"]} [tag={tag}]')
            return 0
        print(f'VIOLATION property={prop_id} replay={path}')
        return 1
    tier = argv[1] if len(argv) > 1 else os.environ.get('VERIF_TIER', 'quick')
    if tier not in ('quick', 'thorough'):
        print(f'unknown tier {tier}')
        return 2
    try:
        return core.check(prop_id, tier)
    except core.HarnessError as exc:
        print(f'HARNESS-ERROR property={prop_id} {exc}')
        return 2


if __name__ == '__main__':
    sys.exit(main(sys.argv[1:]))
