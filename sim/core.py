"""Seeds, worker pool, watchdogs, minimisation, replay, verdict and evidence
plumbing shared by all property checks (DESIGN 2.1, 2.7-2.10).

A property module provides

  ID, LEVEL, RULE                      identifiers and the evidence 'rule' text
  budget(tier) -> dict(runs=N, ...)    counts, never deadlines
  gen_case(rnd, tier, index) -> case   plain-JSON case (spec, cfg, ops, faults, schedule)
  run_case(case) -> result             dict(violation, digest, sig, nontrivial, counts, sample)
  shrink(case, still_fails) -> case    optional; core.generic_shrink is the default
  COMPONENTS                           dict(real=[...], stub=[...])
"""
import collections
import concurrent.futures as cf
import faulthandler
import hashlib
import importlib
import json
import multiprocessing
import os
import subprocess
import sys
import time
import traceback

VERIF = os.path.dirname(os.path.dirname(os.path.abspath(__file__)))
RUN_WATCHDOG_S = 300


class HarnessError(Exception):
    pass


def verif_seed():
    try:
        return int(os.environ.get('VERIF_SEED', '1'))
    except ValueError:
        return 1


def run_seed(prop_id, index, base=None):
    base = verif_seed() if base is None else base
    h = hashlib.sha256(f'{base}/{prop_id}/{index}'.encode()).hexdigest()
    return int(h[:8], 16)


def digest_of(obj):
    return hashlib.sha256(
        json.dumps(obj, sort_keys=True, default=str).encode()).hexdigest()[:16]


def load_prop(prop_id):
    return importlib.import_module(f'sim.props.{prop_id.lower()}')


# ---------------------------------------------------------------------------
# one run

def one_run(prop, seed, tier, index, keep_case=False):
    import random
    rnd = random.Random(seed)
    case = prop.gen_case(rnd, tier, index)
    case['seed'] = seed
    case['property'] = prop.ID
    res = run_case_guarded(prop, case)
    res['seed'] = seed
    if res.get('violation') or keep_case:
        res['case'] = case
    return res


def log_mode(case):
    """what the application did with pycel's log for this run: 'off' (logging disabled, as a
    batch job would), 'default' (nothing configured: warnings and errors are emitted), 'debug'"""
    seed = int(case.get('seed', 0) or 0)
    return ('off', 'off', 'default', 'debug')[(seed >> 9) & 3]


def apply_log_mode(case):
    import logging
    lg = logging.getLogger('pycel')
    if not any(isinstance(h, logging.NullHandler) for h in lg.handlers):
        lg.addHandler(logging.NullHandler())      # records are made and formatted, not printed
    lg.propagate = False
    mode = log_mode(case)
    logging.disable(logging.CRITICAL if mode == 'off' else logging.NOTSET)
    lg.setLevel(logging.DEBUG if mode == 'debug' else logging.NOTSET)
    return mode


def run_case_guarded(prop, case):
    """prop.run_case, but an exception that escapes from *pycel* while the harness sets a run
    up (building a workbook, pre-evaluating, saving) is a verdict about pycel, not a harness
    failure: every such call succeeds on the unchanged tree"""
    mode = apply_log_mode(case)
    try:
        res = prop.run_case(case)
        res.setdefault('counts', {})['log-mode:' + mode] = 1
        return res
    except Exception as exc:   # noqa
        import pycel
        pycel_dir = os.path.dirname(os.path.abspath(pycel.__file__))
        frames = traceback.extract_tb(exc.__traceback__)
        inner = frames[-1].filename if frames else ''
        from_pycel = any(os.path.abspath(f.filename).startswith(pycel_dir) for f in frames)
        from_harness = os.path.abspath(inner).startswith(os.path.join(VERIF, 'sim'))
        if not from_pycel or from_harness:
            raise
        where = next((f'{os.path.basename(f.filename)}:{f.name}' for f in reversed(frames)
                      if os.path.abspath(f.filename).startswith(os.path.join(VERIF, 'sim'))), '?')
        v = {'rule': 'exception-outside-an-operation', 'step': -1, 'op': {'op': 'setup', 'at': where},
             'expected': 'the call succeeds (it does on the unchanged tree)',
             'got': f'{type(exc).__name__}: {str(exc)[-300:]}', 'exc': type(exc).__name__,
             'tag': f'exception-outside-an-operation/{type(exc).__name__}/{where}'}
        return {'violation': v, 'digest': 'exc:' + type(exc).__name__, 'sig': 'exc',
                'nontrivial': False, 'counts': {}, 'sample': None}


def _chunk_worker(prop_id, tier, items):
    """runs in a pool process; items = [(index, seed)]"""
    from . import refmodel
    refmodel.quiet()
    faulthandler.enable()      # a crash of the interpreter leaves its stack on stderr
    prop = load_prop(prop_id)
    out = []
    for index, seed in items:
        kill = os.environ.get('VERIF_SELFTEST_KILL')      # self-test of the pool's recovery
        if kill and kill.split(':')[0] == str(index) and not os.path.exists(kill.split(':')[1]):
            open(kill.split(':')[1], 'w').close()
            os._exit(9)
        faulthandler.dump_traceback_later(RUN_WATCHDOG_S, exit=True)
        try:
            res = one_run(prop, seed, tier, index)
        except BaseException as exc:   # harness failure, never a verdict
            res = {'seed': seed, 'harness_error':
                   f'{type(exc).__name__}: {exc}\n{traceback.format_exc()[-3000:]}'}
        finally:
            faulthandler.cancel_dump_traceback_later()
        res['index'] = index
        out.append(res)
    return out


def run_pool(prop_id, tier, items, workers, chunk=None):
    """execute many runs; the verdict does not depend on `workers`"""
    if not items:
        return []
    chunk = chunk or max(1, min(50, len(items) // (workers * 4) or 1))
    chunks = [items[i:i + chunk] for i in range(0, len(items), chunk)]
    ctx = multiprocessing.get_context('spawn')   # fork: COW faults are very slow in this VM
    results = []
    pending = chunks
    last_error = None
    for attempt in range(4):
        # a worker that dies (an interpreter crash, the watchdog) breaks the whole pool: what
        # has no result yet is run again in a new pool, one run per task, so that a run that
        # kills its interpreter every time ends up alone and is named
        failed = []
        with cf.ProcessPoolExecutor(max_workers=workers, mp_context=ctx) as ex:
            futs = {ex.submit(_chunk_worker, prop_id, tier, c): c for c in pending}
            try:
                for f in cf.as_completed(futs, timeout=RUN_WATCHDOG_S * 4 + 3600):
                    try:
                        results.extend(f.result())
                    except Exception as exc:   # BrokenProcessPool for this future
                        last_error = exc
                        failed.append(futs[f])
            except Exception as exc:   # timeout of the whole batch
                for f in futs:
                    f.cancel()
                raise HarnessError(f'worker pool failed: {type(exc).__name__}: {exc}')
        if not failed:
            break
        print(f'[{prop_id}] worker pool broke ({type(last_error).__name__}), running '
              f'{sum(len(c) for c in failed)} runs again (attempt {attempt + 2})', flush=True)
        pending = [[item] for c in failed for item in c]
    else:
        seeds = [item[1] for c in pending for item in c][:5]
        raise HarnessError(f'worker pool failed repeatedly: {type(last_error).__name__}: '
                           f'{last_error}; runs without a result: seeds {seeds}')
    results.sort(key=lambda r: r['index'])
    return results


# ---------------------------------------------------------------------------
# minimisation (delta debugging over the explicit record, DESIGN 2.7)

def ddmin_list(items, test, budget):
    """classic ddmin: smallest sublist (order kept) for which test(sublist) holds"""
    n = 2
    items = list(items)
    while len(items) >= 1 and budget[0] > 0:
        size = max(1, len(items) // n)
        subsets = [items[i:i + size] for i in range(0, len(items), size)]
        reduced = False
        for i in range(len(subsets)):
            complement = [x for j, s in enumerate(subsets) if j != i for x in s]
            budget[0] -= 1
            if test(complement):
                items = complement
                n = max(n - 1, 2)
                reduced = True
                break
            if budget[0] <= 0:
                break
        if not reduced:
            if size == 1:
                break
            n = min(len(items), n * 2)
    return items


def generic_shrink(prop, case, tag, max_tests=400):
    """drop operations, then simplify the workbook, keeping the same tag"""
    budget = [max_tests]
    legalise = getattr(prop, 'legalise', lambda c: c)

    def fails(c):
        try:
            c = legalise(json.loads(json.dumps(c)))
            if c is None:
                return None
            r = run_case_guarded(prop, c)
        except Exception:   # a candidate the harness cannot run is not a witness
            return None
        v = r.get('violation')
        if v and v.get('tag') == tag:
            return c
        return None

    best = fails(case) or case

    def with_ops(ops):
        c = dict(best)
        c['ops'] = ops
        return c

    if best.get('ops'):
        def test(ops):
            return fails(with_ops(ops)) is not None
        ops = ddmin_list(best['ops'], test, budget)
        got = fails(with_ops(ops))
        if got:
            best = got
    for move in getattr(prop, 'shrink_moves', default_moves)(prop, best):
        if budget[0] <= 0:
            break
        # `move` is a function case -> iterator of smaller cases, applied greedily
        progress = True
        while progress and budget[0] > 0:
            progress = False
            for cand in move(best):
                budget[0] -= 1
                got = fails(cand)
                if got:
                    best = got
                    progress = True
                    break
                if budget[0] <= 0:
                    break
    return best


def default_moves(prop, case):
    from . import shrink
    return shrink.spec_moves()


# ---------------------------------------------------------------------------
# known findings

def load_known():
    path = os.path.join(VERIF, 'known_findings.json')
    if not os.path.exists(path):
        return {'findings': [], 'fixed': []}
    with open(path) as f:
        return json.load(f)


def known_for(prop_id, tag):
    for k in load_known().get('findings', []):
        if k['property'] == prop_id and k['tag'] == tag:
            return k
    return None


# ---------------------------------------------------------------------------
# replay

def write_replay(prop_id, case, violation, n, repeat=1):
    os.makedirs(os.path.join(VERIF, 'replays'), exist_ok=True)
    path = os.path.join(VERIF, 'replays', f'{prop_id}-{case.get("seed", 0)}-{n}.json')
    rec = {'property': prop_id, 'violation': violation, 'case': case}
    if repeat > 1:
        rec['repeat'] = repeat
        rec['note'] = ('the violation depends on state that earlier executions leave behind in '
                       f'the process: the replay executes the case up to {repeat} times in one '
                       'fresh interpreter and reports the first execution that violates')
    with open(path, 'w') as f:
        json.dump(rec, f, indent=1, sort_keys=True, default=str)
    return path


def replay_file(prop, path, quiet=False):
    with open(path) as f:
        rec = json.load(f)
    for _ in range(max(1, int(rec.get('repeat', 1)))):
        res = run_case_guarded(prop, json.loads(json.dumps(rec['case'])))
        if res.get('violation'):
            break
    v = res.get('violation')
    if not quiet:
        print(json.dumps({'digest': res.get('digest'), 'violation': v},
                         indent=1, default=str))
    return res


def replay_in_fresh_interpreter(prop_id, path):
    """returns the tag the replay produced in a new process (None = no violation)"""
    env = dict(os.environ)
    proc = subprocess.run(
        [sys.executable, '-m', 'sim.main', prop_id, '--replay', path, '--tag-only'],
        stdout=subprocess.PIPE, stderr=subprocess.PIPE, env=env, cwd=VERIF, timeout=600)
    out = proc.stdout.decode().strip().splitlines()
    for line in out:
        if line.startswith('TAG='):
            t = line[4:]
            return None if t == 'None' else t
    raise HarnessError('replay produced no verdict: ' + proc.stderr.decode()[-1500:])


# ---------------------------------------------------------------------------
# the check

def check(prop_id, tier):
    t0 = time.time()
    prop = load_prop(prop_id)
    seed0 = verif_seed()
    bud = prop.budget(tier)
    workers = int(os.environ.get('VERIF_WORKERS', '0')) or min(16, os.cpu_count() or 1)
    n = bud['runs']
    items = [(i, run_seed(prop_id, i, seed0)) for i in range(n)]
    print(f'[{prop_id}] tier={tier} VERIF_SEED={seed0} runs={n} workers={workers} '
          f'first_seeds={[s for _, s in items[:4]]}', flush=True)

    if os.path.abspath(os.environ.get('PYCEL_SRC', '/repo/src')) == '/repo/src':
        # replay files of earlier runs of this check are not findings of this run
        import glob
        for old in glob.glob(os.path.join(VERIF, 'replays', f'{prop_id}-*.json')):
            os.unlink(old)
    results = run_pool(prop_id, tier, items, workers)
    errors = [r for r in results if r.get('harness_error')]
    if errors:
        print(f'HARNESS-ERROR property={prop_id} seed={errors[0]["seed"]}\n'
              f'{errors[0]["harness_error"]}', flush=True)
        return 2

    # determinism re-check: a sample of seeds again, other process, other order
    recheck_n = bud.get('recheck', 16)
    sample = items[:recheck_n][::-1]
    again = run_pool(prop_id, tier, sample, max(1, min(workers, 4)), chunk=4)
    by_index = {r['index']: r for r in results}
    mismatches = [r['seed'] for r in again
                  if r.get('digest') != by_index[r['index']].get('digest')]
    # (a mismatch is reported after the verdicts: a change under test that keeps state for the
    # whole process makes runs depend on what ran before them in their worker - that is a
    # violation to be reported with its replay file, when there is one, and a harness error
    # only when nothing else explains it)

    # verdicts
    counts = collections.Counter()
    sigs = set()
    samples = []
    for r in results:
        counts.update(r.get('counts', {}))
        if r.get('nontrivial'):
            sigs.add(r.get('sig'))
        if r.get('sample') is not None and len(samples) < 3:
            samples.append({'seed': r['seed'], **r['sample']})
    violating = [r for r in results if r.get('violation')]
    exit_code = 0
    known_seen = collections.Counter()
    reported = []
    by_tag = collections.OrderedDict()
    for r in violating:
        by_tag.setdefault(r['violation']['tag'], []).append(r)
    max_report = bud.get('max_report', 4)
    for tag, rs in by_tag.items():
        k = known_for(prop_id, tag)
        if k:
            known_seen[tag] += len(rs)
            continue
        if len(reported) >= max_report:
            continue
        # minimise, then prove the replay file in a brand-new interpreter.  Where that does
        # not reproduce (the violation needs state that earlier executions left behind in the
        # worker process - a process-global introduced by the change under test) fall back to:
        # the same case executed three times in one fresh interpreter, the unminimised case,
        # another run with the same tag.  Repeating a case is just a longer history: a tree on
        # which the property holds passes every repetition.
        t = path = v2 = None
        for r in rs[:3]:
            small = shrink_case(prop, r['case'], tag, bud.get('shrink_tests', 300))
            res2 = run_case_guarded(prop, small)
            v2 = res2.get('violation') or r['violation']
            for cand, repeat in ((small, 1), (small, 3), (r['case'], 1), (r['case'], 3)):
                path = write_replay(prop_id, cand, v2, len(reported), repeat=repeat)
                t = replay_in_fresh_interpreter(prop_id, path)
                if t == tag:
                    break
            if t == tag:
                break
        if t != tag:
            print(f'HARNESS-ERROR property={prop_id} replay {path} gave tag {t!r}, '
                  f'expected {tag!r} (determinism leak)', flush=True)
            return 2
        reported.append((tag, path, len(rs), v2))
    for tag, cnt in known_seen.items():
        k = known_for(prop_id, tag)
        print(f'KNOWN-FINDING: property={prop_id} {k["what"]} [tag={tag}; {cnt} runs]',
              flush=True)
    for tag, path, cnt, v in reported:
        print(f'  violation tag={tag} runs={cnt} rule={v.get("rule")} '
              f'expected={str(v.get("expected"))[:600]} got={str(v.get("got"))[:600]}', flush=True)
        print(f'VIOLATION property={prop_id} replay={path}', flush=True)
        exit_code = 1
    if mismatches:
        if exit_code == 0:
            print(f'HARNESS-ERROR property={prop_id} nondeterministic seeds={mismatches[:5]}',
                  flush=True)
            return 2
        print(f'[{prop_id}] note: {len(mismatches)} of {len(again)} re-executed runs gave another '
              f'digest in another process (seeds {mismatches[:5]}): the tree under test keeps '
              f'state between runs', flush=True)

    wall = time.time() - t0
    fault_counts = {k[6:]: v for k, v in counts.items() if k.startswith('fault:')}
    probe_counts = {k[6:]: v for k, v in counts.items() if k.startswith('probe:')}
    other = {k: v for k, v in counts.items()
             if not k.startswith(('fault:', 'probe:'))}
    evidence = {
        'property_id': prop_id,
        'tier': tier,
        'seed': seed0,
        'level': prop.LEVEL,
        'coverage': {
            'evaluations': len(results),
            'distinct_nontrivial': len(sigs),
            'rule': prop.RULE,
            'samples': samples or [{'note': 'no sample recorded'}],
            'exhaustive': False,
            'technique': 'deterministic simulation with fault injection: seeded search over '
                         'histories / schedules / fault plans against a reference model',
            'runs_per_hour': round(len(results) / max(wall, 1e-9) * 3600),
            'seeds_per_hour': round(len(results) / max(wall, 1e-9) * 3600),
            'simulated_steps': other,
            'faults_fired': fault_counts,
            'reach_probes': probe_counts,
            'determinism_recheck': {'seeds_rerun': len(again), 'mismatches': len(mismatches)},
            'violating_runs': len(violating),
            'known_findings_seen': dict(known_seen),
            'components': prop.COMPONENTS,
            'budget': bud,
            'workers': workers,
        },
        'assumptions': getattr(prop, 'ASSUMPTIONS', []),
        'wall_s': round(wall, 2),
        'violations': len(reported),
    }
    if os.path.abspath(os.environ.get('PYCEL_SRC', '/repo/src')) == '/repo/src':
        os.makedirs(os.path.join(VERIF, 'evidence'), exist_ok=True)
        with open(os.path.join(VERIF, 'evidence', f'{prop_id}.json'), 'w') as f:
            json.dump(evidence, f, indent=1, sort_keys=True, default=str)
    else:
        print(f'[{prop_id}] PYCEL_SRC={os.environ.get("PYCEL_SRC")}: not /repo/src, evidence '
              f'file left untouched', flush=True)
    print(f'[{prop_id}] runs={len(results)} distinct_nontrivial={len(sigs)} '
          f'violating_runs={len(violating)} reported={len(reported)} '
          f'known={sum(known_seen.values())} wall={wall:.1f}s', flush=True)
    print(f'[{prop_id}] faults fired: {fault_counts}', flush=True)
    print(f'[{prop_id}] reach probes: {probe_counts}', flush=True)
    return exit_code


def shrink_case(prop, case, tag, max_tests):
    if hasattr(prop, 'shrink'):
        return prop.shrink(case, tag, max_tests)
    return generic_shrink(prop, case, tag, max_tests)
