"""Value classes and the comparison `~` used by every oracle (DESIGN 2.3).

Same Excel type class and equal value.  int / float / numpy / ruamel scalar
floats are one class, bool is its own class (0 vs FALSE differ), text and error
codes are distinct classes, tuples compare elementwise.
"""
import math
import numbers

import numpy as np

ERROR_CODES = frozenset((
    '#NULL!', '#DIV/0!', '#VALUE!', '#REF!', '#NAME?', '#NUM!', '#N/A'))


def canon(v):
    """canonical, hashable, json-able (as nested lists) form of a value"""
    if v is None:
        return ('blank',)
    if isinstance(v, (bool, np.bool_)):
        return ('bool', bool(v))
    if isinstance(v, numbers.Number):
        try:
            f = float(v)
        except (TypeError, ValueError):
            return ('other', repr(v))
        if math.isnan(f):
            return ('num', 'nan')
        if math.isinf(f):
            return ('num', 'inf' if f > 0 else '-inf')
        if f == 0:
            f = 0.0   # -0.0 ~ 0.0
        return ('num', f)
    if isinstance(v, str):
        if v in ERROR_CODES:
            return ('err', str(v))
        return ('text', str(v))
    if isinstance(v, (tuple, list)):
        return ('arr', tuple(canon(x) for x in v))
    if isinstance(v, np.ndarray):
        return ('arr', tuple(canon(x) for x in v.tolist()))
    return ('other', type(v).__name__ + ':' + repr(v))


def same(a, b):
    return canon(a) == canon(b)


def jsonable(v):
    """a faithful JSON rendering of a value (used in logs and replay files)"""
    c = canon(v)
    return _j(c)


def _j(c):
    if c[0] == 'arr':
        return ['arr', [_j(x) for x in c[1]]]
    return list(c)


def from_json(j):
    """inverse of jsonable for scalar classes (used for replaying writes)"""
    kind = j[0]
    if kind == 'blank':
        return None
    if kind == 'bool':
        return bool(j[1])
    if kind == 'num':
        if j[1] == 'nan':
            return float('nan')
        if j[1] == 'inf':
            return float('inf')
        if j[1] == '-inf':
            return float('-inf')
        f = j[1]
        if isinstance(f, float) and f.is_integer() and abs(f) < 2**53 and j[-1] != 'f':
            return f
        return f
    if kind in ('text', 'err'):
        return j[1]
    if kind == 'arr':
        return tuple(from_json(x) for x in j[1])
    raise ValueError(j)


def is_number(v):
    return isinstance(v, numbers.Number) and not isinstance(v, (bool, np.bool_))


def show(v):
    """short printable form"""
    c = canon(v)
    if c[0] == 'arr':
        return '(' + ', '.join(show_c(x) for x in c[1]) + ')'
    return show_c(c)


def show_c(c):
    if c[0] == 'blank':
        return 'blank'
    if c[0] == 'arr':
        return '(' + ', '.join(show_c(x) for x in c[1]) + ')'
    return f'{c[0]}:{c[1]!r}'
