"""C06 iterative calculation: bounded, tolerance-honest, agrees with plain evaluation."""
import hashlib
import json

import numpy as np

from .. import history, plugin, values, wbgen
from ..refmodel import on_fresh_thread
from ..world import Driver, TmpDir
from . import c01

ID = 'C06'
LEVEL = 'exploration'
RULE = ('two workloads. A (half of the runs): the C01 histories (evaluate / set_value / '
        'restart, all access forms, ranges, nested ranges, CSE blocks, 3 origins) on acyclic '
        'workbooks compiled in iterative mode with drawn (iterations, tolerance); every read must '
        'equal the plain non-iterative reference exactly. B: linear circular blocks x = Ax + b '
        'with max-norm of A <= q < 1 (rows written out or as c*SUM(range of the cycle cells)), '
        'every cycle cell wrapped in PROBE(tag, .) which is the pass clock; histories of '
        'evaluate(addr, iterations=, tolerance=) and set_value on b; per evaluate: calls per tag '
        '<= iterations, the value returned is the value of the last pass, and if it stopped '
        'early every tag moved by <= tolerance in the last pass and the result is within '
        'q/(1-q) x tolerance of the fixed point from numpy.linalg.solve. non-trivial: A = a read '
        'whose value had to change after a write; B = an evaluate that stopped before the pass '
        'limit. distinct = distinct (workload, settings, operation sequence, pass counts / cache '
        'trajectory) digests')
COMPONENTS = dict(c01.COMPONENTS)
COMPONENTS['stub'] = COMPONENTS['stub'] + ['PROBE plugin function (pass clock)',
                                           'numpy.linalg.solve as the fixed-point oracle']
ASSUMPTIONS = [
    'workload A reference: plain (non-iterative) fresh compile with the current inputs',
    'workload B: the contraction bound holds for any update order because A contracts in the '
    'max norm; slack (1 + 1e-5) is pycel\'s own documented comparison slack in close_enough',
    'a tag\'s previous value is taken across evaluate calls (a call may legitimately stop after one pass)',
]


def budget(tier):
    if tier == 'quick':
        return dict(runs=3000, recheck=16, shrink_tests=300)
    return dict(runs=100000, recheck=48, shrink_tests=500)


# ---------------------------------------------------------------------------
# workload A

def gen_case_a(rnd, tier):
    knobs = wbgen.draw_knobs(rnd)
    spec = wbgen.generate(rnd, knobs)
    iterations = rnd.choice((1, 2, 5, 20, 100))
    tolerance = rnd.choice((0.5, 0.01, 0.001, 1e-6))
    origin = rnd.choice(('nodata', 'nodata', 'xlsx', 'yml', 'json', 'pkl'))
    cfg = {'origin': origin, 'workload': 'A'}
    how = rnd.choice(('workbook', 'workbook', 'override'))
    if how == 'workbook':
        spec['iter'] = [iterations, tolerance]
    else:
        cfg['cycles'] = True
    if origin in history.SERIAL:
        dag = wbgen.Dag(spec)
        cfg['pre'] = list(dag.order) if rnd.random() < 0.5 else rnd.sample(
            dag.order, rnd.randint(1, len(dag.order)))
        cfg['where'] = rnd.choice(('same', 'thread'))
    n_ops = rnd.choice((3, 5, 8, 12, 20))
    ops = c01.gen_ops(rnd, spec, cfg, n_ops, restart_rate=rnd.choice((0, 0, 0.05)),
                      set_rate=rnd.choice((0.25, 0.4, 0.55)))
    for op in ops:
        if op['op'] == 'eval' and rnd.random() < 0.3:
            op['iterations'] = rnd.choice((1, 2, 3, 10))
            if rnd.random() < 0.5:
                op['tolerance'] = rnd.choice((0.1, 0.001))
    return history.legalise({'spec': spec, 'cfg': cfg, 'ops': ops})


def run_case_a(case):
    run = history.HistoryRun(case)
    res = run.run(c01.check_eval)
    v = res['violation']
    if v:
        tag = c01.make_tag(run)
        v['tag'] = 'A/' + tag
    res['sample'] = {'workload': 'A (acyclic book in iterative mode)',
                     'origin': case['cfg'].get('origin'), 'iter': case['spec'].get('iter'),
                     'ops': [c01._short(o) for o in case.get('ops', [])[:10]]}
    return res


# ---------------------------------------------------------------------------
# workload B

def gen_case_b(rnd, tier):
    n = rnd.randint(2, 5)
    q = rnd.uniform(0.1, 0.9)
    rows = []
    # the shape of A: full; diagonal (every loop is a cell that refers to itself); lower
    # triangular (self-references and a chain between them, no loop of two or more cells)
    shape = rnd.choice(('full', 'full', 'full', 'full', 'diag', 'lower'))
    if shape != 'full' and rnd.random() < 0.3:
        n = 1
    for i in range(n):
        if shape == 'full' and rnd.random() < 0.4:
            c = rnd.uniform(-1, 1) * q / n
            rows.append({'kind': 'sum', 'c': c})
        else:
            w = [rnd.uniform(-1, 1) for _ in range(n)]
            if shape == 'diag':
                w = [x if j == i else 0.0 for j, x in enumerate(w)]
            elif shape == 'lower':
                w = [x if j <= i else 0.0 for j, x in enumerate(w)]
            s = sum(abs(x) for x in w)
            scale = q * rnd.uniform(0.3, 1) / s
            rows.append({'kind': 'explicit', 'w': [x * scale for x in w]})
    b = [round(rnd.uniform(-5, 5), 3) for _ in range(n)]
    iterations = rnd.choice((1, 2, 3, 10, 50, 200))
    tolerance = 10 ** rnd.uniform(-6, -1)
    cfg = {'workload': 'B', 'n': n, 'rows': rows, 'b': b, 'iter': [iterations, tolerance],
           'shape': shape,
           'origin': rnd.choice(('nodata', 'nodata', 'xlsx')),
           'extra': rnd.random() < 0.4 and n > 1}
    targets = [f'S!B{i + 1}' for i in range(n)] + (['S!C1'] if cfg['extra'] else [])
    if rnd.random() < 0.15:
        # a workbook that asks for iterative calculation without saying how many passes or
        # how exact: pycel's documented fall-back (10000 passes, 0.01) is what was requested
        cfg['iter'] = [None, None]
        cfg['origin'] = 'nodata'
    if rnd.random() < 0.2 and shape == 'full':
        cfg['cse_q'] = round(rnd.uniform(0.1, 0.8), 3)
        cfg['rows'] = [{'kind': 'cse'}] * n
        cfg['origin'] = 'nodata'
        targets += [f'S!D1:D{n}', f'S!D{n}']
    ops = []
    for _ in range(rnd.choice((1, 2, 4, 8))):
        if rnd.random() < 0.35 and ops:
            i = rnd.randrange(n)
            ops.append({'op': 'set', 'a': f'S!A{i + 1}', 'v': round(rnd.uniform(-5, 5), 3)})
        else:
            t = rnd.choice(targets)
            op = ({'op': 'eval', 'rng': t, 'a': t, 'form': 'range'} if ':' in t else
                  {'op': 'eval', 'a': t, 'form': 'cell'})
            if rnd.random() < 0.4:
                op['iterations'] = rnd.choice((1, 2, 5, 20, 100))
            if rnd.random() < 0.3:
                op['tolerance'] = 10 ** rnd.uniform(-5, -1)
            ops.append(op)
    if not any(o['op'] == 'eval' for o in ops):
        ops.append({'op': 'eval', 'a': targets[0], 'form': 'cell'})
    return {'spec': spec_b(cfg), 'cfg': cfg, 'ops': ops}


def matrix(cfg):
    n = cfg['n']
    a = np.zeros((n, n))
    if cfg.get('cse_q') is not None:
        return np.eye(n) * cfg['cse_q']
    for i, row in enumerate(cfg['rows']):
        if row['kind'] == 'sum':
            a[i, :] = row['c']
        else:
            a[i, :] = row['w']
    return a


def spec_b(cfg):
    n = cfg['n']
    cells = []
    if cfg.get('cse_q') is not None:
        # x = q*y + b as one array formula in D1:Dn, y_i = x_i in the cells B_i: the loop is
        # closed through the array formula's range
        q = cfg['cse_q']
        for i in range(n):
            cells.append({'a': f'S!A{i + 1}', 'v': cfg['b'][i]})
        ref = f'S!D1:D{n}'
        for i in range(n):
            cells.append({'a': f'S!D{i + 1}', 'cse': ref, 'f': f'=B1:B{n}*{q!r}+A1:A{n}',
                          'p': [f'S!B{j + 1}' for j in range(n)] + [f'S!A{j + 1}' for j in range(n)],
                          'd': []})
        for i in range(n):
            cells.append({'a': f'S!B{i + 1}', 'f': f'=PROBE("B{i + 1}",D{i + 1})',
                          'p': [f'S!D{i + 1}'], 'd': []})
        if cfg.get('extra'):
            cells.append({'a': 'S!C1', 'f': '=B1+B2', 'p': ['S!B1', 'S!B2'], 'd': []})
        return {'sheets': ['S'], 'active': 'S', 'data_sheet': None, 'cells': cells, 'names': {},
                'iter': cfg['iter'], 'pinned': []}
    for i in range(n):
        cells.append({'a': f'S!A{i + 1}', 'v': cfg['b'][i]})
    for i, row in enumerate(cfg['rows']):
        if row['kind'] == 'sum':
            body = f'{row["c"]!r}*SUM(B1:B{n})+A{i + 1}'
            used = list(range(n))
        else:
            used = [j for j, w in enumerate(row['w']) if w != 0.0]
            body = '+'.join([f'{row["w"][j]!r}*B{j + 1}' for j in used] + [f'A{i + 1}'])
        body = body.replace('+-', '-')
        cells.append({'a': f'S!B{i + 1}', 'f': f'=PROBE("B{i + 1}",{body})',
                      'p': [f'S!B{j + 1}' for j in used] + [f'S!A{i + 1}'], 'd': []})
    if cfg.get('extra'):
        second = 'B2' if n > 1 else 'A1'
        cells.append({'a': 'S!C1', 'f': f'=B1+{second}', 'p': ['S!B1', f'S!{second}'], 'd': []})
    return {'sheets': ['S'], 'active': 'S', 'data_sheet': None, 'cells': cells, 'names': {},
            'iter': cfg['iter'], 'pinned': []}


def legalise_b(case):
    cfg = case['cfg']
    case['spec'] = spec_b(cfg)
    n = cfg['n']
    ok = {f'S!B{i + 1}' for i in range(n)} | ({'S!C1'} if cfg.get('extra') else set())
    if cfg.get('cse_q') is not None:
        ok |= {f'S!D1:D{n}', f'S!D{n}'}
    case['ops'] = [o for o in case.get('ops', [])
                   if (o['op'] == 'eval' and o['a'] in ok) or
                   (o['op'] == 'set' and o['a'] in {f'S!A{i + 1}' for i in range(n)})]
    return case


def run_case_b(case):
    cfg = case['cfg']
    spec = case['spec']
    ops = case.get('ops', [])
    n = cfg['n']
    a_mat = matrix(cfg)
    q = float(np.abs(a_mat).sum(axis=1).max())
    counts = {}
    events = []
    sig_items = []
    state = {'violation': None, 'nontrivial': False}

    def count(k, c=1):
        counts[k] = counts.get(k, 0) + c

    def violate(rule, step, op, expected_, got, **extra):
        if state['violation'] is None:
            state['violation'] = dict(rule=rule, step=step, op=op, expected=expected_,
                                      got=got, **extra)

    def body(driver):
        plugin.reset()
        b = list(cfg['b'])
        xstar = np.linalg.solve(np.eye(n) - a_mat, np.array(b))
        count('origin:' + cfg.get('origin', 'nodata'))
        if cfg.get('origin') == 'xlsx':
            stored = {f'S!B{i + 1}': float(round(xstar[i], 6)) for i in range(n)}
            if cfg.get('extra'):
                stored['S!C1'] = stored['S!B1'] + stored['S!B2']
            driver.build_xlsx(spec, stored)
        else:
            driver.build_nodata(spec)
        log = plugin.STATE['probe_log']
        last = {}       # tag -> last probe value seen before the current evaluate
        for i, op in enumerate(ops):
            if state['violation']:
                break
            count('ops')
            if op['op'] == 'set':
                out = driver.step(op)
                b[int(op['a'][3:]) - 1] = op['v']
                xstar = np.linalg.solve(np.eye(n) - a_mat, np.array(b))
                events.append((i, 'set', op['a'], op['v'], out.get('exc')))
                sig_items.append(('s',))
                if 'exc' in out:
                    violate('exception', i, op, 'set_value works', out, exc=out['exc'])
                continue
            iterations = op.get('iterations') or cfg['iter'][0] or 10000
            tol = op.get('tolerance') or cfg['iter'][1] or 0.01
            start = len(log)
            out = driver.step(op)
            calls = {}
            for tag, x in log[start:]:
                calls.setdefault(tag, []).append(x)
            passes = max((len(v) for v in calls.values()), default=0)
            count('evals')
            count('passes', passes)
            events.append((i, 'eval', op['a'], iterations, round(tol, 9), out.get('v'),
                           out.get('exc'), sorted((t, len(v)) for t, v in calls.items())))
            sig_items.append(('e', iterations, passes))
            if 'exc' in out:
                violate('exception', i, op, 'a number', out, exc=out['exc'])
                break
            got = out['v']
            tgt = op['a'][2:]
            if ':' in tgt:
                # the array formula's range: a column of numbers; judged through its last cell
                if got[0] != 'arr' or any(x[0] != 'num' for x in got[1]):
                    violate('not-a-number', i, op, 'a column of numbers', got)
                    break
                got = got[1][-1]
                tgt = f'D{n}'
            if got[0] != 'num' or not isinstance(got[1], float):
                violate('not-a-number', i, op, 'a number', got)
                break
            val = got[1]
            # bounded
            over = {t: len(v) for t, v in calls.items() if len(v) > iterations}
            if over:
                violate('too-many-passes', i, op, f'<= {iterations} calls per tag', over)
                break
            if tgt.startswith('B'):
                if tgt not in calls:
                    violate('no-pass-computed', i, op, f'PROBE({tgt}) called at least once',
                            {'calls': {t: len(v) for t, v in calls.items()}, 'value': val})
                    break
                if values.canon(calls[tgt][-1]) != values.canon(val):
                    violate('not-the-last-pass-value', i, op, values.jsonable(calls[tgt][-1]), got)
                    break
            elif not calls:
                violate('no-pass-computed', i, op, 'cycle cells evaluated', {'value': val})
                break
            bad = [(t, x) for t, xs in calls.items() for x in xs
                   if isinstance(x, bool) or not isinstance(x, (int, float))]
            if bad:
                # (a cell of a linear system over numbers was calculated to something else)
                violate('not-a-number', i, op, 'numbers in every pass', values.jsonable(bad[0][1]),
                        probe=bad[0][0])
                break
            if passes < iterations:
                # stopped early: nothing moved by more than the tolerance in the last pass
                state['nontrivial'] = True
                count('probe:stopped-before-pass-limit')
                for t, xs in calls.items():
                    prev = xs[-2] if len(xs) >= 2 else last.get(t)
                    if prev is None:
                        violate('stopped-without-comparison', i, op,
                                'at least two values of ' + t, {'calls': len(xs)})
                        break
                    if abs(xs[-1] - prev) > tol * (1 + 1e-5):
                        violate('stopped-while-still-moving', i, op,
                                f'|delta {t}| <= {tol}', abs(xs[-1] - prev))
                        break
                if state['violation']:
                    break
                if len(calls) == n:
                    bound = q / (1 - q) * tol * (1 + 1e-5) + 1e-9
                    if tgt.startswith('B') or tgt.startswith('D'):
                        err = abs(val - xstar[int(tgt[1:]) - 1])
                    else:
                        err = abs(val - (xstar[0] + xstar[1])) / 2
                    if cfg.get('cse_q') is not None:
                        count('probe:cycle-through-array-formula-bound-checked')
                        # x is one step behind y in this arrangement
                        bound = bound / max(q, 1e-9) + tol
                    count('probe:fixed-point-bound-checked')
                    if err > bound:
                        violate('outside-fixed-point-bound', i, op,
                                f'|x - x*| <= {bound:.3g} (q={q:.3f}, tol={tol:.3g})', err)
                        break
            else:
                count('probe:stopped-at-pass-limit')
            for t, xs in calls.items():
                last[t] = xs[-1]
        return 'done'

    with TmpDir() as tmp:
        driver = Driver(tmp, inline=True)
        on_fresh_thread(body, driver, name='sut-0')
    v = state['violation']
    if v:
        rows = '+'.join(sorted({r['kind'] for r in cfg['rows']}))
        first = v['step'] == next((i for i, o in enumerate(ops) if o['op'] == 'eval'), -1)
        after_set = any(o['op'] == 'set' for o in ops[:max(v['step'], 0)])
        where = 'first-eval' if first else ('after-set' if after_set else 'later-eval')
        tgt = 'cycle-cell' if v['op'].get('a', 'S!B')[2:].startswith('B') else 'dependant'
        if v['rule'] == 'exception':
            v['tag'] = f'B/exception/{v.get("exc")}/{cfg.get("origin")}'
        else:
            v['tag'] = f'B/{v["rule"]}/{rows}/{where}/{tgt}/{cfg.get("origin")}'
    digest = hashlib.sha256(json.dumps(events, default=str).encode()).hexdigest()[:16]
    sig = hashlib.sha256(repr((cfg['n'], cfg['iter'], sig_items)).encode()).hexdigest()[:16]
    return {'violation': v, 'digest': digest, 'sig': sig, 'nontrivial': state['nontrivial'],
            'counts': counts,
            'sample': {'workload': 'B (contracting circular block)', 'n': n, 'q': round(q, 3),
                       'iter': cfg['iter'], 'rows': [r['kind'] for r in cfg['rows']],
                       'formula_B1': spec['cells'][n]['f'],
                       'ops': [c01._short(o) + (f" it={o.get('iterations')}" if o.get('iterations') else '')
                               for o in ops[:8]]}}


# ---------------------------------------------------------------------------

def gen_case(rnd, tier, index):
    if index % 2 == 0:
        return gen_case_a(rnd, tier)
    return gen_case_b(rnd, tier)


def legalise(case):
    if case['cfg'].get('workload') == 'B':
        return legalise_b(case)
    return history.legalise(case)


def shrink_moves(prop, case):
    if case['cfg'].get('workload') == 'B':
        return []
    from .. import shrink
    return shrink.spec_moves()


def run_case(case):
    if case['cfg'].get('workload') == 'B':
        return run_case_b(case)
    return run_case_a(case)
