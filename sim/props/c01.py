"""C01 lazy cache coherence: no stale value after any set_value/evaluate history."""
import random

from .. import history, values, wbgen

ID = 'C01'
LEVEL = 'exploration'
RULE = ('seeded histories of evaluate / set_value / restart on generated acyclic workbooks '
        '(5 model origins), every read compared with a from-scratch compile of the same '
        'workbook with the current inputs; a run is non-trivial when some read returns a '
        'value that had to change because of an earlier write (or is the first read of a '
        'cell after a write to one of its precedents); distinct = distinct digests of '
        '(origin, abstract operation sequence, trajectory of which model nodes exist and '
        'hold a cached value)')
COMPONENTS = {
    'real': ['pycel (ExcelCompiler, ExcelFormula, excelwrapper, excellib) from the working tree',
             'openpyxl reader and in-memory workbooks', 'ruamel.yaml / json / pickle',
             'networkx', 'numpy', 'CPython threads + thread-locals', 'file system (tmp dir per run)'],
    'stub': ['xlsx writer (sim/wbgen.to_xlsx) that stores <f> and <v> together',
             'operation generator and driver', 'reference-model driver (its arithmetic is pycel\'s)'],
}
ASSUMPTIONS = [
    'the reference model (fresh ExcelCompiler on a fresh in-memory workbook with the current '
    'inputs, each address evaluated once) shares pycel\'s arithmetic: a wrong pure function is '
    'invisible here by design',
    'workbooks are small (<= ~30 cells) and acyclic by construction; formulas use written '
    'references only',
    'set_value targets are constant or blank cells; text beginning with "=" is not written '
    '(C03), formula cells are not overwritten (C09)',
    'steps for which the reference itself raises are skipped and counted',
]


def budget(tier):
    if tier == 'quick':
        return dict(runs=4000, recheck=16, shrink_tests=300)
    return dict(runs=150000, recheck=48, shrink_tests=500)


WRITE_POOL = (0, 1, 2, 3, -1, 7, 0.5, -2.25, 10, 'txt', 'q', '7', '', 'Abc', "'q", True, False, None,
              None, 100, 1.5)


def draw_write(rnd, old, pool=None):
    """values written by set_value, with deliberate collisions"""
    if pool and rnd.random() < 0.75:
        return rnd.choice(pool)      # (a cell whose meaningful values are few: a lookup key)
    roll = rnd.random()
    if roll < 0.10:
        return None
    if roll < 0.22 and old is not None:
        # equal value of another type: 0/FALSE, 1/TRUE, '7'/7
        if isinstance(old, bool):
            return int(old)
        if old in (0, 1):
            return bool(old)
        if isinstance(old, (int, float)):
            return repr(old) if rnd.random() < 0.5 else old
        if isinstance(old, str):
            try:
                return float(old)
            except ValueError:
                return old
    if roll < 0.27:
        return old       # same value again
    if roll < 0.33 and isinstance(old, (int, float)) and not isinstance(old, bool):
        # a number that differs from the old one only in the last digits
        return rnd.choice((old + 1e-9, old * (1 + 1e-7) if old else 1e-9, old - 1e-12,
                           old + 1 if abs(old) >= 1e6 else old * (1 + 1e-12) if old else 1e-9))
    if roll < 0.40:
        return round(rnd.uniform(-9, 9), 2)
    return rnd.choice(WRITE_POOL)


EVAL_FORMS = ('cell', 'cell', 'cell', 'cell', 'range', 'range', 'list', 'tuple', 'gen', 'nested',
              'nosheet', 'obj')


def gen_ops(rnd, spec, cfg, n_ops, restart_rate=0.05, set_rate=0.4, allow_restart=True,
            where_pool=('same', 'thread')):
    dag = wbgen.Dag(spec)
    st = history.Static({'spec': spec, 'cfg': cfg})
    universe = history.initial_universe(st)
    has_wb = cfg.get('origin', 'nodata') not in history.SERIAL
    touched = set(history._expand(st, cfg.get('pre', []))) if not has_wb else set()
    touched_ranges = set()
    cur = {}
    ops = []
    restarts = 0
    consts = [a for a in dag.constants() if a not in st.pinned]
    while len(ops) < n_ops:
        roll = rnd.random()
        if allow_restart and roll < restart_rate and restarts < 3 and touched:
            fmt = rnd.choice(history.SERIAL)
            op = {'op': 'restart', 'fmt': fmt, 'where': rnd.choice(where_pool)}
            universe &= dag.closure(touched)
            has_wb = False
            restarts += 1
            ops.append(op)
            continue
        if roll < restart_rate + set_rate:
            cand = [a for a in consts if a in universe]
            if not cand:
                continue
            # bias: inputs that have dependants
            a = rnd.choice(cand)
            if not dag.deps.get(a) and rnd.random() < 0.6:
                a = rnd.choice(cand)
            old = cur.get(a, dag.cell[a].get('v'))
            v = draw_write(rnd, old, dag.cell[a].get('w'))
            cur[a] = v
            op = {'op': 'set', 'a': a, 'v': v}
        else:
            form = rnd.choice(EVAL_FORMS)
            cand = [a for a in dag.order if a in universe]
            if not cand:
                break
            if form == 'range':
                rng = draw_range(rnd, st, universe, has_wb, touched_ranges)
                if rng is None:
                    form = 'cell'
                else:
                    op = {'op': 'eval', 'form': 'range', 'rng': rng}
                    touched_ranges.add(rng)
            if form != 'range':
                # bias towards formula cells
                a = rnd.choice(cand)
                if not wbgen.is_formula_cell(dag.cell[a]) and rnd.random() < 0.7:
                    a = rnd.choice(cand)
                if form == 'nosheet' and (not has_wb or wbgen.split_addr(a)[0] != spec['active']):
                    form = 'cell'
                op = {'op': 'eval', 'a': a, 'form': form}
        touched |= st.touch_set(op)
        ops.append(op)
    return ops


def draw_range(rnd, st, universe, has_wb, touched_ranges):
    """an enclosing range all of whose cells exist and may be touched"""
    spec = st.spec
    roll = rnd.random()
    if spec.get('data_sheet') and roll < 0.2:
        ds = spec['data_sheet']
        members = [a for a in st.dag.order if wbgen.split_addr(a)[0] == ds]
        rows = max(wbgen.coord_rc(wbgen.split_addr(a)[1])[0] for a in members)
        cols = max(wbgen.coord_rc(wbgen.split_addr(a)[1])[1] for a in members)
        if rnd.random() < 0.5:
            c = wbgen.rc_coord(1, rnd.randint(1, cols))[:-1]
            rng = f'{ds}!{c}:{c}'
        else:
            r = rnd.randint(1, rows)
            rng = f'{ds}!{r}:{r}'
        if (has_wb or rng in touched_ranges) and set(st.range_members(rng)) <= universe:
            return rng
        return None
    cand = [a for a in st.dag.order if a in universe]
    for _ in range(6):
        a = rnd.choice(cand)
        sheet, coord = wbgen.split_addr(a)
        r, c = wbgen.coord_rc(coord)
        r1 = max(1, r - rnd.randint(0, 2))
        c1 = max(1, c - rnd.randint(0, 2))
        if (r1, c1) == (r, c):
            continue
        rng = f'{sheet}!{wbgen.rc_coord(r1, c1)}:{wbgen.rc_coord(r, c)}'
        members = wbgen.flat_range(rng)
        if all(m in st.all and m in universe for m in members):
            return rng
    return None


def draw_cfg(rnd, spec, tier):
    dag = wbgen.Dag(spec)
    origin = rnd.choice(('nodata', 'nodata', 'nodata', 'xlsx', 'xlsx', 'yml', 'json', 'pkl'))
    cfg = {'origin': origin}
    if origin in history.SERIAL:
        roll = rnd.random()
        if roll < 0.5:
            pre = list(dag.order)
        else:
            k = rnd.randint(1, max(1, len(dag.order)))
            pre = rnd.sample(dag.order, k)
        cfg['pre'] = pre
        cfg['where'] = rnd.choice(('same', 'thread'))
    return cfg


def gen_case(rnd, tier, index):
    knobs = wbgen.draw_knobs(rnd)
    knobs['gadget'] = 0.1
    spec = wbgen.generate(rnd, knobs)
    if rnd.random() < 0.1:
        wbgen.add_numpy_gadget(rnd, spec)     # cells that hold numpy scalars
    if rnd.random() < 0.04:
        wbgen.add_big_range_gadget(rnd, spec)     # a range of > 1000 cells, nearly all blank
    if rnd.random() < 0.08:
        wbgen.add_lookup_gadget(rnd, spec)        # whole-column lookups, look-alike tables
    if rnd.random() < 0.06:
        wbgen.add_branch_gadget(rnd, spec)        # IF / CHOOSE / IFERROR over branch cells
    if rnd.random() < 0.05:
        wbgen.add_alias_gadget(rnd, spec)
    if rnd.random() < 0.06:
        wbgen.add_nested_array_gadget(rnd, spec)   # array over an intersection over an array
    if rnd.random() < 0.08:
        wbgen.add_compare_gadget(rnd, spec)       # operators over ranges of 1 / TRUE / 0 / FALSE
    cfg = draw_cfg(rnd, spec, tier)
    if cfg.get('origin') != 'xlsx' and rnd.random() < 0.12:
        wbgen.add_table_gadget(rnd, spec)     # structured references
    n_ops = rnd.choice((3, 5, 8, 12, 20, 30))
    ops = gen_ops(rnd, spec, cfg, n_ops,
                  restart_rate=rnd.choice((0, 0, 0.03, 0.08)),
                  set_rate=rnd.choice((0.25, 0.4, 0.55)))
    # restart-fresh-process: ~1.5 % of the runs hand the rest of the history to a brand-new
    # interpreter (0.7 s each)
    restarts = [o for o in ops if o['op'] == 'restart']
    if restarts and rnd.random() < (0.12 if tier == 'quick' else 0.2):
        rnd.choice(restarts)['where'] = 'process'
    case = {'spec': spec, 'cfg': cfg, 'ops': ops}
    return history.legalise(case)


legalise = history.legalise


def check_eval(run, i, op, target, expected, out):
    if 'exc' in out:
        run.violate('exception', i, op, values.jsonable(expected), out, exc=out['exc'])
        return
    if values.canon(expected) != _canon_json(out['v']):
        run.violate('stale-read', i, op, values.jsonable(expected), out['v'])


def _canon_json(j):
    if j[0] == 'arr':
        return ('arr', tuple(_canon_json(x) for x in j[1]))
    return tuple(j)


def make_tag(run):
    v = run.violation
    if v is None:
        return None
    op = v['op']
    target = op.get('rng') if op.get('form') == 'range' else op.get('a')
    oc = history.origin_class(run.cfg.get('origin', 'nodata'))
    if v['rule'] == 'exception':
        where = op.get('op')
        return f'exception/{v.get("exc")}/{where}/{oc}'
    w = run.relevant_write(_failing_member(run, v, target)) if target else None
    wk = w[2] if w else 'no-write'
    restarted = any(o['op'] == 'restart' for o in run.case.get('ops', [])[:v['step']])
    if restarted:
        oc = 'serialized'
    return f'stale-read/{wk}/{oc}'


def _failing_member(run, v, target):
    """for a range read: the address of the first element that differs"""
    if ':' not in target:
        return target
    try:
        exp, got = v['expected'], v['got']
        rows = history.wbgen.range_cells(target) if not history._unbounded(target) else None
        if rows is None or exp[0] != 'arr' or got[0] != 'arr':
            return target
        flat_e = _flat(exp)
        flat_g = _flat(got)
        flat_a = [a for row in rows for a in row]
        if len(flat_e) == len(flat_g) == len(flat_a):
            for a, e, g in zip(flat_a, flat_e, flat_g):
                if e != g:
                    return a
    except Exception:
        pass
    return target


def _flat(j):
    if j[0] == 'arr':
        out = []
        for x in j[1]:
            out.extend(_flat(x))
        return out
    return [j]


def run_case(case):
    run = history.HistoryRun(case)
    res = run.run(check_eval)
    if res['violation']:
        res['violation']['tag'] = make_tag(run)
    res['sample'] = {
        'origin': case.get('cfg', {}).get('origin'),
        'cells': len(case['spec']['cells']),
        'ops': [_short(o) for o in case.get('ops', [])[:12]],
    }
    return res


def _short(op):
    if op['op'] == 'eval':
        return f"eval[{op.get('form', 'cell')}] {op.get('rng') or op.get('a')}"
    if op['op'] == 'set':
        return f"set {op['a']} := {values.show(op['v'])}"
    if op['op'] == 'restart':
        return f"restart {op['fmt']}/{op.get('where')}"
    return op['op']
