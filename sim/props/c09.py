"""C09 a failed evaluation does not corrupt the model (fault enumeration)."""
import copy
import hashlib
import json
import random

import numpy as np

from .. import core, history, plugin, values, wbgen
from ..refmodel import InlineActor, Reference, RefError, on_fresh_thread
from ..world import Driver, TmpDir
from . import c01, c06

ID = 'C09'
LEVEL = 'fault_enumeration'
SITES = 8
RULE = ('fault enumeration: for each generated workbook every formula cell in turn (run index '
        'mod %d enumerates the sites of one workbook) is made the failing cell F - wrapped in '
        'BOOM("F", .) that raises on its k-th call once or until disarmed, or calling an unknown '
        'function - in plain and iterative mode, no stored results or xlsx; history = warm-up '
        'reads, arm, reads of F / dependants / unrelated cells and input writes, a repair '
        '(disarm, transient fault expires, or F overwritten with a constant), follow-up reads '
        'and writes, final sweep. Rules: an exception is allowed only on a read of F or a '
        'dependant, only while the fault fires in that very read, and must be a PyCelException; '
        'every value returned must equal the reference (BOOM as identity; after overwrite F as '
        'constant). Workload "cycle" puts the fault inside a contracting circular block in '
        'iterative mode and uses the C06 bound after repair. non-trivial = the fault fired and '
        'a later read of a dependant returned a value; distinct = distinct (workbook, site, '
        'position class, fault plan, operation sequence) digests' % SITES)
COMPONENTS = dict(c01.COMPONENTS)
COMPONENTS['stub'] = COMPONENTS['stub'] + [
    'BOOM plugin function (fault point), loaded through pycel\'s plugins= seam']
ASSUMPTIONS = [
    'the fault is injected through a plugin function (the library\'s own extension seam) or an '
    'unknown function name; pycel maps NameError to UnknownFunction and other exceptions to '
    'FormulaEvalError',
    '"depends on F" is decided by the harness DAG including cells F is only named by (ROW/COLUMN)',
    'after F is overwritten with a constant its ancestors are not written (pycel keeps the '
    'formula object by design)',
    'reference = plain fresh compile of the workbook without the fault',
]

EXCS = ('RuntimeError', 'ValueError', 'TypeError', 'KeyError', 'NameError', 'ZeroDivisionError')


def budget(tier):
    if tier == 'quick':
        return dict(runs=SITES * 400, recheck=16, shrink_tests=300)
    return dict(runs=SITES * 12000, recheck=48, shrink_tests=500)


# ---------------------------------------------------------------------------

def wrap_spec(spec, site, kind):
    """the workbook the system under test sees: F's formula carries the fault point"""
    spec = copy.deepcopy(spec)
    block = None
    for c in spec['cells']:
        if c['a'] == site:
            block = c.get('cse')
    for c in spec['cells']:
        if c['a'] == site or (block and c.get('cse') == block):
            body = c['f'][1:]
            if kind == 'unknown':
                c['f'] = f'=NOSUCHFUNCTION({body})'
            else:
                c['f'] = f'=BOOM("F",{body})'
    return spec


def add_extras(rnd, spec, site):
    """dependants of F that exercise particular clean-up paths"""
    dag = wbgen.Dag(spec)
    sheet, coord = wbgen.split_addr(site)
    fref = wbgen.quote_sheet(sheet) + '!' + coord
    main = next(s for s in spec['sheets'] if s != spec.get('data_sheet'))
    forms = [
        ('={f}+0', []),
        ('=("ab"+1)+{f}', []),            # an operator captures #VALUE! first, then F raises
        ('=IF({f}>0,1,2)', []),
        ('={f}&"x"', []),
        ('=(1/0)+{f}', []),
        # functions that look at errors: what fails behind them still fails
        ('=IFERROR({f},-1)', []),
        ('=IFERROR(SUM({f},1),0)+1', []),
        ('=IF(ISERROR({f}),5,{f})', []),
        ('=IFNA({f},7)', []),
    ]
    row = 30
    consts = [a for a in dag.constants() if a not in spec.get('pinned', ())]
    picked = rnd.sample(forms, rnd.randint(1, 3))
    for k, (tmpl, _) in enumerate(picked):
        a = f'{main}!{wbgen.rc_coord(row, k + 1)}'
        spec['cells'].append({'a': a, 'f': tmpl.format(f=fref), 'p': [site], 'd': [],
                              'extra': True})
    if rnd.random() < 0.35 and '(' not in sheet and '(' not in main:
        # (pycel emits broken code for OFFSET(<reference on a sheet with parentheses>): C11)
        # a formula whose result is a *reference* to F (followed after the formula itself has
        # been calculated), and a dependant of it
        a = f'{main}!{wbgen.rc_coord(row + 2, 1)}'
        b = f'{main}!{wbgen.rc_coord(row + 2, 2)}'
        spec['cells'].append({'a': a, 'f': f'=OFFSET({fref},0,0)', 'p': [site], 'd': [],
                              'extra': True})
        spec['cells'].append({'a': b, 'f': f'={wbgen.rc_coord(row + 2, 1)}+1', 'p': [a], 'd': [],
                              'extra': True})
    if sheet == spec.get('data_sheet') and rnd.random() < 0.8:
        # F stands inside whole-column / whole-row ranges: a reader of its column
        r_, c_ = wbgen.coord_rc(coord)
        col = wbgen.rc_coord(1, c_)[:-1]
        members = [x for x in dag.order if wbgen.split_addr(x)[0] == sheet and
                   wbgen.coord_rc(wbgen.split_addr(x)[1])[1] == c_]
        a = f'{main}!{wbgen.rc_coord(row + 3, 1)}'
        spec['cells'].append({'a': a, 'f': f'=SUM({wbgen.quote_sheet(sheet)}!{col}:{col})+1',
                              'p': members, 'd': [], 'extra': True})
    if consts and rnd.random() < 0.6:
        # a range that contains F's value next to constants: =SUM(F, const range)
        c = rnd.choice(consts)
        cs, cc = wbgen.split_addr(c)
        a = f'{main}!{wbgen.rc_coord(row + 1, 1)}'
        spec['cells'].append({'a': a, 'f': f'=SUM({fref},{wbgen.quote_sheet(cs)}!{cc})*2',
                              'p': [site, c], 'd': [], 'extra': True})
    return spec


def position_class(dag, site):
    c = dag.cell[site]
    cls = []
    if 'cse' in c:
        cls.append('cse')
    if not any(wbgen.is_formula_cell(dag.cell[p]) for p in dag.prec[site] if p in dag.cell):
        cls.append('leaf')
    elif dag.deps.get(site):
        cls.append('mid-chain')
    else:
        cls.append('top')
    for d in dag.deps.get(site, ()):
        f = dag.cell[d].get('f', '')
        if any(agg + '(' in f for agg in wbgen.AGGS) and ':' in f:
            cls.append('in-range')
            break
    for d in dag.deps.get(site, ()):
        if '"ab"+1' in dag.cell[d].get('f', '') or '1/0' in dag.cell[d].get('f', ''):
            cls.append('under-error-capturing-operator')
            break
    return cls


def gen_case(rnd, tier, index):
    group = index // SITES
    wrnd = random.Random(core.run_seed('C09/workbook', group))
    if group % 5 == 4:
        return gen_cycle_case(rnd, wrnd, index)
    knobs = wbgen.draw_knobs(wrnd)
    spec = wbgen.generate(wrnd, knobs)
    dag = wbgen.Dag(spec)
    formulas = []
    seen_blocks = set()
    for a in dag.formulas():
        b = dag.cell[a].get('cse')
        if b:
            if b in seen_blocks:
                continue
            seen_blocks.add(b)
        formulas.append(a)
    if not formulas:
        return {'spec': spec, 'cfg': {'workload': 'acyclic', 'site': None}, 'ops': []}
    site = formulas[(index % SITES) % len(formulas)]
    # cells that some formula only names (an operand of an intersection outside the part that
    # is read, a ROW()/COLUMN() argument): they fail in the evaluation of a range nobody reads
    named_only = [a for a in formulas if 'cse' not in dag.cell[a] and any(
        a in dag.cell[f].get('d', ()) and a not in dag.cell[f].get('p', ()) for f in formulas)]
    if named_only and rnd.random() < 0.2:
        site = rnd.choice(named_only)
    empties = [a for a in formulas if ':' in dag.cell[a]['f'] and '(' not in dag.cell[a]['f']
               and 'cse' not in dag.cell[a]]
    if empties and rnd.random() < 0.3:
        site = rnd.choice(empties)      # =A1:A3: evaluates to its (possibly empty) top left cell
    elif rnd.random() < 0.12:
        # a failing cell whose result is an empty reference: "calculated, but nothing there"
        main = next(s_ for s_ in spec['sheets'] if s_ != spec.get('data_sheet'))
        spec['cells'].append({'a': f'{main}!A35', 'v': None})
        spec['cells'].append({'a': f'{main}!A36', 'v': rnd.choice((2, 0.5, 'txt'))})
        site = f'{main}!B35'
        spec['cells'].append({'a': site, 'f': '=A35:A36', 'p': [f'{main}!A35'],
                              'd': [f'{main}!A36']})
    mode = wrnd.choice(('plain', 'plain', 'iterative'))
    confirm_kf1 = group % 40 == 2
    if confirm_kf1:
        mode = 'iterative'
    origin = wrnd.choice(('nodata', 'nodata', 'nodata', 'xlsx'))
    kind = rnd.choice(('boom', 'boom', 'boom', 'boom', 'unknown'))
    if mode == 'iterative':
        spec['iter'] = [wrnd.choice((1, 5, 100)), wrnd.choice((0.01, 0.001))]
    spec = add_extras(rnd, spec, site)
    dag = wbgen.Dag(spec)
    cfg = {'workload': 'acyclic', 'site': site, 'kind': kind, 'mode': mode, 'origin': origin,
           'group': group, 'position': position_class(dag, site)}
    block = dag.cell[site].get('cse')
    fcells = [a for a in dag.order if a == site or (block and dag.cell[a].get('cse') == block)]
    desc = set()
    for f in fcells:
        desc |= dag.descendants(f)
    related = fcells + sorted(desc)
    unrelated = [a for a in dag.order if a not in related]
    anc = set()
    for f in fcells:
        anc |= dag.ancestors(f, declared=True)
    consts = [a for a in dag.constants() if a not in spec.get('pinned', ())]
    cur = {}
    ops = []

    def ev(pool):
        a = rnd.choice(pool)
        form = rnd.choice(('cell', 'cell', 'cell', 'list', 'tuple'))
        return {'op': 'eval', 'a': a, 'form': form}

    def st(pool):
        a = rnd.choice(pool)
        v = c01.draw_write(rnd, cur.get(a, dag.cell[a].get('v')), dag.cell[a].get('w'))
        cur[a] = v
        return {'op': 'set', 'a': a, 'v': v}

    for _ in range(rnd.choice((0, 1, 3, 5))):
        ops.append(ev(dag.order))
    if kind == 'boom':
        persistent = rnd.random() < 0.6
        ops.append({'op': 'arm', 'exc': rnd.choice(EXCS), 'at': rnd.choice((1, 1, 1, 2, 3)),
                    'persistent': persistent})
    for _ in range(rnd.choice((3, 5, 8))):
        roll = rnd.random()
        if roll < 0.25 and consts:
            ops.append(st(consts))
        elif roll < 0.7:
            ops.append(ev(related))
        elif unrelated:
            ops.append(ev(unrelated))
        else:
            ops.append(ev(dag.order))
        if rnd.random() < 0.06:
            ops.append({'op': 'recalc'})      # recalculate() of everything known, fault or not
        elif origin == 'xlsx' and mode == 'plain' and rnd.random() < 0.08:
            ops.append({'op': 'validate'})    # validate_calcs(): swallows what fails
    repair = rnd.choice(('disarm', 'overwrite', 'expire') if kind == 'boom' else ('overwrite',))
    if confirm_kf1:
        repair = 'overwrite'
    if mode == 'iterative' and repair == 'overwrite' and not confirm_kf1:
        # known finding KF1: in iterative mode set_value over a formula cell only seeds the
        # iteration, the formula is calculated again by every evaluate.  Most runs avoid the
        # trigger (so it can neither end runs early nor mask something else); the workbooks
        # with group % 40 == 2 re-confirm it.
        repair = 'disarm' if kind == 'boom' else 'none'
    if repair == 'disarm':
        ops.append({'op': 'disarm'})
    elif repair == 'none':
        ops.append({'op': 'end-faulty'})
    elif repair == 'overwrite':
        if block:
            # a member of an array formula cannot be overwritten on its own; overwrite is
            # replaced by disarm (boom) / nothing (unknown: the run ends with the fault)
            ops.append({'op': 'disarm'} if kind == 'boom' else {'op': 'end-faulty'})
            repair = 'disarm' if kind == 'boom' else 'none'
        else:
            ops.append({'op': 'overwrite', 'a': site,
                        'v': rnd.choice((0, 1, 7, -2.5, 'txt', True, 12.75))})
    after_consts = [a for a in consts if not (repair == 'overwrite' and a in anc)]
    for _ in range(rnd.choice((3, 5, 8))):
        roll = rnd.random()
        if roll < 0.25 and after_consts:
            ops.append(st(after_consts))
        elif roll < 0.7:
            ops.append(ev(related))
        else:
            ops.append(ev(dag.order))
    if kind == 'boom' and repair == 'expire':
        ops.append({'op': 'disarm'})
    cfg['repair'] = repair
    return {'spec': spec, 'cfg': cfg, 'ops': ops}


def legalise(case):
    cfg = case.get('cfg', {})
    if cfg.get('workload') == 'cycle':
        return legalise_cycle(case)
    st = history.Static(case)
    site = cfg.get('site')
    if site not in st.all or not wbgen.is_formula_cell(st.dag.cell[site]):
        case['ops'] = []
        return case
    anc = st.dag.ancestors(site, declared=True)
    ops = []
    overwritten = False
    for op in case.get('ops', []):
        k = op['op']
        if k == 'eval' and op['a'] not in st.all:
            continue
        if k == 'set':
            if op['a'] not in st.all or wbgen.is_formula_cell(st.dag.cell[op['a']]):
                continue
            if overwritten and op['a'] in anc:
                continue
        if k == 'overwrite':
            if 'cse' in st.dag.cell[site]:
                continue
            overwritten = True
        if k == 'arm' and cfg.get('kind') != 'boom':
            continue
        ops.append(op)
    case['ops'] = ops
    return case


def run_case(case):
    cfg = case.get('cfg', {})
    if cfg.get('workload') == 'cycle':
        return run_cycle_case(case)
    spec = case['spec']
    site = cfg.get('site')
    ops = case.get('ops', [])
    if site is None:
        return {'violation': None, 'digest': 'empty', 'sig': 'empty', 'nontrivial': False,
                'counts': {'skipped-no-formula': 1}, 'sample': None}
    kind = cfg.get('kind', 'boom')
    dag = wbgen.Dag(spec)
    block = dag.cell[site].get('cse')
    fcells = [a for a in dag.order if a == site or (block and dag.cell[a].get('cse') == block)]
    affected = set(fcells)
    for f in fcells:
        affected |= dag.descendants(f)
        # cells that only name F (ROW/COLUMN) are built with it, be lenient
    for a in dag.order:
        if set(dag.decl.get(a, ())) & affected:
            affected.add(a)
    for _ in range(3):
        for a in dag.order:
            if set(dag.decl.get(a, ())) & affected:
                affected.add(a)
    counts = {}
    events = []
    sig_items = []
    state = {'violation': None, 'nontrivial': False}

    def count(k, c=1):
        counts[k] = counts.get(k, 0) + c

    def violate(rule, step, op, expected_, got, **extra):
        if state['violation'] is None:
            state['violation'] = dict(rule=rule, step=step, op=op, expected=expected_,
                                      got=got, **extra)

    def plan():
        ref = Reference(spec, actor=InlineActor())
        expected = {}
        overrides = {}
        for i, op in enumerate(ops):
            if op['op'] == 'eval':
                try:
                    expected[i] = ('ok', ref.value(op['a'], overrides))
                except RefError as exc:
                    expected[i] = ('err', str(exc)[:80])
            elif op['op'] in ('set', 'overwrite'):
                overrides = dict(overrides)
                overrides[op['a']] = op['v']
        sweep = []
        for a in dag.order:
            try:
                sweep.append((a, ('ok', ref.value(a, overrides))))
            except RefError as exc:
                sweep.append((a, ('err', str(exc)[:80])))
        stored = {}
        if cfg.get('origin') == 'xlsx':
            for a in dag.formulas():
                try:
                    stored[a] = ref.value(a, {})
                except RefError:
                    pass
        return expected, sweep, stored

    expected, sweep, stored = on_fresh_thread(plan, name='ref')
    sut_spec = wrap_spec(spec, site, kind)
    for cls in cfg.get('position', []):
        count('probe:site-' + cls)
    count('mode:' + cfg.get('mode', 'plain'))
    count('kind:' + kind)

    def body(driver):
        plugin.reset()
        count('origin:' + cfg.get('origin', 'nodata'))
        if cfg.get('origin') == 'xlsx':
            driver.build_xlsx(sut_spec, stored)
        else:
            driver.build_nodata(sut_spec)
        phase = {'armed': False, 'overwritten': False, 'fired_any': False, 'faulty_end': False}

        def do_eval(i, op, exp):
            kind_e, ev = exp
            if kind_e == 'err':
                count('probe:ref-raised-step-skipped')
                return
            fired0 = plugin.STATE['fired']
            out = driver.step(op)
            fired = plugin.STATE['fired'] - fired0
            count('evals')
            if fired:
                count('fault:plugin-raise', fired)
                phase['fired_any'] = True
            a = op['a']
            events.append((i, 'eval', a, out.get('v'), out.get('exc'), fired,
                           history.cache_digest(driver.model)))
            sig_items.append(('e', a in affected, 'exc' if 'exc' in out else 'v', fired))
            if 'exc' in out:
                if kind == 'unknown':
                    fault_live = not phase['overwritten']
                    if fault_live:
                        count('fault:unknown-function')
                else:
                    fault_live = fired > 0
                if not fault_live:
                    violate('exception-without-fault', i, op, values.jsonable(ev), out,
                            exc=out['exc'])
                elif a not in affected:
                    violate('unrelated-cell-raised', i, op, values.jsonable(ev), out,
                            exc=out['exc'])
                elif not out.get('pycel'):
                    violate('bare-internal-exception', i, op, 'a PyCelException', out,
                            exc=out['exc'])
                else:
                    count('probe:allowed-pycel-exception')
            else:
                if values.canon(ev) != c01._canon_json(out['v']):
                    rule = 'wrong-value-unrelated' if a not in affected else (
                        'wrong-value-after-repair' if (phase['overwritten'] or (
                            not phase['armed'] and phase['fired_any'])) else 'wrong-value')
                    violate(rule, i, op, values.jsonable(ev), out['v'])
                elif phase['fired_any'] and a in affected:
                    state['nontrivial'] = True
                    count('probe:dependant-value-correct-after-a-failure')

        for i, op in enumerate(ops):
            if state['violation']:
                break
            k = op['op']
            count('ops')
            if k == 'eval':
                do_eval(i, op, expected[i])
            elif k == 'set' or k == 'overwrite':
                out = driver.step(dict(op, op='set'))
                events.append((i, k, op['a'], values.jsonable(op['v']), out.get('exc')))
                sig_items.append((k[0],))
                if k == 'overwrite':
                    phase['overwritten'] = True
                    count('probe:repair-overwrite')
                if 'exc' in out:
                    violate('exception-in-set_value', i, op, 'set_value works', out,
                            exc=out['exc'])
            elif k == 'recalc':
                fired0 = plugin.STATE['fired']
                out = driver.step(op)
                fired = plugin.STATE['fired'] - fired0
                count('recalculate-calls')
                if fired:
                    count('fault:plugin-raise', fired)
                    phase['fired_any'] = True
                events.append((i, 'recalc', out.get('exc'), fired))
                sig_items.append(('recalc', 'exc' if 'exc' in out else 'ok'))
                if 'exc' in out:
                    live = fired > 0 if kind != 'unknown' else not phase['overwritten']
                    if not live:
                        violate('exception-without-fault', i, op, 'recalculate works', out,
                                exc=out['exc'])
                    elif not out.get('pycel'):
                        violate('bare-internal-exception', i, op, 'a PyCelException', out,
                                exc=out['exc'])
                    else:
                        count('probe:recalculate-failed-under-fault')
            elif k == 'validate':
                fired0 = plugin.STATE['fired']
                out = driver.step(op)
                fired = plugin.STATE['fired'] - fired0
                count('validate_calcs-calls')
                if fired:
                    count('fault:plugin-raise', fired)
                    phase['fired_any'] = True
                    count('probe:validate_calcs-swallowed-a-failure')
                events.append((i, 'validate', out.get('exc'), fired))
                sig_items.append(('validate', 'exc' if 'exc' in out else 'ok', fired > 0))
                if 'exc' in out:
                    violate('exception-in-validate_calcs', i, op, 'validate_calcs returns a report',
                            out, exc=out['exc'])
            elif k == 'arm':
                plugin.arm('F', exc=op['exc'], at=op['at'], persistent=op['persistent'])
                phase['armed'] = True
                sig_items.append(('arm', op['at'], op['persistent']))
                count('probe:armed-persistent' if op['persistent'] else 'probe:armed-once')
            elif k == 'disarm':
                plugin.disarm()
                phase['armed'] = False
                sig_items.append(('disarm',))
                count('probe:repair-disarm')
            elif k == 'end-faulty':
                phase['faulty_end'] = True
        if not state['violation']:
            plugin.disarm()
            phase['armed'] = False
            for a, exp in sweep:
                if state['violation']:
                    break
                if kind == 'unknown' and not phase['overwritten'] and a in affected:
                    continue
                do_eval(len(ops), {'op': 'eval', 'a': a, 'form': 'cell', 'sweep': True}, exp)
        return 'done'

    with TmpDir() as tmp:
        driver = Driver(tmp, inline=True)
        on_fresh_thread(body, driver, name='sut-0')
    v = state['violation']
    if v:
        pos = '+'.join(p for p in cfg.get('position', []) if p in ('cse', 'under-error-capturing-operator'))
        v['tag'] = f'{v["rule"]}/{v.get("exc", "-")}/{cfg.get("mode")}/{kind}/{pos or "plain-site"}'
        overwritten_before = any(o['op'] == 'overwrite' for o in ops[:max(v['step'], 0)])
        if (cfg.get('mode') == 'iterative' and overwritten_before and
                v['op'].get('a') in affected and v['rule'] in (
                    'exception-without-fault', 'wrong-value-after-repair')):
            v['tag'] = 'overwrite-ignored/iterative'
    digest = hashlib.sha256(json.dumps(events, default=str).encode()).hexdigest()[:16]
    sig = hashlib.sha256(repr((cfg.get('group'), site, cfg.get('position'), kind, cfg.get('mode'),
                               sig_items)).encode()).hexdigest()[:16]
    return {'violation': v, 'digest': digest, 'sig': sig, 'nontrivial': state['nontrivial'],
            'counts': counts,
            'sample': {'site': site, 'position': cfg.get('position'), 'kind': kind,
                       'mode': cfg.get('mode'), 'repair': cfg.get('repair'),
                       'formula_with_fault': next(c['f'] for c in sut_spec['cells'] if c['a'] == site),
                       'ops': [_short(o) for o in ops[:14]]}}


def _short(op):
    if op['op'] == 'arm':
        return f"arm {op['exc']} at call {op['at']} {'until disarmed' if op['persistent'] else 'once'}"
    if op['op'] == 'overwrite':
        return f"overwrite {op['a']} := {values.show(op['v'])}"
    if op['op'] in ('disarm', 'end-faulty', 'recalc', 'validate'):
        return op['op']
    return c01._short(op)


# ---------------------------------------------------------------------------
# fault inside a contracting circular block (iterative mode)

def gen_cycle_case(rnd, wrnd, index):
    base = c06.gen_case_b(wrnd, 'quick')
    cfg = base['cfg']
    cfg['workload'] = 'cycle'
    cfg['origin'] = 'nodata'
    n = cfg['n']
    cfg['site'] = f'S!B{(index % SITES) % n + 1}'
    cfg['iter'] = [wrnd.choice((50, 200)), 10 ** wrnd.uniform(-6, -2)]
    # a loop of its own that has nothing to do with the failing cell and settles slowly: what
    # it returns depends on how many passes it is given
    cfg['solo'] = [round(wrnd.uniform(0.5, 0.97), 3), round(wrnd.uniform(-5, 5), 2)]
    targets = [f'S!B{i + 1}' for i in range(n)] + (['S!C1'] if cfg.get('extra') else []) + \
        ['S!E1', 'S!E1']
    ops = []
    for _ in range(rnd.choice((0, 1, 2))):
        ops.append({'op': 'eval', 'a': rnd.choice(targets), 'form': 'cell'})
    ops.append({'op': 'arm', 'exc': rnd.choice(EXCS), 'at': rnd.choice((1, 1, 2, 3, 7)),
                'persistent': rnd.random() < 0.5})
    for _ in range(rnd.choice((2, 4, 6))):
        if rnd.random() < 0.25:
            ops.append({'op': 'set', 'a': f'S!A{rnd.randrange(n) + 1}',
                        'v': round(rnd.uniform(-5, 5), 3)})
        else:
            ops.append({'op': 'eval', 'a': rnd.choice(targets), 'form': 'cell'})
    ops.append({'op': 'disarm'})
    for _ in range(rnd.choice((2, 4))):
        if rnd.random() < 0.25:
            ops.append({'op': 'set', 'a': f'S!A{rnd.randrange(n) + 1}',
                        'v': round(rnd.uniform(-5, 5), 3)})
        else:
            ops.append({'op': 'eval', 'a': rnd.choice(targets), 'form': 'cell'})
    ops.append({'op': 'eval', 'a': targets[0], 'form': 'cell'})
    return {'spec': cycle_spec(cfg), 'cfg': cfg, 'ops': ops}


def cycle_spec(cfg):
    spec = c06.spec_b(cfg)
    for c in spec['cells']:
        if c['a'] == cfg['site']:
            # PROBE("Bi", body) -> PROBE("Bi", BOOM("F", body))
            head, body = c['f'].split(',', 1)
            c['f'] = f'{head},BOOM("F",{body[:-1]}))'
    if cfg.get('solo'):
        q2, c2 = cfg['solo']
        spec['cells'].append({'a': 'S!E1', 'f': f'=PROBE("E1",{q2!r}*E1+{c2!r})'.replace('+-', '-'),
                              'p': ['S!E1'], 'd': []})
    return spec


def legalise_cycle(case):
    cfg = case['cfg']
    n = cfg['n']
    if int(cfg['site'][3:]) > n:
        cfg['site'] = 'S!B1'
    case['spec'] = cycle_spec(cfg)
    ok = {f'S!B{i + 1}' for i in range(n)} | ({'S!C1'} if cfg.get('extra') else set()) | (
        {'S!E1'} if cfg.get('solo') else set())
    case['ops'] = [o for o in case.get('ops', [])
                   if o['op'] in ('arm', 'disarm') or (o['op'] == 'eval' and o['a'] in ok) or
                   (o['op'] == 'set' and o['a'] in {f'S!A{i + 1}' for i in range(n)})]
    return case


def run_cycle_case(case):
    cfg = case['cfg']
    spec = case['spec']
    ops = case.get('ops', [])
    n = cfg['n']
    a_mat = c06.matrix(cfg)
    q = float(np.abs(a_mat).sum(axis=1).max())
    counts = {}
    events = []
    sig_items = []
    state = {'violation': None, 'nontrivial': False}

    def count(k, c=1):
        counts[k] = counts.get(k, 0) + c

    def violate(rule, step, op, expected_, got, **extra):
        if state['violation'] is None:
            state['violation'] = dict(rule=rule, step=step, op=op, expected=expected_,
                                      got=got, **extra)

    count('probe:site-inside-cycle')
    count('mode:iterative')
    count('kind:boom')

    def body(driver):
        plugin.reset()
        b = list(cfg['b'])
        driver.build_nodata(spec)
        iterations, tol = cfg['iter']
        fired_any = False
        last = {}
        for i, op in enumerate(ops):
            if state['violation']:
                break
            k = op['op']
            count('ops')
            if k == 'arm':
                plugin.arm('F', exc=op['exc'], at=op['at'], persistent=op['persistent'])
                sig_items.append(('arm', op['at'], op['persistent']))
                continue
            if k == 'disarm':
                plugin.disarm()
                sig_items.append(('disarm',))
                count('probe:repair-disarm')
                continue
            if k == 'set':
                out = driver.step(op)
                b[int(op['a'][3:]) - 1] = op['v']
                sig_items.append(('s',))
                if 'exc' in out:
                    violate('exception-in-set_value', i, op, 'set_value works', out, exc=out['exc'])
                continue
            xstar = np.linalg.solve(np.eye(n) - a_mat, np.array(b))
            fired0 = plugin.STATE['fired']
            start = len(plugin.STATE['probe_log'])
            out = driver.step(op)
            fired = plugin.STATE['fired'] - fired0
            calls = {}
            for tag, x in plugin.STATE['probe_log'][start:]:
                calls.setdefault(tag, []).append(x)
            passes = max((len(v) for v in calls.values()), default=0)
            prev_last = dict(last)
            for t, xs in calls.items():
                last[t] = xs[-1]       # (the passes of an evaluation that failed moved the cells too)
            count('evals')
            events.append((i, 'eval', op['a'], out.get('v'), out.get('exc'), fired, passes))
            sig_items.append(('e', 'exc' if 'exc' in out else 'v', fired, passes))
            if fired:
                fired_any = True
                count('fault:plugin-raise', fired)
            if 'exc' in out:
                if not fired:
                    violate('exception-without-fault', i, op, 'a value', out, exc=out['exc'])
                elif not out.get('pycel'):
                    violate('bare-internal-exception', i, op, 'a PyCelException', out,
                            exc=out['exc'])
                else:
                    count('probe:allowed-pycel-exception')
                continue
            got = out['v']
            if got[0] != 'num':
                violate('wrong-value-after-repair' if fired_any else 'wrong-value', i, op,
                        'a number', got)
                continue
            # an evaluation that worked is bounded and, when it stops before its limit, stops
            # because nothing moved by more than the tolerance - whatever failed before it
            over = {t: len(v) for t, v in calls.items() if len(v) > iterations}
            if over:
                violate('too-many-passes', i, op, f'<= {iterations} calls per tag', over)
                continue
            if any(isinstance(x, bool) or not isinstance(x, (int, float))
                   for xs in calls.values() for x in xs):
                if not fired:
                    violate('wrong-value-after-repair' if fired_any else 'wrong-value', i, op,
                            'numbers in every pass', 'a pass calculated something that is not a number')
                continue
            if 0 < passes < iterations and not fired:
                for t, xs in sorted(calls.items()):
                    prev = xs[-2] if len(xs) >= 2 else prev_last.get(t)
                    if prev is not None and abs(xs[-1] - prev) > tol * (1 + 1e-5):
                        violate('stopped-while-still-moving-after-failure' if fired_any
                                else 'stopped-while-still-moving', i, op,
                                f'|delta {t}| <= {tol} (or {iterations} passes)',
                                {'delta': abs(xs[-1] - prev), 'passes': passes})
                        break
                count('probe:early-stop-checked-against-the-tolerance')
            if state['violation']:
                continue
            if op['a'] == 'S!E1':
                if 0 < passes < iterations:
                    q2, c2 = cfg['solo']
                    err = abs(got[1] - c2 / (1 - q2))
                    bound = q2 / (1 - q2) * tol * (1 + 1e-5) + 1e-9
                    count('probe:unrelated-loop-checked')
                    if err > bound:
                        violate('unrelated-loop-outside-fixed-point-bound', i, op,
                                f'|x - x*| <= {bound:.3g}', err)
                    elif fired_any:
                        state['nontrivial'] = True
                continue
            if passes < iterations and passes > 0 and len(calls) == n:
                bound = q / (1 - q) * tol * (1 + 1e-5) + 1e-9
                tgt = op['a'][2:]
                if tgt.startswith('B'):
                    err = abs(got[1] - xstar[int(tgt[1:]) - 1])
                else:
                    err = abs(got[1] - (xstar[0] + xstar[1])) / 2
                count('probe:fixed-point-bound-checked')
                if err > bound:
                    violate('outside-fixed-point-bound-after-failure' if fired_any
                            else 'outside-fixed-point-bound', i, op,
                            f'|x - x*| <= {bound:.3g}', err)
                elif fired_any:
                    state['nontrivial'] = True
                    count('probe:dependant-value-correct-after-a-failure')
            elif passes == 0:
                violate('no-pass-computed', i, op, 'cycle cells evaluated', got)
        return 'done'

    with TmpDir() as tmp:
        driver = Driver(tmp, inline=True)
        on_fresh_thread(body, driver, name='sut-0')
    v = state['violation']
    if v:
        v['tag'] = f'cycle/{v["rule"]}/{v.get("exc", "-")}'
    digest = hashlib.sha256(json.dumps(events, default=str).encode()).hexdigest()[:16]
    sig = hashlib.sha256(repr((cfg['n'], cfg['site'], sig_items)).encode()).hexdigest()[:16]
    return {'violation': v, 'digest': digest, 'sig': sig, 'nontrivial': state['nontrivial'],
            'counts': counts,
            'sample': {'workload': 'fault inside a cycle', 'site': cfg['site'],
                       'formula_with_fault': next(c['f'] for c in spec['cells']
                                                  if c['a'] == cfg['site']),
                       'ops': [_short(o) for o in ops[:12]]}}


def shrink_moves(prop, case):
    if case['cfg'].get('workload') == 'cycle':
        return []
    from .. import shrink
    return [shrink.drop_cse_blocks, shrink.formulas_to_constants, shrink.drop_unreferenced,
            shrink.drop_names, shrink.simplify_formulas, shrink.drop_unreferenced]
