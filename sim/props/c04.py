"""C04 declared precedents cover every cell a formula actually reads."""
import networkx as nx

import hashlib
import json

from .. import history, plugin, seams, values, wbgen
from . import c01

ID = 'C04'
LEVEL = 'exploration'
RULE = ('the C01 histories (all origins, restarts, every reference form of the grammar) run '
        'with a read-trace monitor on the _C_/_R_ injection seam: at the instant of every read '
        '(formula F, address X) X must be a declared precedent of F with the edge X->F in '
        'dep_graph, or every cell of X must lie in a declared range R with edges cell->R->F; '
        'after every evaluate, every input the harness DAG says the evaluated cell depends on '
        'must be an ancestor of that cell in dep_graph (confirmed as real influence by '
        'perturbing the input in the reference model before it is reported). non-trivial = the '
        'run traced at least one read of a computed sub-range, a CSE block '
        'or an unbounded range, or checked ancestors after a restart; distinct = distinct '
        '(origin, operation sequence, traced read sequence) digests')
COMPONENTS = dict(c01.COMPONENTS)
COMPONENTS['stub'] = COMPONENTS['stub'] + [
    'read-trace wrapper around ExcelFormula.build_eval_context (sim/seams.py)']
ASSUMPTIONS = [
    'reads are observed where pycel binds _C_/_R_ into the formula namespace; reads the '
    'compiler performs for itself (top-level evaluate, eager range evaluation) have no formula '
    'on the stack and are not reads "by a formula"',
    'the harness DAG lists, per formula, the cells it reads by value (from the generator, not '
    'from pycel\'s parser); influence is confirmed through the reference model before reporting',
    'value mismatches are ignored here (C01 owns them)',
    'one run in eight is a trimmed model (C08\'s histories: trim_graph, then writes to the inputs '
    'and to constants the trim kept as values, reads of the outputs, save/load): there the edge '
    'may come from any node of dep_graph that carries the address read (trim_graph drops plain '
    'range nodes from cell_map and leaves the wired node in the graph), and the influence oracle '
    'is off (frozen cells have no precedents any more)',
]


def budget(tier):
    if tier == 'quick':
        return dict(runs=3000, recheck=16, shrink_tests=300)
    return dict(runs=100000, recheck=48, shrink_tests=500)


def gen_case(rnd, tier, index):
    if index % 8 == 5:
        case = gen_trim_case(rnd, tier, index)
        if case is not None:
            return case
    knobs = wbgen.draw_knobs(rnd)
    # every reference form stays available more often than in C01
    for feat in ('ranges', 'names', 'cse', 'intersection', 'multicolon', 'rowcol', 'unbounded'):
        if rnd.random() < 0.6:
            knobs[feat] = True
    knobs['computed_refs'] = rnd.random() < 0.25
    spec = wbgen.generate(rnd, knobs)
    if rnd.random() < 0.04:
        wbgen.add_big_range_gadget(rnd, spec)     # a range of > 1000 cells, nearly all blank
    if rnd.random() < 0.06:
        wbgen.add_lookup_gadget(rnd, spec)
    if rnd.random() < 0.05:
        wbgen.add_alias_gadget(rnd, spec)
    cfg = c01.draw_cfg(rnd, spec, tier)
    if cfg.get('origin') != 'xlsx' and rnd.random() < 0.15:
        wbgen.add_table_gadget(rnd, spec)     # structured references
    n_ops = rnd.choice((3, 5, 8, 12, 20))
    ops = c01.gen_ops(rnd, spec, cfg, n_ops,
                      restart_rate=rnd.choice((0, 0.05, 0.1)),
                      set_rate=rnd.choice((0.15, 0.3)))
    if rnd.random() < 0.15:
        # a value assigned over a formula (the formula is kept), which is later calculated
        # again - set_value(cell, None) or recalculate() - and from then on reads its
        # precedents as before
        dag = wbgen.Dag(spec)
        forms = [a for a in dag.formulas() if 'cse' not in dag.cell[a] and dag.prec.get(a) and
                 not is_computed(dag.cell[a])]
        ops = [o for o in ops if o['op'] != 'restart']
        if forms and ops:
            x = rnd.choice(forms)
            at = rnd.randint(0, len(ops))
            seq = [{'op': 'eval', 'a': x, 'form': 'cell'},
                   {'op': 'set', 'a': x, 'v': rnd.choice((5, 0, -2.5, 'ovr')), 'over_formula': True}]
            if rnd.random() < 0.5:
                seq.append({'op': 'eval', 'a': rnd.choice(sorted(dag.descendants(x)) or [x]),
                            'form': 'cell'})
            seq.append({'op': 'set', 'a': x, 'v': None, 'over_formula': True, 'unset': True}
                       if rnd.random() < 0.6 else {'op': 'recalc'})
            inputs = [a for a in dag.ancestors(x) if not wbgen.is_formula_cell(dag.cell[a]) and
                      a not in spec.get('pinned', ())]
            seq.append({'op': 'eval', 'a': x, 'form': 'cell'})
            if inputs:
                a = rnd.choice(sorted(inputs))
                seq.append({'op': 'set', 'a': a, 'v': c01.draw_write(rnd, dag.cell[a].get('v'))})
                seq.append({'op': 'eval', 'a': x, 'form': 'cell'})
            ops[at:at] = seq
    if cfg.get('origin') in ('nodata', 'xlsx') and rnd.random() < 0.15:
        # fault: a graph build that fails half way (a reference that cannot be resolved); the
        # model is used on, every other formula still has to be wired to what it reads
        q = wbgen.add_poison_gadget(rnd, spec)
        if q:
            ops = [o for o in ops if o['op'] != 'restart']
            for _ in range(rnd.choice((1, 1, 2))):
                ops.insert(rnd.randint(0, max(0, len(ops) // 2)), {'op': 'poke', 'a': q})
            dag = wbgen.Dag(spec)
            consts = [a for a in dag.constants() if a not in spec.get('pinned', ())]
            forms = [a for a in dag.formulas() if not dag.cell[a].get('poison') and
                     'cse' not in dag.cell[a]]
            if consts and forms and rnd.random() < 0.4:
                # ... or the caller names an output that does not exist next to good ones
                ops.insert(rnd.randint(0, max(0, len(ops) // 2)),
                           {'op': 'poke', 'kind': 'trim', 'a': forms[0],
                            'inputs': [rnd.choice(consts)],
                            'outputs': rnd.sample(forms, min(2, len(forms))) + ['Missing!A1']})
    return history.legalise({'spec': spec, 'cfg': cfg, 'ops': ops})


def gen_trim_case(rnd, tier, index):
    """C08's histories under the read-trace monitor, plus writes to constants that trim_graph
    kept as plain values (members of ranges no input reaches, precedents of frozen cells)"""
    from . import c08
    case = c08.gen_case(rnd, tier, index)
    if not case.get('ops'):
        return None
    spec, cfg = case['spec'], case['cfg']
    cfg['workload'] = 'trim'
    dag = wbgen.Dag(spec)
    pinned = set(spec.get('pinned', ()))
    reach = dag.closure(cfg['outputs'], declared=True)
    consts = [a for a in dag.order if a in reach and not wbgen.is_formula_cell(dag.cell[a])
              and a not in pinned]
    extra = []
    cur = {}
    for _ in range(rnd.choice((2, 4, 8))):
        if consts and rnd.random() < 0.5:
            a = rnd.choice(consts)
            v = c01.draw_write(rnd, cur.get(a, dag.cell[a].get('v')), dag.cell[a].get('w'))
            cur[a] = v
            extra.append({'op': 'set', 'a': a, 'v': v, 'kept': True})
        else:
            extra.append({'op': 'eval', 'a': rnd.choice(cfg['outputs']), 'form': 'cell'})
    cfg['extra'] = extra
    return legalise(case)


def legalise(case):
    if case.get('cfg', {}).get('workload') != 'trim':
        return history.legalise(case)
    from . import c08
    case = c08.legalise(case)
    st = history.Static(case)
    cfg = case['cfg']
    if not case.get('ops'):
        cfg['extra'] = []
    cfg['extra'] = [o for o in cfg.get('extra', []) if o['a'] in st.all and (
        o['op'] == 'eval' and o['a'] in cfg.get('outputs', ()) or
        o['op'] == 'set' and not wbgen.is_formula_cell(st.dag.cell[o['a']]))]
    return case


class Monitor:
    def __init__(self):
        self.run = None
        self.trace = seams.ReadTrace(self.on_event)
        self.reads = []
        self.bad = None

    def attach(self, run):
        self.run = run
        seams.install()
        seams.LISTENERS.append(self.trace)

    def detach(self):
        if self.trace in seams.LISTENERS:
            seams.LISTENERS.remove(self.trace)

    def on_event(self, compiler, formula, addr, kind):
        run = self.run
        run.count('reads-traced')
        if formula is None:
            run.count('probe:read-without-formula-on-stack')
            return
        if self.bad is not None:
            return
        from pycel.excelutil import AddressRange
        fcell = formula.cell
        faddr = str(fcell.address) if fcell is not None else '?'
        self.reads.append((faddr, addr))
        if addr in values.ERROR_CODES:
            run.count('probe:read-of-error-reference')
            return
        declared = [a.address for a in formula.needed_addresses]
        g = compiler.dep_graph
        node = compiler.cell_map.get(addr)
        if getattr(run, 'trimmed', False) and fcell in g and (
                node is None or not g.has_edge(node, fcell)):
            # trim_graph takes plain range nodes out of cell_map and leaves them, wired, in
            # the graph (they are rebuilt on demand): "the dependency graph has the edge"
            for cand in g.predecessors(fcell):
                if cand.address.address == addr:
                    node = cand
                    run.count('probe:edge-from-a-node-that-trim-took-out-of-cell_map')
                    break
        if addr in declared:
            if ':' in addr:
                run.count('probe:declared-range-read')
            if node is None or not g.has_edge(node, fcell):
                self.bad = dict(rule='edge-missing', formula=faddr, read=addr,
                                code=formula.python_code, declared=declared)
            elif ':' in addr and kind == 'R':
                # a range node must itself be wired to its members (nested ranges)
                from pycel.excelcompiler import _CellRange
                if isinstance(node, _CellRange) and not node.formula:
                    # every cell of the rectangle that is a cell of the model (from the address
                    # itself, not from what the node declares)
                    decl_m = None
                    for m in (c for row in node.address.resolve_range for c in row):
                        mc = compiler.cell_map.get(m.address)
                        if mc is None and decl_m is None:
                            decl_m = declared_members(node)
                        if mc is None and m.address not in decl_m:
                            run.count('probe:range-member-not-in-model')
                            continue
                        if getattr(run, 'trimmed', False) and mc is not None and \
                                not g.has_edge(mc, node):
                            mc = next((c for c in g.predecessors(node)
                                       if c.address.address == m.address), mc)
                        if mc is None or not g.has_edge(mc, node):
                            self.bad = dict(rule='range-member-edge-missing', formula=faddr,
                                            read=addr, member=m.address)
                            break
                elif isinstance(node, _CellRange):
                    run.count('probe:cse-block-read')
                else:
                    run.count('probe:unbounded-range-read')
            return
        # not declared literally: a computed sub-range of declared ranges
        run.count('probe:computed-subrange-read')
        try:
            xr = AddressRange(addr)
            cells = [c for row in xr.resolve_range for c in row] if xr.is_range else [xr]
        except Exception:
            self.bad = dict(rule='undeclared-read', formula=faddr, read=addr,
                            code=formula.python_code, declared=declared)
            return
        ranges = [d for d in declared if ':' in d]
        for c in cells:
            ok = False
            for d in ranges:
                rnode = compiler.cell_map.get(d)
                cnode = compiler.cell_map.get(c.address)
                if getattr(run, 'trimmed', False) and fcell in g and (
                        rnode is None or not g.has_edge(rnode, fcell)):
                    # (the wired node trim_graph left in the graph, see above)
                    rnode = next((n for n in g.predecessors(fcell) if n.address.address == d),
                                 rnode)
                if rnode is None or cnode is None or not g.has_edge(rnode, fcell):
                    continue
                if history._unbounded(d):
                    # written A:B / 2:2: the cell standing in for it hangs on the bounded
                    # range, which hangs on the cells
                    inside = c.address in run.st.range_members(d)
                    wired = nx.has_path(g, cnode, rnode)
                else:
                    inside = c in AddressRange(d)
                    wired = g.has_edge(cnode, rnode)
                if inside and wired:
                    ok = True
                    break
            if not ok:
                self.bad = dict(rule='undeclared-read', formula=faddr, read=addr,
                                cell=c.address, code=formula.python_code, declared=declared)
                return


def declared_members(node):
    return frozenset(a.address for a in node.needed_addresses)


def check_eval(run, i, op, target, expected, out):
    mon = run.monitor
    if mon.bad is not None:
        b = mon.bad
        run.violate(b['rule'], i, op, 'declared precedent with edge', b, detail=b)
        return
    if 'exc' in out:
        return      # C01/C09 territory
    model = run.driver.model
    g = model.dep_graph
    dag = run.st.dag
    members = run.st.range_members(target) if ':' in target else [target]
    restarted = run.driver.restarts > 0
    for y in members:
        ynode = model.cell_map.get(y)
        if ynode is None or y not in dag.cell:
            continue
        if not wbgen.is_formula_cell(dag.cell[y]):
            continue
        if ynode not in g:
            anc = set()
        else:
            anc = nx.ancestors(g, ynode)
        for x in written_ancestors(dag, y):
            run.count('ancestor-pairs-checked')
            if restarted:
                run.nontrivial = True
            xnode = model.cell_map.get(x)
            if xnode is None or xnode not in anc:
                if covered_by_range(anc, x):
                    run.count('probe:ancestor-through-containing-range-node')
                    continue
                if getattr(ynode, 'formula', None) is None:
                    continue
                if confirm_influence(run, x, y):
                    run.violate('influencer-not-ancestor', i, op, f'{x} in ancestors({y})',
                                'missing', detail={'input': x, 'cell': y})
                    return
                run.count('probe:dag-ancestor-missing-but-no-influence-shown')


def is_computed(cell):
    f = cell.get('f', '')
    return f.startswith('=OFFSET(') or f.startswith('=INDIRECT(')


def written_ancestors(dag, y):
    """the cells that can influence y through written references: what a computed reference
    (=OFFSET(..), =INDIRECT("..")) points to is not claimed to be a precedent, only what such
    a formula names"""
    seen, todo = [], [y]
    while todo:
        n = todo.pop()
        c = dag.cell.get(n, {})
        nxt = [a for a in c.get('d', ()) if a != '@self'] if is_computed(c) else dag.prec.get(n, ())
        for a in nxt:
            if a in dag.cell and a not in seen and a != y:
                seen.append(a)
                todo.append(a)
    return seen


def covered_by_range(anc, x):
    """x is represented by an ancestor range node that contains it (CSE members)"""
    from pycel.excelutil import AddressCell
    try:
        xa = AddressCell(x)
    except Exception:
        return False
    for node in anc:
        a = node.address
        if a.is_range and not a.is_unbounded_range and a.sheet == xa.sheet and xa in a:
            return True
    return False


def confirm_influence(run, x, y):
    """does changing x change y in the reference model? (only called on a suspect)"""
    from ..refmodel import InlineActor, Reference, RefError, on_fresh_thread
    dag = run.st.dag
    if wbgen.is_formula_cell(dag.cell[x]):
        # an intermediate formula: influence runs through its own inputs; use them
        return any(confirm_influence(run, i, y) for i in dag.ancestors(x)
                   if not wbgen.is_formula_cell(dag.cell[i]))

    def probe():
        ref = Reference(run.st.spec, actor=InlineActor())
        base = dict(run.overrides)
        try:
            v0 = values.canon(ref.value(y, base))
        except RefError:
            return False
        for alt in (3.25, -17, 'zz', True, None, 1000):
            o = dict(base)
            o[x] = alt
            try:
                if values.canon(ref.value(y, o)) != v0:
                    return True
            except RefError:
                continue
        return False
    return on_fresh_thread(probe, name='ref-influence')


class TrimRun:
    """the part of HistoryRun the monitor needs, around C08's operation vocabulary"""

    def __init__(self, case):
        self.case = case
        self.st = history.Static(case)
        self.cfg = case.get('cfg', {})
        self.counts = {}
        self.violation = None
        self.trimmed = False
        self.nontrivial = False

    def count(self, key, n=1):
        self.counts[key] = self.counts.get(key, 0) + n

    def violate(self, rule, step, op, expected, got, **extra):
        if self.violation is None:
            self.violation = dict(rule=rule, step=step, op=op, expected=expected, got=got, **extra)


def run_trim_case(case):
    from ..refmodel import InlineActor, Reference, RefError, on_fresh_thread
    from ..world import Driver, TmpDir, outcome_of
    run = TrimRun(case)
    mon = Monitor()
    st, cfg, dag = run.st, run.cfg, run.st.dag
    ops = list(case.get('ops', [])) + list(cfg.get('extra', []))
    events = []

    def plan():
        stored = {}
        if cfg.get('origin') == 'xlsx':
            ref = Reference(st.spec, actor=InlineActor())
            for a in dag.formulas():
                try:
                    stored[a] = ref.value(a, {})
                except RefError:
                    pass
        return stored

    stored = on_fresh_thread(plan, name='ref')
    plugin.reset()
    pos = {'i': 0, 'pending': None, 'built': False, 'stopped': False}

    def body(driver):
        if not pos['built']:
            pos['built'] = True
            run.count('origin:' + cfg.get('origin', 'nodata'))
            if cfg.get('origin') == 'xlsx':
                driver.build_xlsx(st.spec, stored)
            else:
                driver.build_nodata(st.spec)
        if pos['pending'] is not None:
            op, pos['pending'] = pos['pending'], None
            if 'exc' in driver.restart_load(op):
                return 'done'       # C03 / C08 territory
            run.count('fault:restart-' + op.get('where', 'same'))
        while pos['i'] < len(ops) and mon.bad is None and not pos['stopped']:
            i, op = pos['i'], ops[pos['i']]
            pos['i'] += 1
            k = op['op']
            model = driver.model
            run.count('ops')
            if k == 'eval':
                out = driver.step(op)
                run.count('evals')
                if run.trimmed:
                    run.count('output-reads-after-trim')
            elif k == 'set':
                if op['a'] not in model.cell_map:
                    run.count('probe:write-skipped-cell-not-kept-by-trim')
                    continue
                out = driver.step(op)
                run.count('sets')
                if run.trimmed and op.get('kept') and op['a'] not in flat_inputs:
                    run.count('probe:write-to-a-constant-trim-kept-as-value')
            elif k == 'setrange':
                vals = tuple(tuple(r) for r in op['v'])
                out = driver.actor.call(outcome_of, lambda: model.set_value(op['rng'], vals))
            elif k == 'trim':
                if op.get('retry') and run.trimmed:
                    continue
                out = driver.step(op)
                if 'exc' in out:
                    nxt = ops[pos['i']] if pos['i'] < len(ops) else None
                    if not (nxt and nxt['op'] == 'trim' and nxt.get('retry')):
                        pos['stopped'] = True
                elif set(op['inputs']) != set(cfg.get('inputs', ())) and not op.get('retry'):
                    pos['stopped'] = True
                else:
                    run.trimmed = True
                    run.count('fault:trim_graph')
            elif k == 'restart':
                out = driver.restart_save(op)
                if 'exc' in out:
                    return 'done'
                pos['pending'] = op
                if op.get('where') == 'thread':
                    return 'more'
                op2, pos['pending'] = pos['pending'], None
                if 'exc' in driver.restart_load(op2):
                    return 'done'
                run.count('fault:restart-' + op.get('where', 'same'))
                out = {}
            events.append((i, k, op.get('a') or op.get('rng'), out.get('exc'),
                           history.cache_digest(driver.model)))
        return 'done'

    flat_inputs = set()
    for a in cfg.get('inputs', []):
        flat_inputs.update(wbgen.flat_range(a) if ':' in a else [a])
    mon.attach(run)
    try:
        with TmpDir() as tmp:
            driver = Driver(tmp, inline=True)
            n = 0
            while on_fresh_thread(body, driver, name=f'sut-{n}') == 'more':
                n += 1
    finally:
        mon.detach()
    if mon.bad is not None:
        b = mon.bad
        run.violate(b['rule'], pos['i'] - 1, ops[pos['i'] - 1] if pos['i'] else {'op': 'build'},
                    'declared precedent with edge', b, detail=b)
        run.violation['tag'] = f'{b["rule"]}/' + ('trimmed' if run.trimmed else 'before-trim')
    c = run.counts
    return {
        'violation': run.violation,
        'digest': hashlib.sha256(json.dumps([events, mon.reads], default=str).encode()).hexdigest()[:16],
        'sig': hashlib.sha256(repr(('trim', [e[:3] for e in events], mon.reads)).encode()).hexdigest()[:16],
        'nontrivial': bool(run.trimmed and c.get('output-reads-after-trim')),
        'counts': c,
        'sample': {'origin': cfg.get('origin'), 'workload': 'trim', 'inputs': cfg.get('inputs'),
                   'outputs': cfg.get('outputs'),
                   'reads': [f'{f} reads {a}' for f, a in mon.reads[:10]]},
    }


def run_case(case):
    if case.get('cfg', {}).get('workload') == 'trim':
        return run_trim_case(case)
    mon = Monitor()
    run = history.HistoryRun(case, monitor=mon)
    res = run.run(check_eval)
    if mon.bad is not None and not res['violation']:
        b = mon.bad
        run.violate(b['rule'], len(case.get('ops', [])), {'op': 'end'},
                    'declared precedent with edge', b, detail=b)
        res['violation'] = run.violation
    v = res['violation']
    if v:
        oc = history.origin_class(run.cfg.get('origin', 'nodata'))
        if getattr(run, 'driver', None) is not None and run.driver.restarts > 0:
            oc = 'serialized'
        v['tag'] = f'{v["rule"]}/{oc}'
    import hashlib
    res['sig'] = hashlib.sha256(repr((res['sig'], mon.reads)).encode()).hexdigest()[:16]
    res['digest'] = hashlib.sha256(repr((res['digest'], mon.reads)).encode()).hexdigest()[:16]
    c = res['counts']
    res['nontrivial'] = bool(
        c.get('probe:computed-subrange-read') or
        c.get('probe:cse-block-read') or c.get('probe:unbounded-range-read') or
        (getattr(run, 'driver', None) is not None and run.driver.restarts and
         c.get('ancestor-pairs-checked')))
    res['sample'] = {
        'origin': case.get('cfg', {}).get('origin'),
        'ops': [c01._short(o) for o in case.get('ops', [])[:8]],
        'reads': [f'{f} reads {a}' for f, a in mon.reads[:10]],
    }
    return res
