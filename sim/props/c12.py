"""C12 validate_calcs reports exactly the stored results that disagree (fault enumeration)."""
import contextlib
import copy
import hashlib
import io
import json
import random

from .. import core, history, plugin, values, wbgen
from ..refmodel import InlineActor, Reference, RefError, on_fresh_thread
from ..world import Driver, TmpDir
from . import c01, c09

ID = 'C12'
LEVEL = 'fault_enumeration'
SITES = 8
RULE = ('fault enumeration over stored results: each generated acyclic workbook is written as a '
        'real .xlsx with consistent stored results (read through the real ExcelOpxWrapper); run '
        'index mod %d enumerates: the clean file, then every formula cell in turn with its '
        'stored result corrupted (number moved by clearly more than the tolerance; text, logical '
        'and error results replaced by another value of the same or another type), plus cells '
        'calling an unknown function or a raising plugin; drawn tolerance and choice of checked '
        'outputs (all, or a subset from which the site may be unreachable). The report must be '
        '{} for the clean file and for unreachable sites; otherwise mismatch must name the '
        'site with the stored and the recomputed value and every other reported cell must '
        'depend on it; failing cells must be listed under exceptions / not-implemented. '
        'non-trivial = a corrupted site that is reachable from the checked outputs; distinct = '
        'distinct (workbook, site, corruption, tolerance, outputs) digests' % SITES)
COMPONENTS = {
    'real': ['pycel (ExcelCompiler.validate_calcs, ExcelOpxWrapper) from the working tree',
             'openpyxl reader (formula and data_only workbooks)', 'file system (tmp dir per run)'],
    'stub': ['xlsx writer (sim/wbgen.to_xlsx) that stores <f> and <v> together - this is the '
             'fault injector: it writes the corrupted stored result',
             'BOOM plugin / unknown function as failing cells',
             'reference-model driver (its arithmetic is pycel\'s)'],
}
ASSUMPTIONS = [
    'consistent stored results are what the reference model (fresh compile) computes',
    'TRUE<->1, blank and within-tolerance alterations are not generated: the statement does not '
    'decide them',
    '"depends on" is the harness DAG including cells only named (ROW/COLUMN operands, both '
    'operands of an intersection)',
]


def budget(tier):
    if tier == 'quick':
        return dict(runs=SITES * 300, recheck=16, shrink_tests=200)
    return dict(runs=SITES * 10000, recheck=48, shrink_tests=400)


def corrupt_value(rnd, v, tol):
    """a stored result that clearly disagrees with v"""
    if isinstance(v, bool):
        if tol is not None and tol >= 0.5:
            # TRUE/FALSE differ by 1 as numbers: not "more than the tolerance"
            return rnd.choice(('x', 7.5 + 3 * tol))
        return rnd.choice((not v, 'x', 7.5))
    if isinstance(v, (int, float)):
        roll = rnd.random()
        if roll < 0.25 and tol:
            # just beyond the tolerance, however large the value is
            delta = 2.5 * tol
            return v + delta if rnd.random() < 0.5 else v - delta
        if roll < 0.7:
            delta = 2 * (tol or 0) + 1e-3 * abs(v) + 1e-3
            delta *= rnd.choice((1, 1, 3, 100))
            return v + delta if rnd.random() < 0.5 else v - delta
        if roll < 0.85:
            return 'txt'
        return '#N/A' if v != '#N/A' else '#REF!'
    if isinstance(v, str) and v in values.ERROR_CODES:
        return rnd.choice([e for e in ('#DIV/0!', '#VALUE!', '#N/A') if e != v] + [3.5])
    if isinstance(v, str):
        return rnd.choice((v + 'X', 'other', 12.5))
    return 99.5


def same_length_corruption(v, tol):
    """a stored result that differs from v in one character (the rewritten file has the size of
    the one it replaces); None when that is not clearly more than the tolerance"""
    if isinstance(v, bool):
        return (not v) if (tol is None or tol < 0.5) else None
    if isinstance(v, (int, float)):
        txt = repr(float(v)) if isinstance(v, float) else repr(v)
        if 'e' in txt or 'inf' in txt or 'nan' in txt:
            return None
        for i, ch in enumerate(txt):           # the most significant digit that can move
            if ch.isdigit():
                new = txt[:i] + str((int(ch) + 3) % 10 or 1) + txt[i + 1:]
                try:
                    w = type(v)(new)
                except ValueError:
                    return None
                txt2 = repr(float(w)) if isinstance(w, float) else repr(w)
                if len(txt2) == len(txt) and abs(w - v) > 2.5 * (tol or 0) + 1e-3 * abs(v) + 1e-3:
                    return w
                return None
        return None
    if isinstance(v, str) and v and v not in values.ERROR_CODES:
        return v[:-1] + ('y' if v[-1] != 'y' else 'z')
    return None


def gen_case(rnd, tier, index):
    group = index // SITES
    slot = index % SITES
    wrnd = random.Random(core.run_seed('C12/workbook', group))
    knobs = wbgen.draw_knobs(wrnd)
    # computed references as whole formulas (=OFFSET(..), =INDIRECT("..")): what they point to
    # is not among their declared precedents, so these workbooks are validated as a whole
    # (outputs=None: every formula cell is checked, reachability does not come into it)
    knobs['computed_refs'] = wrnd.random() < 0.3
    spec = wbgen.generate(wrnd, knobs)
    alias = wrnd.random() < 0.12
    if alias:
        wbgen.add_alias_gadget(wrnd, spec)     # cells with coordinates inside a range of another sheet
    # known finding KF2: with iterative calculation validate_calcs recalculates the precedents
    # of the cell it checks, which destroys their stored results before they are compared.
    # Only the workbooks with group % 10 == 3 are compiled in iterative mode (re-confirmation).
    mode = 'iterative' if group % 10 == 3 else 'plain'
    if mode == 'iterative':
        spec['iter'] = [wrnd.choice((5, 100)), 0.001]
    dag = wbgen.Dag(spec)
    formulas = dag.formulas()
    cfg = {'group': group, 'mode': mode}
    tol = rnd.choice((None, None, 1e-6, 1e-3, 0.05, 1))
    cfg['tolerance'] = tol
    if not formulas:
        cfg['kind'] = 'clean'
        cfg['outputs'] = None
        return {'spec': spec, 'cfg': cfg, 'ops': []}
    if slot == 0:
        cfg['kind'] = 'clean'
    else:
        site = formulas[(slot - 1) % len(formulas)]
        cfg['site'] = site
        roll = rnd.random()
        if roll < 0.8:
            cfg['kind'] = 'corrupt'
        elif 'cse' in dag.cell[site]:
            cfg['kind'] = 'corrupt'
        else:
            cfg['kind'] = rnd.choice(('unknown', 'boom'))
            # a second cell failing the same way (same report key)
            others = [a for a in formulas if a != site and 'cse' not in dag.cell[a]]
            if others and rnd.random() < 0.6:
                cfg['site2'] = rnd.choice(others)
    # which outputs are checked
    roll = rnd.random()
    if roll < 0.5 or knobs['computed_refs']:
        cfg['outputs'] = None
    else:
        k = rnd.randint(1, min(3, len(formulas)))
        cfg['outputs'] = rnd.sample(formulas, k)
        if rnd.random() < 0.5 and cfg.get('site') and cfg['site'] not in cfg['outputs']:
            cfg['outputs'].append(cfg['site'])
    cfg['output_form'] = rnd.choice(('list', 'list', 'single')) if cfg['outputs'] else None
    if cfg['output_form'] == 'single':
        cfg['outputs'] = cfg['outputs'][:1]
    # the other two ways of saying what is checked: all formulas of one sheet (sheet=), and
    # the listed cells only, without their precedents (verify_tree=False)
    roll = rnd.random()
    if cfg['outputs'] is None and not knobs['computed_refs'] and roll < 0.25:
        fsheets = sorted({wbgen.split_addr(a)[0] for a in formulas})
        cfg['sheet'] = rnd.choice(fsheets)
    elif cfg['outputs'] and roll < 0.2:
        cfg['verify_tree'] = False
    if alias and cfg.get('site') and rnd.random() < 0.5:
        # the cell on the other sheet is the site, reached only by following what the reader
        # of the range declares
        main = next(s_ for s_ in spec['sheets'] if s_ != spec.get('data_sheet'))
        cfg['site'] = 'Al2!B2'
        cfg.pop('site2', None)
        if rnd.random() < 0.5:
            cfg['outputs'], cfg['output_form'] = [f'{main}!B65'], 'list'
            cfg.pop('sheet', None)
        else:
            cfg['outputs'], cfg['output_form'] = None, None
            cfg['sheet'] = main
        cfg.pop('verify_tree', None)
    cfg['corrupt_seed'] = rnd.randrange(1 << 30)
    # what the compiler did before it was asked to validate: cells evaluated (part of the graph
    # exists, the rest is built by validate_calcs), inputs assigned the value they already hold
    roll = rnd.random()
    if mode == 'plain' and roll < 0.3:
        consts = [a for a in dag.constants() if dag.cell[a].get('v') is not None]
        pre = []
        for _ in range(rnd.choice((1, 2, 3))):
            if consts and rnd.random() < 0.6:
                pre.append({'op': 'set-same', 'a': rnd.choice(consts)})
            else:
                pre.append({'op': 'eval', 'a': rnd.choice(dag.order)})
        cfg['prelude'] = pre
    # the file validated before, corrected / changed in place and compiled again under the
    # same name (half of these: stored, not deflated, and altered in one character)
    if cfg.get('kind') == 'corrupt' and rnd.random() < 0.2:
        cfg['rewrite'] = rnd.choice(('same-size', 'any'))
    return {'spec': spec, 'cfg': cfg, 'ops': []}


def legalise(case):
    st = history.Static(case)
    cfg = case['cfg']
    if cfg.get('site') and (cfg['site'] not in st.all or
                            not wbgen.is_formula_cell(st.dag.cell[cfg['site']])):
        return None
    if cfg.get('site2') and (cfg['site2'] not in st.all or
                             not wbgen.is_formula_cell(st.dag.cell[cfg['site2']])):
        cfg.pop('site2')
    if cfg.get('outputs'):
        cfg['outputs'] = [a for a in cfg['outputs'] if a in st.all and
                          wbgen.is_formula_cell(st.dag.cell[a])]
        if not cfg['outputs']:
            cfg['outputs'] = None
    if cfg.get('prelude'):
        cfg['prelude'] = [o for o in cfg['prelude'] if o['a'] in st.all and (
            o['op'] == 'eval' or not wbgen.is_formula_cell(st.dag.cell[o['a']]))]
    return case


def run_case(case):
    spec = case['spec']
    cfg = case['cfg']
    dag = wbgen.Dag(spec)
    kind = cfg.get('kind', 'clean')
    site = cfg.get('site')
    tol = cfg.get('tolerance')
    counts = {}
    events = []
    state = {'violation': None, 'nontrivial': False}

    def count(k, c=1):
        counts[k] = counts.get(k, 0) + c

    def violate(rule, expected_, got, **extra):
        if state['violation'] is None:
            state['violation'] = dict(rule=rule, step=0, op={'op': 'validate_calcs'},
                                      expected=expected_, got=got, **extra)

    def plan():
        ref = Reference(spec, actor=InlineActor())
        stored = {}
        for a in dag.formulas():
            try:
                stored[a] = ref.value(a, {})
            except RefError:
                pass
        return stored

    stored = on_fresh_thread(plan, name='ref')
    good = dict(stored)
    if any(wbgen.unstorable(stored.get(a)) for a in dag.formulas()):
        # a formula result that is the empty text or an empty reference cannot be stored in a
        # file the reader gives back (both are read as "no stored result"): there is no
        # consistent file to start from
        counts['probe:run-skipped-empty-text-result-cannot-be-stored'] = 1
        return {'violation': None, 'digest': 'skipped', 'sig': 'skipped', 'nontrivial': False,
                'counts': counts, 'sample': None}
    count('kind:' + kind)
    count('mode:' + cfg.get('mode', 'plain'))
    sut_spec = spec
    corrupted = None
    if kind == 'corrupt':
        if site not in stored or stored[site] is None:
            count('probe:site-without-reference-value-skipped')
            kind = 'clean'
        else:
            crnd = random.Random(cfg.get('corrupt_seed', 0))
            corrupted = corrupt_value(crnd, stored[site], tol)
            if cfg.get('rewrite') == 'same-size':
                alt = same_length_corruption(stored[site], tol)
                if alt is not None:
                    corrupted = alt
                    count('probe:rewritten-file-of-the-same-size')
            stored = dict(stored)
            stored[site] = corrupted
            count('fault:stored-result-corruption')
            count('stored-type:' + values.canon(good[site])[0] + '->' + values.canon(corrupted)[0])
    elif kind in ('unknown', 'boom'):
        sut_spec = c09.wrap_spec(spec, site, kind)
        if cfg.get('site2') and cfg['site2'] in dag.cell and 'f' in dag.cell[cfg['site2']]:
            sut_spec = c09.wrap_spec(sut_spec, cfg['site2'], kind)
            count('probe:two-failing-cells-with-the-same-report-key')
        count('fault:unknown-function' if kind == 'unknown' else 'fault:plugin-raise')

    outputs = cfg.get('outputs')
    verify_tree = cfg.get('verify_tree', True)
    if outputs is None and cfg.get('sheet'):
        # validate_calcs(sheet=..): every formula cell of that sheet (and what they need)
        outputs = [a for a in dag.formulas() if wbgen.split_addr(a)[0] == cfg['sheet']]
        count('probe:checked-outputs-given-as-a-sheet')
    if not verify_tree:
        count('probe:verify_tree-off')
    if outputs is None:
        reachable = True
    else:
        reach = dag.closure(outputs, declared=True) if verify_tree else set(outputs)
        reachable = site in reach if site else True
        if site and reachable and site not in outputs and 'cse' in dag.cell[site]:
            # a member of an array formula that is only reached through the block's range node
            # is not a cell of the model; the statement does not decide whether it is checked
            reachable = None
    affected = set()
    if site:
        affected = {site} | dag.descendants(site)
        for _ in range(4):
            for a in dag.order:
                if set(dag.decl.get(a, ())) & affected:
                    affected.add(a)
        block = dag.cell[site].get('cse')
        if block:
            for a in dag.order:
                if dag.cell[a].get('cse') == block:
                    affected.add(a)
                    affected |= dag.descendants(a)

    site2 = cfg.get('site2') if kind in ('unknown', 'boom') else None
    affected2 = set()
    affected1 = set(affected)
    if site2 and site2 in dag.cell:
        affected2 = {site2} | dag.descendants(site2)
        for _ in range(4):
            for a in dag.order:
                if set(dag.decl.get(a, ())) & affected2:
                    affected2.add(a)
        affected |= affected2
    if site and outputs is not None and not verify_tree and not reachable and (
            affected & set(outputs)):
        # only the listed cells are calculated: a dependant of the site (or of the second
        # failing cell) is calculated from a stored result and may or may not agree with its own
        reachable = None
    reach2 = site2 is not None and (outputs is None or site2 in (
        dag.closure(outputs, declared=True) if verify_tree else set(outputs)))

    def reachable_avoiding(target, blocker):
        """reachable from the checked outputs without passing through `blocker` (the walk of
        validate_calcs does not go behind a cell it cannot evaluate)"""
        if outputs is None:
            return True
        if not verify_tree:
            return target in outputs
        seen, todo = set(), list(outputs)
        while todo:
            x = todo.pop()
            if x in seen:
                continue
            seen.add(x)
            if x not in blocker:
                todo.extend(dag.decl.get(x, ()))
        return target in seen
    if site2:
        # (every cell that needs a failing cell fails with it and blocks the walk as well)
        if reachable and not reachable_avoiding(site, affected2):
            reachable = None          # only behind the other failing cell: undetermined
        if not reachable and reach2:
            reachable = None          # the other failing cell will be reported
        reach2 = reach2 and reachable_avoiding(site2, affected1)

    def body(driver):
        plugin.reset()
        stored_zip = cfg.get('rewrite') != 'same-size'
        if cfg.get('rewrite') and kind == 'corrupt':
            # the consistent file first, under the name the altered one will have
            driver.build_xlsx(spec, good, strict=False, compress=stored_zip)
            buf0 = io.StringIO()
            try:
                with contextlib.redirect_stdout(buf0):
                    first = driver.model.validate_calcs(tolerance=tol)
            except Exception as exc:   # noqa
                violate('validate_calcs-raised', 'a report',
                        f'{type(exc).__name__}: {str(exc)[-300:]}', exc=type(exc).__name__)
                return
            if first != {}:
                violate('false-report-clean-file', {}, _show(first))
                return
            count('fault:file-rewritten-in-place-between-two-compiles')
        driver.build_xlsx(sut_spec, stored, strict=False, compress=stored_zip)
        if kind == 'boom':
            plugin.arm('F', exc='RuntimeError', at=1, persistent=True)
        model = driver.model
        for o in cfg.get('prelude', ()):
            try:
                if o['op'] == 'eval':
                    model.evaluate(o['a'])
                    count('prelude-evals')
                else:
                    if o['a'] not in model.cell_map:
                        model.evaluate(o['a'])
                    model.set_value(o['a'], model.cell_map[o['a']].value)
                    count('fault:input-assigned-the-value-it-holds')
            except Exception:   # noqa   (a failing cell evaluated early: validate reports it)
                count('prelude-op-raised')
        arg = cfg.get('outputs')
        if arg and cfg.get('output_form') == 'single':
            arg = arg[0]
        kwargs = {}
        if cfg.get('sheet') and cfg.get('outputs') is None:
            kwargs['sheet'] = cfg['sheet']
        if not verify_tree:
            kwargs['verify_tree'] = False
        buf = io.StringIO()
        try:
            with contextlib.redirect_stdout(buf):
                report = model.validate_calcs(output_addrs=arg, tolerance=tol, **kwargs)
        except Exception as exc:   # noqa
            violate('validate_calcs-raised', 'a report', f'{type(exc).__name__}: {str(exc)[-300:]}',
                    exc=type(exc).__name__)
            return
        finally:
            plugin.disarm()
        mism = report.get('mismatch', {})
        excs = {}
        for cat in ('exceptions', 'not-implemented'):
            for key, items in report.get(cat, {}).items():
                for addr, formula, msg in items:
                    excs[addr] = (cat, key)
        events.append((sorted(mism), sorted(excs), sorted(k for k in report)))
        other = set(report) - {'mismatch', 'exceptions', 'not-implemented'}
        if other:
            violate('unknown-report-section', 'mismatch/exceptions/not-implemented', sorted(other))
            return
        if reachable is None:
            count('probe:cse-member-behind-range-node-undetermined')
            for a in list(mism) + list(excs):
                if a != site and a not in affected:
                    violate('unrelated-cell-reported', f'only {site} and its dependants',
                            {'cell': a, 'report': _show(report)})
            return
        if kind == 'clean' or not reachable:
            if report != {}:
                violate('false-report-clean-file' if kind == 'clean' else
                        'false-report-site-unreachable', {}, _show(report))
            elif kind != 'clean':
                count('probe:site-unreachable-from-checked-outputs')
            return
        state['nontrivial'] = True
        if kind == 'corrupt':
            if site not in mism:
                violate('corruption-not-reported', f'mismatch names {site}', _show(report),
                        stored_type=values.canon(good[site])[0],
                        corrupted_type=values.canon(corrupted)[0])
                return
            m = mism[site]
            if values.canon(m.original) != values.canon(corrupted):
                violate('wrong-original-in-report', values.jsonable(corrupted),
                        values.jsonable(m.original))
                return
            if values.canon(m.calced) != values.canon(good[site]):
                violate('wrong-calced-in-report', values.jsonable(good[site]),
                        values.jsonable(m.calced))
                return
            count('probe:corruption-reported')
            for a in list(mism) + list(excs):
                if a != site and a not in affected:
                    violate('unrelated-cell-reported', f'only {site} and its dependants',
                            {'cell': a, 'report': _show(report)})
                    return
            if len(mism) > 1:
                count('probe:dependants-also-reported')
        else:
            if site not in excs:
                violate('failing-cell-not-reported', f'{site} under exceptions/not-implemented',
                        _show(report))
                return
            count('probe:failing-cell-listed-' + excs[site][0])
            # the second failing cell: listed too, unless it could only be reached through
            # the first one (the walk stops at a cell it cannot evaluate)
            if site2 and reach2 and site2 not in excs:
                violate('failing-cell-not-reported', f'{site2} under exceptions/not-implemented',
                        _show(report))
                return
            if mism:
                bad = [a for a in mism if a not in affected]
                if bad:
                    violate('unrelated-cell-reported', 'no mismatch outside the failing cell\'s '
                            'dependants', {'cells': bad, 'report': _show(report)})
                    return
            for a in excs:
                if a not in affected:
                    violate('unrelated-cell-reported', f'only {site} and its dependants',
                            {'cell': a, 'report': _show(report)})
                    return

    with TmpDir() as tmp:
        driver = Driver(tmp, inline=True)
        on_fresh_thread(body, driver, name='sut-0')
    v = state['violation']
    if v:
        st = v.get('stored_type') or (values.canon(good.get(site))[0] if site in good else '-')
        v['tag'] = f'{v["rule"]}/{kind}/{st}/{cfg.get("mode")}/tol={"none" if tol is None else "set"}'
        if cfg.get('mode') == 'iterative' and v['rule'] in (
                'corruption-not-reported', 'failing-cell-not-reported'):
            v['tag'] = f'{v["rule"]}/iterative'
    digest = hashlib.sha256(json.dumps(events, default=str).encode()).hexdigest()[:16]
    sig = hashlib.sha256(repr((cfg.get('group'), site, kind, values.jsonable(corrupted), tol,
                               cfg.get('outputs'))).encode()).hexdigest()[:16]
    return {'violation': v, 'digest': digest, 'sig': sig, 'nontrivial': state['nontrivial'],
            'counts': counts,
            'sample': {'kind': kind, 'site': site, 'formula': dag.cell[site].get('f') if site else None,
                       'stored_good': values.jsonable(good.get(site)) if site else None,
                       'stored_corrupted': values.jsonable(corrupted) if corrupted is not None else None,
                       'tolerance': tol, 'outputs': outputs, 'reachable': reachable}}


def _show(report):
    out = {}
    for cat, d in report.items():
        if cat == 'mismatch':
            out[cat] = {a: [values.jsonable(m.original), values.jsonable(m.calced)]
                        for a, m in d.items()}
        else:
            out[cat] = {k: [i[0] for i in items] for k, items in d.items()}
    return out


def shrink_moves(prop, case):
    from .. import shrink
    return [shrink.drop_cse_blocks, shrink.formulas_to_constants, shrink.drop_unreferenced,
            shrink.drop_names, shrink.simplify_formulas, shrink.drop_unreferenced]
