"""C05 one value per cell, whatever the order of first evaluation and the access path."""
import hashlib
import itertools
import json
import random

from .. import core, history, plugin, values, wbgen
from ..refmodel import InlineActor, Reference, RefError, on_fresh_thread
from ..world import Driver, TmpDir

ID = 'C05'
LEVEL = 'exploration'
RULE = ('generated acyclic workbooks (origins: no stored results, xlsx with stored results, '
        'model loaded from yml/json/pkl); a schedule of first touches = one permutation of 4 '
        'target cells (all 24 permutations of each workbook are enumerated over consecutive run '
        'indexes) each reached through a drawn access path (cell, enclosing range, unbounded '
        'column / row range, list / tuple / generator of addresses, sheet-less address, address '
        'objects), then every target re-read through every path twice; all reads of a cell must '
        'agree with each other and with the reference model. non-trivial = the schedule touched '
        'a formula cell through a non-cell path before its cell path; distinct = distinct '
        '(workbook, permutation, path sequence) digests')
COMPONENTS = {
    'real': ['pycel from the working tree', 'openpyxl reader and in-memory workbooks',
             'ruamel.yaml / json / pickle', 'networkx', 'numpy', 'file system (tmp dir per run)'],
    'stub': ['xlsx writer (sim/wbgen.to_xlsx)', 'schedule generator and driver',
             'reference-model driver (its arithmetic is pycel\'s)'],
}
ASSUMPTIONS = [
    'reference = fresh compile of the same workbook, each address evaluated once as a cell',
    'a third of the workbooks have one to three constants written (set_value after the cell was '
    'evaluated on its own) before or between the first touches: the reference then holds the '
    'values written so far; everything else about writes is C01\'s',
    'elements of unbounded-range results are compared by position; the extent of the used area '
    'is only bounded from above: a whole column / row never comes back longer than the last '
    'cell the workbook holds in that direction (blank cells at the edge may or may not count)',
    'on a loaded model only saved cells are read',
]

N_TARGETS = 4
PERMS = list(itertools.permutations(range(N_TARGETS)))


def budget(tier):
    if tier == 'quick':
        return dict(runs=24 * 100, recheck=16, shrink_tests=200)
    return dict(runs=24 * 4000, recheck=48, shrink_tests=400)


PATHS = ('cell', 'range', 'col', 'row', 'list', 'tuple', 'gen', 'nosheet', 'obj', 'objrange')


def enclosing_range(rnd, st, a, universe):
    sheet, coord = wbgen.split_addr(a)
    r, c = wbgen.coord_rc(coord)
    for _ in range(8):
        r1 = max(1, r - rnd.randint(0, 2))
        c1 = max(1, c - rnd.randint(0, 2))
        r2 = r + rnd.randint(0, 1)
        c2 = c + rnd.randint(0, 1)
        if (r1, c1) == (r2, c2):
            continue
        rng = f'{sheet}!{wbgen.rc_coord(r1, c1)}:{wbgen.rc_coord(r2, c2)}'
        members = wbgen.flat_range(rng)
        if all(m in st.all and m in universe for m in members):
            return rng
    return None


def make_touch(rnd, st, a, universe, has_wb, targets, allowed_unbounded):
    """one access-path operation that reads cell a"""
    sheet, coord = wbgen.split_addr(a)
    r, c = wbgen.coord_rc(coord)
    for _ in range(6):
        path = rnd.choice(PATHS)
        if path in ('range', 'objrange'):
            rng = enclosing_range(rnd, st, a, universe)
            if rng:
                return {'path': path, 'rng': rng, 'a': a}
        elif path == 'col':
            col = wbgen.rc_coord(1, c)[:-1]
            rng = f'{sheet}!{col}:{col}'
            if (has_wb or rng in allowed_unbounded) and set(st.range_members(rng)) <= universe:
                return {'path': 'col', 'rng': rng, 'a': a}
        elif path == 'row':
            rng = f'{sheet}!{r}:{r}'
            if (has_wb or rng in allowed_unbounded) and set(st.range_members(rng)) <= universe:
                return {'path': 'row', 'rng': rng, 'a': a}
        elif path in ('list', 'tuple', 'gen'):
            others = [t for t in targets if t != a and t in universe]
            addrs = [a] + rnd.sample(others, rnd.randint(0, min(2, len(others))))
            rnd.shuffle(addrs)
            return {'path': path, 'addrs': addrs, 'a': a}
        elif path == 'nosheet':
            if has_wb and sheet == st.spec['active']:
                return {'path': 'nosheet', 'a': a}
        else:
            return {'path': path, 'a': a}
    return {'path': 'cell', 'a': a}


def falsy_edge(rnd, spec):
    """where the last used row or column of a sheet holds constants only, make them values that
    are 'nothing' to a careless test (0, 0.0, FALSE): they still belong to the used area"""
    changed = []
    by_sheet = {}
    for c in spec['cells']:
        sheet, coord = wbgen.split_addr(c['a'])
        by_sheet.setdefault(sheet, []).append((wbgen.coord_rc(coord), c))
    for sheet, cells in sorted(by_sheet.items()):
        for axis in (0, 1):
            last = max(rc[axis] for rc, _ in cells)
            line = [c for rc, c in cells if rc[axis] == last]
            if line and all('f' not in c and 'cse' not in c for c in line) and rnd.random() < 0.7:
                for c in line:
                    c['v'] = rnd.choice((0, 0, 0.0, False))
                    changed.append(c['a'])
    return changed


def gen_case(rnd, tier, index):
    group = index // len(PERMS)
    perm = PERMS[index % len(PERMS)]
    wrnd = random.Random(core.run_seed('C05/workbook', group))
    knobs = wbgen.draw_knobs(wrnd)
    # computed references as whole formulas (=OFFSET(..), =INDIRECT("..")): there are no writes
    # here, so the dependency tracking they lack does not matter; the order of evaluation does
    knobs['computed_refs'] = wrnd.random() < 0.4
    if wrnd.random() < 0.5:
        # workbooks rich in forms whose value depends on the context they are evaluated in
        # (inside / outside an array formula, the cell they stand in)
        knobs.update(boost=0.15, p_cse=0.3, cse=True, ranges=True, iferr=True, gadget=0.6)
    spec = wbgen.generate(wrnd, knobs)
    edge = falsy_edge(wrnd, spec) if wrnd.random() < 0.35 else []
    origin = wrnd.choice(('nodata', 'nodata', 'xlsx', 'xlsx', 'yml', 'json', 'pkl'))
    if origin != 'xlsx' and wrnd.random() < 0.3:
        wbgen.add_table_gadget(wrnd, spec)
    poison = None
    if origin in ('nodata', 'xlsx') and wrnd.random() < 0.12:
        # a formula that cannot be compiled (and one that reads it): every read of it raises,
        # in whatever order and through whatever path, and nothing else is disturbed
        poison = wbgen.add_poison_gadget(wrnd, spec, bad_forms=(
            'SUBTOTAL({c},A1:A2)', 'SUM((A1):(C3))'))
    if wrnd.random() < 0.1:
        wbgen.add_branch_gadget(wrnd, spec)       # only one branch of an IF is calculated first
    if wrnd.random() < 0.25:
        wbgen.add_lookup_gadget(wrnd, spec)       # lookups whose tables look alike to Python
    dag = wbgen.Dag(spec)
    cfg = {'origin': origin, 'group': group, 'perm': list(perm)}
    st0 = history.Static({'spec': spec, 'cfg': cfg})
    allowed_unbounded = []
    if origin in history.SERIAL:
        pre = list(dag.order) if wrnd.random() < 0.5 else wrnd.sample(
            dag.order, wrnd.randint(2, len(dag.order)))
        # some unbounded ranges are evaluated before the save, so they exist afterwards
        # (rows / columns that hold something: a blank cell beyond the used area gives
        # pycel nothing to clip the range to)
        filled = [a for a in dag.order if 'f' in dag.cell[a] or dag.cell[a].get('v') is not None]
        for a in wrnd.sample(filled, min(3, len(filled))):
            sheet, coord = wbgen.split_addr(a)
            r, c = wbgen.coord_rc(coord)
            col = wbgen.rc_coord(1, c)[:-1]
            rng = f'{sheet}!{col}:{col}' if wrnd.random() < 0.5 else f'{sheet}!{r}:{r}'
            if rng not in pre:
                pre.append(rng)
                allowed_unbounded.append(rng)
        cfg['pre'] = pre
        cfg['where'] = wrnd.choice(('same', 'thread'))
    st = history.Static({'spec': spec, 'cfg': cfg})
    universe = history.initial_universe(st)
    has_wb = origin not in history.SERIAL
    cand = [a for a in dag.order if a in universe]
    formulas = [a for a in cand if wbgen.is_formula_cell(dag.cell[a])]
    wrnd.shuffle(formulas)
    # the interesting ones first: members of array formulas, cells an array formula reads,
    # context-sensitive functions, position-dependent formulas
    cse_reads = set()
    for a in formulas:
        if 'cse' in dag.cell[a]:
            cse_reads.update(p for p in dag.cell[a].get('p', ()) if wbgen.is_formula_cell(dag.cell.get(p, {})))

    def interest(a):
        f = dag.cell[a].get('f', '')
        return -int('cse' in dag.cell[a] or a in cse_reads or 'IFERROR' in f or 'IFNA' in f or
                    'ROW()' in f or 'COLUMN()' in f)
    if wrnd.random() < 0.7:
        formulas.sort(key=interest)
    targets = formulas[:N_TARGETS]
    if spec.get('gadget') and wrnd.random() < 0.7:
        g = [a for a in spec['gadget'] if a in cand]
        wrnd.shuffle(g)
        targets = (g[:3] + [t for t in targets if t not in g])[:N_TARGETS]
    if poison:
        pq = [c['a'] for c in spec['cells'] if c.get('poison')]
        targets = (pq + [t for t in targets if t not in pq])[:N_TARGETS]
        cfg['poison'] = pq
    if spec.get('lookup_gadget') and wrnd.random() < 0.8:
        lg = [a for a in spec['lookup_gadget'] if a in cand]
        targets = (lg[:3] + [t for t in targets if t not in lg[:3]])[:N_TARGETS]
    if edge and wrnd.random() < 0.85:
        e = [a for a in edge if a in cand]
        wrnd.shuffle(e)
        targets = (e[:2] + [t for t in targets if t not in e])[:N_TARGETS]
    rest = [a for a in cand if a not in targets]
    wrnd.shuffle(rest)
    targets += rest[:N_TARGETS - len(targets)]
    cfg['targets'] = targets
    order = [targets[i] for i in perm if i < len(targets)]
    ops = [make_touch(rnd, st, a, universe, has_wb, targets, allowed_unbounded) for a in order]
    if wrnd.random() < 0.33 and not knobs['computed_refs']:
        # (not next to computed references: what an OFFSET points to is no declared precedent)
        # constants that were brought into the model on their own and changed before (or
        # between) the first touches: whatever is compiled afterwards has to see the new value
        from . import c01
        pinned = set(spec.get('pinned', ()))
        anc = set()
        for t in targets:
            anc |= dag.ancestors(t) | {t}
        consts = [a for a in dag.order if a in universe and a not in pinned and
                  not wbgen.is_formula_cell(dag.cell[a]) and 'cse' not in dag.cell[a]]
        near = [a for a in consts if a in anc]
        writes = []
        for _ in range(wrnd.choice((1, 1, 2, 3))):
            pool = near if near and wrnd.random() < 0.8 else consts
            if not pool:
                break
            a = wrnd.choice(pool)
            v = c01.draw_write(wrnd, dag.cell[a].get('v'), dag.cell[a].get('w'))
            if isinstance(v, str) and v.startswith('='):
                continue
            writes.append({'path': 'set', 'a': a, 'v': v})
        for w in writes:
            ops.insert(0 if wrnd.random() < 0.6 else wrnd.randint(0, len(ops)), w)
    # then: every target through every path, twice
    for rep in range(2):
        for a in targets:
            for path in PATHS:
                op = None
                for _ in range(4):
                    cand_op = make_touch(rnd, st, a, universe, has_wb, targets, allowed_unbounded)
                    if cand_op['path'] == path:
                        op = cand_op
                        break
                if op is not None:
                    ops.append(dict(op, reread=True))
    return {'spec': spec, 'cfg': cfg, 'ops': ops}


def legalise(case):
    st = history.Static(case)
    cfg = case.setdefault('cfg', {})
    cfg['pre'] = [a for a in cfg.get('pre', []) if history._expand(st, [a]) and
                  history._expand(st, [a]) <= st.all]
    st = history.Static(case)
    universe = history.initial_universe(st)
    has_wb = cfg.get('origin', 'nodata') not in history.SERIAL
    ops = []
    for op in case.get('ops', []):
        cells = op.get('addrs') or [op['a']]
        if not all(c in universe for c in cells):
            continue
        if op['path'] == 'set':
            if not wbgen.is_formula_cell(st.dag.cell[op['a']]) and op['a'] not in st.pinned:
                ops.append(op)
            continue
        if 'rng' in op:
            members = set(st.range_members(op['rng']))
            if not members <= universe or op['a'] not in members:
                continue
            if history._unbounded(op['rng']):
                if not has_wb and op['rng'] not in cfg.get('pre', []):
                    continue
            elif not set(wbgen.flat_range(op['rng'])) <= st.all:
                continue
        if op['path'] == 'nosheet' and (
                not has_wb or wbgen.split_addr(op['a'])[0] != st.spec['active']):
            continue
        ops.append(op)
    case['ops'] = ops
    return case


class WrongShape(Exception):
    pass


class BeyondSheet(Exception):
    """an unbounded range came back longer than anything the workbook holds in that direction"""


class OutsideUsedArea(Exception):
    """an unbounded range was clipped so short that the cell is not in it"""


def perform(model, op, limit=None):
    """returns {cell address: value} for the cells this access path yields"""
    from pycel.excelutil import AddressCell, AddressRange
    path = op['path']
    if path == 'cell':
        return {op['a']: model.evaluate(op['a'])}
    if path == 'nosheet':
        return {op['a']: model.evaluate(op['a'].rsplit('!', 1)[1])}
    if path == 'obj':
        return {op['a']: model.evaluate(AddressCell(op['a']))}
    if path in ('list', 'tuple', 'gen'):
        addrs = op['addrs']
        arg = {'list': list(addrs), 'tuple': tuple(addrs), 'gen': (x for x in addrs)}[path]
        res = model.evaluate(arg)
        return dict(zip(addrs, res))
    rng = op['rng']
    res = model.evaluate(AddressRange(rng) if path == 'objrange' else rng)
    sheet, coord = wbgen.split_addr(op['a'])
    r, c = wbgen.coord_rc(coord)
    if path in ('col', 'row') and isinstance(res, tuple) and (
            len(res) == 1 or any(isinstance(x, tuple) and len(x) == 1 for x in res)):
        # a dimension of length one is always trimmed
        raise WrongShape(f'unbounded range returned {values.show(res)}')
    if path in ('col', 'row'):
        # rows 1..used; one column: trimmed to a tuple over rows (or a scalar)
        k = (r if path == 'col' else c) - 1
        if limit is not None and isinstance(res, tuple) and len(res) > limit:
            raise BeyondSheet(f'{rng} returned {len(res)} elements, the sheet ends at {limit}')
        if not isinstance(res, tuple):
            if k != 0:
                raise OutsideUsedArea(f'{rng} returned the scalar {values.show(res)}')
            return {op['a']: res}
        if k >= len(res):
            raise OutsideUsedArea(f'{rng} returned {len(res)} elements, cell is number {k + 1}')
        return {op['a']: res[k]}
    rows = wbgen.range_cells(rng)
    h, w = len(rows), len(rows[0])
    # documented shape: excess dimensions trimmed (Nx1 and 1xN -> flat tuple, 1x1 -> scalar)
    ok = (not isinstance(res, tuple)) if (h == 1 and w == 1) else (
        isinstance(res, tuple) and len(res) == (h if w == 1 or h > 1 else w) and (
            all(not isinstance(x, tuple) for x in res) if (h == 1 or w == 1) else
            all(isinstance(x, tuple) and len(x) == w for x in res)))
    if not ok:
        raise WrongShape(f'{h}x{w} range returned {values.show(res)}')
    out = {}
    for i, row in enumerate(rows):
        for j, addr in enumerate(row):
            if h == 1 and w == 1:
                v = res
            elif w == 1:
                v = res[i]
            elif h == 1:
                v = res[j]
            else:
                v = res[i][j]
            out[addr] = v
    return out


def run_case(case):
    st = history.Static(case)
    cfg = case.get('cfg', {})
    ops = case.get('ops', [])
    counts = {}
    events = []
    state = {'violation': None, 'nontrivial': False}

    def count(k, n=1):
        counts[k] = counts.get(k, 0) + n

    def plan():
        ref = Reference(st.spec, actor=InlineActor())
        states = []
        overrides = {}
        for op in [None] + [o for o in ops if o['path'] == 'set']:
            if op is not None:
                overrides = dict(overrides)
                overrides[op['a']] = op['v']
            exp = {}
            for a in st.dag.order:
                try:
                    exp[a] = ('ok', ref.value(a, overrides))
                except RefError as exc:
                    exp[a] = ('err', str(exc)[:80])
            states.append(exp)
        return states

    exp_states = on_fresh_thread(plan, name='ref')
    expected = exp_states[0]
    stored = {a: v for a, (k, v) in expected.items()
              if k == 'ok' and wbgen.is_formula_cell(st.dag.cell[a])}
    plugin.reset()
    seen = {}
    cell_path_done = set()

    def violate(rule, step, op, expected_, got, **extra):
        if state['violation'] is None:
            state['violation'] = dict(rule=rule, step=step, op=op, expected=expected_,
                                      got=got, **extra)

    def body(driver, first):
        if first:
            origin = cfg.get('origin', 'nodata')
            count('origin:' + origin)
            if origin == 'xlsx':
                driver.build_xlsx(st.spec, stored, strict=False)
            else:
                driver.build_nodata(st.spec)
                if origin in history.SERIAL:
                    pre_cells = [c for a in cfg.get('pre', [])
                                 for c in (st.range_members(a) if ':' in a else [a])]
                    if any(exp_states[0].get(c, ('ok',))[0] == 'err' for c in pre_cells):
                        # the reference cannot evaluate what would be evaluated before the
                        # save (a library function that raises on these operands): the saved
                        # model would hold a range pycel cannot calculate at load time - a
                        # known limit (section 8), not an order question
                        count('probe:run-skipped-reference-raises-before-the-save')
                        return 'done'
                    for a in cfg.get('pre', []):
                        driver.model.evaluate(a)
                    op = {'op': 'restart', 'fmt': origin}
                    out = driver.restart_save(op)
                    if 'exc' in out:
                        violate('exception', -1, op, 'to_file works', out, exc=out['exc'])
                        return 'done'
                    if cfg.get('where') == 'thread':
                        return 'more'
        if driver.model is None:
            out = driver.restart_load({'fmt': cfg['origin']})
            count('fault:restart-' + cfg.get('where', 'same'))
            if 'exc' in out:
                violate('exception', -1, {'op': 'load'}, 'from_file works', out, exc=out['exc'])
                return 'done'
        model = driver.model
        expected = exp_states[0]
        n_writes = 0
        for i, op in enumerate(ops):
            if state['violation']:
                break
            if op['path'] == 'set':
                n_writes += 1
                expected = exp_states[n_writes]
                seen.clear()
                count('sets')
                try:
                    if op['a'] not in model.cell_map:
                        model.evaluate(op['a'])
                        count('probe:written-cell-brought-into-the-model-on-its-own')
                    if any(t not in model.cell_map for t in cfg.get('targets', ())):
                        count('probe:write-before-a-target-is-compiled')
                    model.set_value(op['a'], op['v'])
                except Exception as exc:   # noqa
                    violate('exception', i, op, 'set_value works',
                            f'{type(exc).__name__}: {str(exc)[-200:]}', exc=type(exc).__name__)
                events.append((i, 'set', op['a'], values.jsonable(op['v'])))
                continue
            cells = op.get('addrs') or ([op['a']] if 'rng' not in op else
                                        st.range_members(op['rng']))
            if getattr(model.excel, 'workbook', None) is None and any(
                    'cse' in st.dag.cell.get(m, {}) and m not in model.cell_map for m in cells):
                count('probe:skipped-cse-member-not-in-saved-model')
                events.append((i, 'skip'))
                continue
            count('reads')
            count('path:' + op['path'])
            limit = None
            if op['path'] in ('col', 'row'):
                # nothing in these histories touches a cell the workbook does not have: the
                # used area cannot reach beyond the last cell of the spec
                sh = wbgen.split_addr(op['a'])[0]
                limit = max(wbgen.coord_rc(wbgen.split_addr(x)[1])[0 if op['path'] == 'col' else 1]
                            for x in st.dag.order if wbgen.split_addr(x)[0] == sh)
            try:
                got = perform(model, op, limit)
            except WrongShape as exc:
                violate('wrong-shape', i, op, 'trimmed to the documented shape', str(exc))
                continue
            except BeyondSheet as exc:
                violate('unbounded-range-beyond-the-used-area', i, op,
                        f'at most {limit} elements', str(exc))
                continue
            except OutsideUsedArea as exc:
                kind_e, ev = expected.get(op['a'], ('err', None))
                if kind_e == 'ok' and ev is not None:
                    violate('cell-clipped-out-of-unbounded-range', i, op, values.jsonable(ev),
                            str(exc), cell=op['a'])
                else:
                    # a blank cell at the edge is not part of the used area
                    count('probe:blank-cell-outside-used-area')
                continue
            except Exception as exc:   # noqa
                if op['a'] in cfg.get('poison', ()):
                    count('probe:read-of-a-cell-that-cannot-be-compiled-raised')
                if op['path'] in ('col', 'row') and expected.get(op['a'], ('err', 0))[1] is None:
                    # a blank cell beyond the used area: nothing to clip the range to
                    count('probe:blank-cell-outside-used-area')
                    events.append((i, 'exc-blank', type(exc).__name__))
                    continue
                # (a read that takes in a cell the reference cannot evaluate either may raise)
                involved = op.get('addrs') or (st.range_members(op['rng']) if 'rng' in op
                                               else [op['a']])
                if all(expected.get(c, ('err',))[0] == 'ok' for c in involved):
                    violate('exception', i, op, 'a value', f'{type(exc).__name__}: {str(exc)[-200:]}',
                            exc=type(exc).__name__)
                events.append((i, 'exc', type(exc).__name__))
                continue
            events.append((i, op['path'], sorted((a, values.jsonable(v)) for a, v in got.items()
                                                 if a in st.all)))
            for a, v in got.items():
                if a not in st.all:
                    continue
                if a in cfg.get('poison', ()) and expected.get(a, ('ok',))[0] == 'err':
                    violate('value-where-every-read-has-to-raise', i, op,
                            'an exception (the formula cannot be compiled)', values.jsonable(v),
                            cell=a)
                    break
                if op['path'] == 'cell':
                    cell_path_done.add(a)
                elif a not in cell_path_done and wbgen.is_formula_cell(st.dag.cell[a]):
                    state['nontrivial'] = True
                cv = values.canon(v)
                kind, ev = expected.get(a, ('err', None))
                if kind == 'ok' and values.canon(ev) != cv:
                    violate('differs-from-reference', i, op, values.jsonable(ev),
                            values.jsonable(v), cell=a)
                    break
                if a in seen and seen[a] != cv:
                    violate('reads-disagree', i, op, list(seen[a]), values.jsonable(v), cell=a)
                    break
                seen.setdefault(a, cv)
        return 'done'

    with TmpDir() as tmp:
        driver = Driver(tmp, inline=True)
        first = True
        while on_fresh_thread(body, driver, first, name='sut') == 'more':
            first = False
    v = state['violation']
    if v:
        oc = history.origin_class(cfg.get('origin', 'nodata'))
        # (the access path of the read that showed it is in the record, not in the tag: where
        # a value went wrong and which read meets it first are two things)
        v['path'] = v['op'].get('path')
        if v['rule'] == 'exception':
            v['tag'] = f'exception/{v.get("exc")}/{oc}'
        else:
            v['tag'] = f'{v["rule"]}/{oc}'
    digest = hashlib.sha256(json.dumps(events, default=str).encode()).hexdigest()[:16]
    sig = hashlib.sha256(repr((cfg.get('group'), cfg.get('perm'),
                               [(o['path'], o.get('a')) for o in ops])).encode()).hexdigest()[:16]
    return {
        'violation': v, 'digest': digest, 'sig': sig, 'nontrivial': state['nontrivial'],
        'counts': counts,
        'sample': {'origin': cfg.get('origin'), 'targets': cfg.get('targets'),
                   'permutation': cfg.get('perm'),
                   'first_touches': [f"{o['path']} {o.get('rng') or o.get('addrs') or o['a']}"
                                     for o in ops[:N_TARGETS]]},
    }
