"""C08 trim_graph preserves the outputs as a function of the inputs."""
import hashlib
import json

from .. import history, plugin, values, wbgen
from ..refmodel import InlineActor, Reference, RefError, on_fresh_thread
from ..world import Driver, TmpDir, outcome_of
from . import c01

ID = 'C08'
LEVEL = 'exploration'
RULE = ('generated acyclic workbooks (no stored results / xlsx with stored results); a history '
        'of writes and reads, then trim_graph(inputs, outputs) with inputs drawn from leaf '
        'constants, ranges written in formulas, buried formula cells, outputs that are also '
        'inputs, inputs feeding only some outputs or none; then input re-assignments (cells, '
        'ranges cell-wise and as a block) and output reads, optionally through a save/load '
        'restart (yml/json/pkl, same or fresh thread); every output read is compared with the '
        'untrimmed reference model holding the same inputs (buried inputs as constants). '
        'non-trivial = an output read after trim whose value had to change because of an input '
        'write after trim; distinct = distinct (input kinds, output count, operation sequence, '
        'cache trajectory) digests')
COMPONENTS = dict(c01.COMPONENTS)
ASSUMPTIONS = [
    'outputs are evaluated once before trim_graph, as every use in the repository does',
    'an input range is one some formula references as exactly that range (otherwise trim_graph '
    'logs its documented "not found in cell_map" warning and the statement does not apply)',
    'no input is an ancestor of a buried input (what "current input values" means is then undefined)',
    'trim_graph may raise its documented ValueError when an input has no dependant among the '
    'outputs; any other exception is a violation',
    'after trim only inputs are written and only outputs are read',
]


def budget(tier):
    if tier == 'quick':
        return dict(runs=3000, recheck=16, shrink_tests=300)
    return dict(runs=100000, recheck=48, shrink_tests=500)


def gen_case(rnd, tier, index):
    knobs = wbgen.draw_knobs(rnd)
    knobs['ranges'] = True
    spec = wbgen.generate(rnd, knobs)
    if rnd.random() < 0.1:
        wbgen.add_lookup_gadget(rnd, spec)        # a list no input feeds behind whole-column lookups
    if rnd.random() < 0.06:
        wbgen.add_alias_gadget(rnd, spec)
    branch = rnd.random() < 0.1
    if branch:
        wbgen.add_branch_gadget(rnd, spec)        # branches only one of which is calculated
    dag = wbgen.Dag(spec)
    origin = rnd.choice(('nodata', 'nodata', 'xlsx'))
    cfg = {'origin': origin}
    formulas = dag.formulas()
    if not formulas:
        return {'spec': spec, 'cfg': cfg, 'ops': []}
    n_out = rnd.choice((1, 1, 2, 3))
    outputs = rnd.sample(formulas, min(n_out, len(formulas)))
    if spec.get('lookup_gadget') and rnd.random() < 0.8:
        outputs = rnd.sample(spec['lookup_gadget'], min(len(spec['lookup_gadget']), rnd.choice((1, 2, 3))))
    if branch and rnd.random() < 0.85:
        outputs = list(spec['branch_gadget']['outputs'])
    pinned = set(spec.get('pinned', ()))
    anc = set()
    for o in outputs:
        anc |= dag.ancestors(o)
    anc = [a for a in dag.order if a in anc]     # never iterate a set: PYTHONHASHSEED
    leaf = [a for a in anc if not wbgen.is_formula_cell(dag.cell[a]) and a not in pinned]
    # (a formula that names its own cell - ROW() - is its own dependant and is not frozen)
    buried = [a for a in anc if wbgen.is_formula_cell(dag.cell[a]) and 'cse' not in dag.cell[a]
              and not _names_own_cell(dag.cell[a]['f'])]
    # ranges written literally by formulas the outputs reach, made of constants only
    wranges = []
    for a in list(anc) + outputs:
        for r in dag.cell[a].get('r', ()):
            members = wbgen.flat_range(r)
            if all(m in dag.cell and not wbgen.is_formula_cell(dag.cell[m]) and m not in pinned
                   for m in members) and r not in wranges:
                wranges.append(r)
    inputs = []
    kinds = []
    if leaf:
        k = rnd.randint(1, min(3, len(leaf)))
        inputs += rnd.sample(leaf, k)
        if branch and spec['branch_gadget']['switch'] in leaf and \
                spec['branch_gadget']['switch'] not in inputs:
            inputs.append(spec['branch_gadget']['switch'])
        kinds.append('leaf')
    roll = rnd.random()
    if wranges and roll < 0.35:
        r = rnd.choice(wranges)
        members = set(wbgen.flat_range(r))
        inputs = [a for a in inputs if a not in members] + [r]
        kinds.append('range')
    if buried and rnd.random() < 0.5:
        b = rnd.choice(buried)
        banc = dag.ancestors(b, declared=True)
        # no other input may feed the buried one
        flat_inputs = set()
        for a in inputs:
            flat_inputs.update(wbgen.flat_range(a) if ':' in a else [a])
        if not (flat_inputs & banc) and b not in outputs:
            inputs.append(b)
            kinds.append('buried')
    if rnd.random() < 0.12:
        # a constant that is input and output at once (a formula cell that is both would
        # keep its formula: overwriting formulas is C09's subject, not trim's)
        pool = [a for a in dag.constants() if a not in pinned]
        if pool:
            o = rnd.choice(pool)
            flat_inputs = set()
            for a in inputs:
                flat_inputs.update(wbgen.flat_range(a) if ':' in a else [a])
            if o not in flat_inputs:
                inputs.append(o)
            outputs.append(o)
            kinds.append('output-as-input')
    unrelated = None
    if rnd.random() < 0.12:
        others = [a for a in dag.constants() if a not in anc and a not in pinned and a not in inputs]
        lonely = [a for a in others if not dag.deps.get(a)]
        if lonely and rnd.random() < 0.7:
            others = lonely     # in the model (read before) but nothing depends on it: ValueError
        if others:
            unrelated = rnd.choice(others)
            inputs.append(unrelated)
            kinds.append('unrelated')
    if not inputs:
        return {'spec': spec, 'cfg': cfg, 'ops': []}
    cfg['inputs'], cfg['outputs'], cfg['kinds'] = inputs, outputs, kinds

    ops = []
    consts = [a for a in dag.constants() if a not in pinned]
    cur = {}
    # before trim: a few writes and reads anywhere
    for _ in range(rnd.choice((0, 0, 2, 5))):
        if rnd.random() < 0.5 and consts:
            a = rnd.choice(consts)
            v = c01.draw_write(rnd, cur.get(a, dag.cell[a].get('v')), dag.cell[a].get('w'))
            cur[a] = v
            ops.append({'op': 'set', 'a': a, 'v': v})
        else:
            ops.append({'op': 'eval', 'a': rnd.choice(dag.order), 'form': 'cell'})
    for o in outputs:
        ops.append({'op': 'eval', 'a': o, 'form': 'cell', 'pre_trim': True})
    if unrelated:
        ops.append({'op': 'eval', 'a': unrelated, 'form': 'cell', 'pre_trim': True})
    if rnd.random() < 0.35:
        # inputs assigned after the last evaluation: what depends on them is uncalculated when
        # trim_graph is called, and an assigned buried input holds a value that is not its
        # formula's
        singles = [a for a in inputs if ':' not in a and a != unrelated]
        for a in rnd.sample(singles, min(len(singles), rnd.choice((1, 1, 2)))):
            if wbgen.is_formula_cell(dag.cell[a]):
                v = draw_num(rnd)
            else:
                v = c01.draw_write(rnd, cur.get(a, dag.cell[a].get('v')), dag.cell[a].get('w'))
            cur[a] = v
            ops.append({'op': 'set', 'a': a, 'v': v, 'over_formula': True, 'pre_trim': True})
    first_inputs = list(inputs)
    if unrelated and rnd.random() < 0.5:
        first_inputs = [unrelated]      # the caller first names a wrong cell only
    ops.append({'op': 'trim', 'inputs': first_inputs, 'outputs': list(outputs)})
    if 'unrelated' in kinds:
        # should the call fail with its documented ValueError: the caller corrects the inputs
        # and trims the same compiler again
        ops.append({'op': 'trim', 'inputs': list(inputs[:-1]), 'outputs': list(outputs),
                    'retry': True})
    restarts = 0
    for _ in range(rnd.choice((3, 6, 10, 16))):
        roll = rnd.random()
        if roll < 0.08 and restarts < 2:
            ops.append({'op': 'restart', 'fmt': rnd.choice(history.SERIAL),
                        'where': rnd.choice(('same', 'thread'))})
            restarts += 1
        elif roll < 0.5:
            a = rnd.choice(inputs)
            if ':' in a:
                members = wbgen.flat_range(a)
                if rnd.random() < 0.5:
                    rows = wbgen.range_cells(a)
                    vals = [[draw_num(rnd) for _ in row] for row in rows]
                    ops.append({'op': 'setrange', 'rng': a, 'v': vals})
                    continue
                a = rnd.choice(members)
            if wbgen.is_formula_cell(dag.cell[a]):
                v = draw_num(rnd)
            else:
                v = c01.draw_write(rnd, cur.get(a, dag.cell[a].get('v')), dag.cell[a].get('w'))
            cur[a] = v
            ops.append({'op': 'set', 'a': a, 'v': v, 'over_formula': True})
        else:
            ops.append({'op': 'eval', 'a': rnd.choice(outputs), 'form': 'cell'})
    return legalise({'spec': spec, 'cfg': cfg, 'ops': ops})


def _names_own_cell(formula):
    """ROW() / COLUMN() without an argument, however it is typed"""
    f = ''.join(formula.split())
    return 'ROW()' in f or 'COLUMN()' in f


def draw_num(rnd):
    return rnd.choice((0, 1, 2, -3, 7, 0.5, 12.25, 100, -1.5))


def legalise(case):
    st = history.Static(case)
    cfg = case.get('cfg', {})
    inputs = [a for a in cfg.get('inputs', []) if _exists(st, a)]
    outputs = [a for a in cfg.get('outputs', []) if a in st.all and
               (wbgen.is_formula_cell(st.dag.cell[a]) or a in inputs)]
    inputs = [a for a in inputs if not (a in outputs and wbgen.is_formula_cell(st.dag.cell[a]))]
    flat_inputs = set()
    for a in inputs:
        flat_inputs.update(wbgen.flat_range(a) if ':' in a else [a])
    # a range input must still be written as exactly that range by some formula the
    # outputs reach (only then it is a node of the model that trim_graph sees)
    written = set()
    reach_out = st.dag.closure(outputs) if outputs else set()
    for c in st.spec['cells']:
        if c['a'] in reach_out:
            written.update(c.get('r', ()))
    inputs = [a for a in inputs if ':' not in a or (
        a in written and all(not wbgen.is_formula_cell(st.dag.cell[m])
                             for m in wbgen.flat_range(a)))]
    # buried inputs: no other input above them
    ok_inputs = []
    for a in inputs:
        if ':' not in a and wbgen.is_formula_cell(st.dag.cell[a]):
            others = set()
            for b in inputs:
                if b != a:
                    others.update(wbgen.flat_range(b) if ':' in b else [b])
            if others & st.dag.ancestors(a, declared=True):
                continue
            if 'cse' in st.dag.cell[a] or _names_own_cell(st.dag.cell[a]['f']):
                continue
        ok_inputs.append(a)
    inputs = ok_inputs
    if not inputs or not outputs:
        case['ops'] = []
        cfg['inputs'], cfg['outputs'] = inputs, outputs
        return case
    cfg['inputs'], cfg['outputs'] = inputs, outputs
    flat_inputs = set()
    for a in inputs:
        flat_inputs.update(wbgen.flat_range(a) if ':' in a else [a])
    ops = []
    trimmed = False
    seen_trim = False
    for op in case.get('ops', []):
        k = op['op']
        if k == 'trim':
            if seen_trim:
                if op.get('retry') and len(inputs) > 1:
                    ops.append({'op': 'trim', 'inputs': list(inputs[:-1]),
                                'outputs': list(outputs), 'retry': True})
                continue
            seen_trim = True
            # outputs must have been evaluated once before
            have = {o['a'] for o in ops if o['op'] == 'eval'}
            for o in outputs:
                if o not in have:
                    ops.append({'op': 'eval', 'a': o, 'form': 'cell', 'pre_trim': True})
            own = [a for a in op.get('inputs', []) if a in inputs]
            ops.append({'op': 'trim', 'inputs': own if own and len(own) < len(inputs) else list(inputs),
                        'outputs': list(outputs)})
            trimmed = True
            continue
        if not trimmed:
            if k == 'eval' and op['a'] in st.all:
                ops.append(op)
            elif k == 'set' and op['a'] in st.all and not wbgen.is_formula_cell(
                    st.dag.cell[op['a']]) and op['a'] not in st.pinned:
                ops.append(op)
            elif k == 'set' and op.get('pre_trim') and op['a'] in flat_inputs and any(
                    o['op'] == 'eval' and o.get('pre_trim') for o in ops):
                # a buried input assigned between the evaluation of the outputs and the trim
                ops.append(op)
            continue
        if k == 'eval':
            if op['a'] in outputs:
                ops.append(op)
        elif k == 'set':
            if op['a'] in flat_inputs:
                ops.append(op)
        elif k == 'setrange':
            if op['rng'] in inputs:
                ops.append(op)
        elif k == 'restart':
            ops.append(op)
    if not seen_trim:
        ops = []
    case['ops'] = ops
    return case


def _exists(st, a):
    if ':' in a:
        try:
            return all(m in st.all for m in wbgen.flat_range(a))
        except Exception:
            return False
    return a in st.all


def run_case(case):
    st = history.Static(case)
    cfg = case.get('cfg', {})
    ops = case.get('ops', [])
    dag = st.dag
    counts = {}
    events = []
    sig_items = []
    state = {'violation': None, 'nontrivial': False}

    def count(k, n=1):
        counts[k] = counts.get(k, 0) + n

    def violate(rule, step, op, expected_, got, **extra):
        if state['violation'] is None:
            state['violation'] = dict(rule=rule, step=step, op=op, expected=expected_,
                                      got=got, **extra)

    inputs = cfg.get('inputs', [])
    flat_inputs = set()
    for a in inputs:
        flat_inputs.update(wbgen.flat_range(a) if ':' in a else [a])

    def plan():
        ref = Reference(st.spec, actor=InlineActor())
        expected = {}
        overrides = {}
        stored = {}
        if cfg.get('origin') == 'xlsx':
            for a in dag.formulas():
                try:
                    stored[a] = ref.value(a, {})
                except RefError:
                    pass
        allowed_valueerror = False
        for i, op in enumerate(ops):
            k = op['op']
            if k == 'eval':
                try:
                    expected[i] = ('ok', ref.value(op['a'], overrides))
                except RefError as exc:
                    expected[i] = ('err', str(exc)[:80])
            elif k == 'set':
                overrides = dict(overrides)
                overrides[op['a']] = op['v']
            elif k == 'setrange':
                overrides = dict(overrides)
                for row_a, row_v in zip(wbgen.range_cells(op['rng']), op['v']):
                    for a, v in zip(row_a, row_v):
                        overrides[a] = v
            elif k == 'trim':
                overrides = dict(overrides)
                for a in op['inputs']:
                    if ':' not in a and wbgen.is_formula_cell(dag.cell[a]):
                        try:
                            overrides[a] = ref.value(a, overrides)
                        except RefError:
                            expected[i] = ('err', 'buried input has no reference value')
                # is the documented ValueError permitted?
                reach = dag.closure(op['outputs'])
                for a in op['inputs']:
                    members = wbgen.flat_range(a) if ':' in a else [a]
                    if a in op['outputs']:
                        continue
                    if not any((set(dag.deps.get(m, ())) & reach) for m in members):
                        allowed_valueerror = True
                    # a written range whose formula is not among the outputs' precedents
                    if ':' in a and not any(a in dag.cell[x].get('r', ()) for x in reach
                                            if x in dag.cell):
                        allowed_valueerror = True
        return expected, stored, allowed_valueerror

    expected, stored, allowed_valueerror = on_fresh_thread(plan, name='ref')
    plugin.reset()
    pos = {'i': 0, 'pending': None, 'built': False, 'trimmed': False, 'wrote_after_trim': False,
           'stopped': False}
    last_seen = {}

    def body(driver):
        if not pos['built']:
            pos['built'] = True
            count('origin:' + cfg.get('origin', 'nodata'))
            if cfg.get('origin') == 'xlsx':
                driver.build_xlsx(st.spec, stored)
            else:
                driver.build_nodata(st.spec)
        if pos['pending'] is not None:
            op, pos['pending'] = pos['pending'], None
            out = driver.restart_load(op)
            count('fault:restart-' + op.get('where', 'same'))
            if 'exc' in out:
                violate('exception', pos['i'] - 1, op, 'load works', out, exc=out['exc'])
                return 'done'
        while pos['i'] < len(ops) and not state['violation'] and not pos['stopped']:
            i, op = pos['i'], ops[pos['i']]
            pos['i'] += 1
            k = op['op']
            model = driver.model
            count('ops')
            if k == 'eval':
                kind_e, exp = expected[i]
                if kind_e == 'err':
                    count('probe:ref-raised-step-skipped')
                    continue
                out = driver.step(op)
                events.append((i, 'eval', op['a'], out.get('v'), out.get('exc'),
                               history.cache_digest(model)))
                sig_items.append(('e', history.cache_digest(model)))
                if pos['trimmed']:
                    count('output-reads-after-trim')
                    ce = values.canon(exp)
                    if op['a'] in last_seen and last_seen[op['a']] != ce and pos['wrote_after_trim']:
                        count('probe:output-changed-by-input-write-after-trim')
                        state['nontrivial'] = True
                    last_seen[op['a']] = ce
                if 'exc' in out:
                    violate('exception', i, op, values.jsonable(exp), out, exc=out['exc'])
                elif values.canon(exp) != c01._canon_json(out['v']):
                    violate('wrong-output' if pos['trimmed'] else 'stale-read-before-trim',
                            i, op, values.jsonable(exp), out['v'])
            elif k == 'set':
                out = driver.step(op)
                events.append((i, 'set', op['a'], values.jsonable(op['v']), out.get('exc')))
                sig_items.append(('s',))
                if pos['trimmed']:
                    pos['wrote_after_trim'] = True
                    count('input-writes-after-trim')
                if 'exc' in out:
                    violate('exception', i, op, 'set_value works', out, exc=out['exc'])
            elif k == 'setrange':
                vals = tuple(tuple(r) for r in op['v'])
                out = driver.actor.call(outcome_of, lambda: model.set_value(op['rng'], vals))
                events.append((i, 'setrange', op['rng'], out.get('exc')))
                sig_items.append(('S',))
                pos['wrote_after_trim'] = True
                count('input-range-block-writes-after-trim')
                if 'exc' in out:
                    violate('exception', i, op, 'set_value(range) works', out, exc=out['exc'])
            elif k == 'trim':
                if expected.get(i, ('ok',))[0] == 'err':
                    pos['stopped'] = True
                    continue
                if op.get('retry'):
                    if pos['trimmed']:
                        continue          # the first call worked
                    count('probe:trim-again-after-a-failed-trim')
                for kind in cfg.get('kinds', []):
                    count('probe:trim-with-input-kind-' + kind)
                out = driver.step(op)
                events.append((i, 'trim', out.get('exc'), history.cache_digest(model)))
                sig_items.append(('t', tuple(cfg.get('kinds', [])), len(op['outputs'])))
                if 'exc' in out:
                    if out['exc'] == 'ValueError' and allowed_valueerror:
                        count('probe:documented-ValueError-input-without-dependants')
                        nxt = ops[pos['i']] if pos['i'] < len(ops) else None
                        if not (nxt and nxt['op'] == 'trim' and nxt.get('retry')):
                            pos['stopped'] = True
                    else:
                        violate('exception', i, op, 'trim_graph works' + (
                            ' (ValueError permitted)' if allowed_valueerror else ''), out,
                            exc=out['exc'])
                elif set(op['inputs']) != set(inputs) and not op.get('retry'):
                    # the call with the wrong cell only went through (a cell that is not in
                    # the model is just a warning): the model is now trimmed for other inputs
                    # than the history assumes - nothing more to compare
                    count('probe:trim-with-wrong-input-did-not-fail')
                    pos['stopped'] = True
                else:
                    pos['trimmed'] = True
                    # every address the outputs can reach is still in the model
                    # live = cells the outputs reach that depend on an input; they and
                    # their direct precedents (live or frozen) must still be there
                    reach = dag.closure(op['outputs'], declared=False) | set(op['outputs'])
                    live = set(op['outputs'])
                    for m in flat_inputs:
                        live |= (dag.descendants(m) | {m}) & reach
                    required = set(live)
                    for x in live:
                        if x not in flat_inputs:
                            required.update(dag.prec.get(x, ()))
                    missing = [a for a in sorted(required) if a not in model.cell_map and
                               'cse' not in dag.cell[a]]
                    if missing:
                        violate('needed-cell-removed', i, op, 'cell kept', missing[:5])
            elif k == 'restart':
                count('restart-fmt:' + op['fmt'])
                if pos['trimmed']:
                    count('probe:restart-after-trim')
                out = driver.restart_save(op)
                sig_items.append(('r', op['fmt'], op.get('where')))
                if 'exc' in out:
                    violate('exception', i, op, 'save works', out, exc=out['exc'],
                            during='to_file')
                    return 'done'
                pos['pending'] = op
                if op.get('where') == 'thread':
                    return 'more'
                op2, pos['pending'] = pos['pending'], None
                out = driver.restart_load(op2)
                count('fault:restart-' + op.get('where', 'same'))
                if 'exc' in out:
                    violate('exception', i, op, 'load works', out, exc=out['exc'],
                            during='from_file')
        return 'done'

    with TmpDir() as tmp:
        driver = Driver(tmp, inline=True)
        k = 0
        while on_fresh_thread(body, driver, name=f'sut-{k}') == 'more':
            k += 1
    v = state['violation']
    if v:
        kinds = '+'.join(sorted(set(cfg.get('kinds', []))))
        restarted = any(o['op'] == 'restart' for o in ops[:max(v['step'], 0)])
        where = 'after-restart' if restarted else 'direct'
        if v['rule'] == 'exception':
            v['tag'] = f'exception/{v.get("exc")}/{v["op"].get("op")}/{kinds}/{where}'
        else:
            v['tag'] = f'{v["rule"]}/{kinds}/{where}'
    digest = hashlib.sha256(json.dumps(events, default=str).encode()).hexdigest()[:16]
    sig = hashlib.sha256(repr((cfg.get('origin'), sig_items)).encode()).hexdigest()[:16]
    return {
        'violation': v, 'digest': digest, 'sig': sig, 'nontrivial': state['nontrivial'],
        'counts': counts,
        'sample': {'origin': cfg.get('origin'), 'inputs': cfg.get('inputs'),
                   'input_kinds': cfg.get('kinds'), 'outputs': cfg.get('outputs'),
                   'ops': [_short(o) for o in ops[:14]]},
    }


def _short(op):
    if op['op'] == 'trim':
        return f"trim inputs={op['inputs']} outputs={op['outputs']}"
    if op['op'] == 'setrange':
        return f"set {op['rng']} := {op['v']}"
    return c01._short(op)
