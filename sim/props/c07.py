"""C07 evaluations on different threads are isolated from each other."""
import hashlib
import json
import os
import random

from .. import core, history, plugin, sched, seams, values, wbgen
from ..refmodel import on_fresh_thread
from ..world import TmpDir, outcome_of
from . import c01, c06, c08

ID = 'C07'
LEVEL = 'exploration'
JK = 24          # resolution of the systematic (j, k) family
LINE_JK = 1000   # resolution of (j, k) drawn at line granularity
RULE = ('2-3 real threads, each with its own compiled workbook and program (iterative '
        'evaluation with per-thread iterations/tolerance and a PROBE pass counter; array-formula '
        'evaluation that needs expanding / trimming / NA-filling; plain set_value/evaluate '
        'history; from_file of plain and iterative models; set_value + trim_graph; acyclic book '
        'in iterative mode; in 3 percent of the randomly scheduled runs of the thorough tier a 400-cell chain that '
        'exhausts the interpreter\'s recursion limit and has to fail the same way next to other '
        'threads), compiled from an in-memory workbook or (a quarter of them) from a workbook '
        'file, models built inside or outside the thread, threads fresh or '
        'warmed-up with another workbook, started as plain threading.Thread or (a quarter of the '
        'randomly scheduled runs) inside a copy of the contextvars context of a starter thread '
        'that has used the library, as asyncio.to_thread does; exactly one thread runs at a time and every switch is '
        'decided by the schedule at yield points of cell-evaluation granularity (operation '
        'boundaries, entry/return of every formula evaluation and of every _C_/_R_ read). '
        'Schedules: the systematic family "A runs to its j-th yield point, B runs to completion '
        'or to its k-th yield point, A finishes, B finishes" (%d x %d grid over the alone-run '
        'lengths, enumerated over consecutive run indexes per workload pair) and seeded random '
        'switching (p = 0.02-0.5). A quarter of the randomly scheduled runs and all runs of the '
        'last segment (site sweep) use LINE granularity instead: sys.settrace on the controlled '
        'threads makes every change of line inside pycel\'s own source files a yield point '
        '(library functions, helpers, graph building, loading included); the site sweep walks '
        'the pre-emption point through the distinct functions the first thread passes through '
        '(low-discrepancy sequence over run indexes, so that a ten-line helper is pre-empted as '
        'often as the evaluation loop) and in 60 percent of these runs stops the second thread a '
        'few lines past one of its own visits of the same function, so that both threads are '
        'inside it at once. Oracle: per thread, the list of operation outcomes and pass counts '
        'and a digest of the cells and dependency edges of the model the thread ended up with '
        'equal those of the same program run alone on a used thread; the same holds alone on a '
        'fresh and on a warmed-up thread; and the first case of every worker process (and of '
        'every replay) first evaluates a sheet with a broad sample of library functions on the '
        'thread that thereby imports the function library and again on a thread that did not - '
        'both must agree. non-trivial = a run with at least one switch taken '
        'while the pre-empted thread was inside a formula evaluation; distinct = distinct '
        'sequences of switches actually taken' % (JK, JK))
COMPONENTS = {
    'real': ['pycel from the working tree incl. its two threading.local() singletons and the '
             'process-global function metadata', 'CPython threads (threading.Thread), '
             'threading.local', 'ruamel.yaml / json / pickle for from_file workloads', 'openpyxl'],
    'stub': ['baton-passing scheduler (sim/sched.py): decides which thread runs after every '
             'yield point', 'yield points installed through ExcelFormula.build_eval_context '
             '(sim/seams.py) and, at line granularity, through sys.settrace on the controlled '
             'threads (line events of files below pycel/ only, one per change of line in a frame)',
             'PROBE plugin (pass counter)', 'program generator and driver'],
}
ASSUMPTIONS = [
    'pre-emption happens at yield points of cell-evaluation granularity (what the statement '
    'quantifies over) and, in the line-grained runs, between lines of pycel\'s own source; '
    'never between the bytecodes of one line and never inside openpyxl / networkx / ruamel',
    'two threads never share a compiler (neither pycel nor the statement promises that)',
    'KF4 (CELL / reference-form INDEX read through whichever compiler loaded the function last) '
    'is a known finding: only a fixed minority of runs uses CELL',
]

KINDS = ('iterative', 'array', 'plain', 'load', 'trim', 'iter-acyclic', 'failing')


MIXED = {'quick': (1152, 2400), 'thorough': (JK * JK * 60, JK * JK * 60 + 40000)}
SITE_RUNS = {'quick': 1200, 'thorough': 40000}


def budget(tier):
    if tier == 'quick':
        return dict(runs=MIXED['quick'][1] + SITE_RUNS['quick'], recheck=12, shrink_tests=200)
    return dict(runs=MIXED['thorough'][1] + SITE_RUNS['thorough'], recheck=32, shrink_tests=400)


# ---------------------------------------------------------------------------
# programs

def prog_iterative(rnd, tname):
    base = c06.gen_case_b(rnd, 'quick')
    cfg = base['cfg']
    cfg['origin'] = 'nodata'
    cfg['iter'] = [rnd.choice((3, 10, 40)), 10 ** rnd.uniform(-5, -2)]
    spec = c06.spec_b(cfg)
    for c in spec['cells']:
        if 'f' in c:
            c['f'] = c['f'].replace('PROBE("', f'PROBE("{tname}:')
    n = cfg['n']
    targets = [f'S!B{i + 1}' for i in range(n)] + (['S!C1'] if cfg.get('extra') else [])
    ops = []
    for _ in range(rnd.choice((1, 2, 3))):
        if ops and rnd.random() < 0.3:
            ops.append({'op': 'set', 'a': f'S!A{rnd.randrange(n) + 1}',
                        'v': round(rnd.uniform(-5, 5), 3)})
        op = {'op': 'eval', 'a': rnd.choice(targets), 'form': 'cell'}
        if rnd.random() < 0.5:
            op['iterations'] = rnd.choice((2, 5, 17))
        if rnd.random() < 0.4:
            op['tolerance'] = 10 ** rnd.uniform(-5, -1)
        ops.append(op)
    return {'kind': 'iterative', 'spec': spec, 'ops': ops}


def prog_array(rnd, tname):
    vals = [round(rnd.uniform(-9, 9), 2) for _ in range(4)]
    cells = [{'a': f'S!A{i + 1}', 'v': vals[i]} for i in range(3)]
    cells.append({'a': 'S!B1', 'v': vals[3]})

    def block(ref, f, p):
        for a in wbgen.flat_range(ref):
            cells.append({'a': a, 'cse': ref, 'f': f, 'p': p, 'd': []})
    a13 = ['S!A1', 'S!A2', 'S!A3']
    block('S!D1:D3', '=B1*2', ['S!B1'])                    # scalar expanded over 3x1
    block('S!E1:E2', '=A1:A3+1', a13)                      # trimmed
    block('S!F1:F4', '=A1:A2-B1', ['S!A1', 'S!A2', 'S!B1'])  # filled with #N/A
    block('S!G1:H3', '=A1:A3*B1', a13 + ['S!B1'])          # one column expanded to two
    cells.append({'a': 'S!C5', 'f': '=SUM(D1:D3)+E2', 'p': ['S!D1', 'S!D2', 'S!D3', 'S!E2'], 'd': []})
    # functions that ask "am I inside an array formula?": inside one they work per element,
    # outside an array argument is itself the error case
    block('S!I1:I3', '=IFERROR(A1:A3/B1,-1)', a13 + ['S!B1'])
    block('S!J1:J3', '=IFNA(A1:A3,7)', a13)
    cells.append({'a': 'S!C6', 'f': '=IFERROR(A1:A3,5)', 'p': a13, 'd': []})
    cells.append({'a': 'S!C7', 'f': '=IFNA(A1:A2,9)+B1', 'p': ['S!A1', 'S!A2', 'S!B1'], 'd': []})
    cells.append({'a': 'S!C8', 'f': '=IFS(A1:A3>0,1,TRUE,2)', 'p': a13, 'd': []})
    spec = {'sheets': ['S'], 'active': 'S', 'data_sheet': None, 'cells': cells, 'names': {},
            'iter': None, 'pinned': []}
    targets = ['S!D1:D3', 'S!E1:E2', 'S!F1:F4', 'S!G1:H3', 'S!D2', 'S!F4', 'S!H3', 'S!C5', 'S!E1',
               'S!I1:I3', 'S!J1:J3', 'S!I2', 'S!C6', 'S!C7', 'S!C8', 'S!C6', 'S!C8']
    ops = []
    for _ in range(rnd.choice((2, 3, 5))):
        if ops and rnd.random() < 0.3:
            ops.append({'op': 'set', 'a': rnd.choice(['S!B1'] + a13), 'v': round(rnd.uniform(-9, 9), 2)})
        t = rnd.choice(targets)
        ops.append({'op': 'eval', 'rng': t, 'form': 'range'} if ':' in t else
                   {'op': 'eval', 'a': t, 'form': 'cell'})
    return {'kind': 'array', 'spec': spec, 'ops': ops}


def prog_plain(rnd, tname, iterative=False):
    knobs = wbgen.draw_knobs(rnd, n_cells=(5, 12))
    spec = wbgen.generate(rnd, knobs)
    if iterative:
        spec['iter'] = [rnd.choice((2, 20)), rnd.choice((0.01, 0.001))]
    ops = c01.gen_ops(rnd, spec, {'origin': 'nodata'}, rnd.choice((3, 5, 8)), restart_rate=0,
                      set_rate=0.35, allow_restart=False)
    ops = [o for o in ops if o.get('form') != 'nosheet']
    return {'kind': 'iter-acyclic' if iterative else 'plain', 'spec': spec, 'ops': ops}


def prog_load(rnd, tname):
    if rnd.random() < 0.5:
        p = prog_iterative(rnd, tname)
    else:
        p = prog_plain(rnd, tname, iterative=rnd.random() < 0.3)
    p['loaded_kind'] = p['kind']
    p['kind'] = 'load'
    # no plugin functions in saved models: _from_text evaluates ranges before from_file has
    # handed the plugins over (a limitation outside the claimed properties)
    for c in p['spec']['cells']:
        if 'f' in c and c['f'].startswith('=PROBE('):
            c['f'] = '=' + c['f'].split(',', 1)[1][:-1]
    p['fmt'] = rnd.choice(('yml', 'json', 'pkl'))
    return p


def prog_trim(rnd, tname):
    for _ in range(6):
        case = c08.gen_case(rnd, 'quick', 0)
        if case.get('ops'):
            break
    case['spec'].pop('iter', None)
    case['spec']['iter'] = None
    ops = [o for o in case['ops'] if o['op'] != 'restart']
    return {'kind': 'trim', 'spec': case['spec'], 'ops': ops}


def prog_cellfn(rnd, tname):
    v = round(rnd.uniform(1, 99), 2)
    cells = [{'a': 'S!A1', 'v': v}, {'a': 'S!A2', 'v': 1},
             {'a': 'S!B1', 'f': '=A2+CELL("contents",OFFSET(A1,0,0))', 'p': ['S!A1', 'S!A2'], 'd': []},
             {'a': 'S!C1', 'f': '=CELL("contents",OFFSET(A1,0,0))*2', 'p': ['S!A1'], 'd': []}]
    spec = {'sheets': ['S'], 'active': 'S', 'data_sheet': None, 'cells': cells, 'names': {},
            'iter': None, 'pinned': []}
    ops = [{'op': 'eval', 'a': 'S!B1', 'form': 'cell'},
           {'op': 'set', 'a': 'S!A1', 'v': round(rnd.uniform(100, 199), 2)},
           {'op': 'eval', 'a': 'S!B1', 'form': 'cell'},
           {'op': 'eval', 'a': 'S!C1', 'form': 'cell'},
           {'op': 'set', 'a': 'S!A1', 'v': round(rnd.uniform(200, 299), 2)},
           {'op': 'eval', 'a': 'S!B1', 'form': 'cell'},
           {'op': 'eval', 'a': 'S!C1', 'form': 'cell'}]
    return {'kind': 'cellfn', 'spec': spec, 'ops': ops}


def prog_deep(rnd, tname):
    """a chain far deeper than the interpreter's recursion limit allows (pycel evaluates
    precedents recursively): fails alone, has to fail the same way next to other threads.
    The same program every time (a failing evaluation of this depth takes seconds, the
    alone runs are kept per worker process)."""
    n = 400
    cells = [{'a': 'S!A1', 'v': 1}]
    cells += [{'a': f'S!A{i}', 'f': f'=A{i - 1}+1', 'p': [f'S!A{i - 1}'], 'd': []}
              for i in range(2, n + 1)]
    cells.append({'a': 'S!B1', 'f': '=A3*2', 'p': ['S!A3'], 'd': []})
    spec = {'sheets': ['S'], 'active': 'S', 'data_sheet': None, 'cells': cells, 'names': {},
            'iter': None, 'pinned': []}
    ops = [{'op': 'eval', 'a': 'S!B1', 'form': 'cell'},
           {'op': 'eval', 'a': f'S!A{n}', 'form': 'cell'},
           {'op': 'eval', 'a': f'S!A{n // 8}', 'form': 'cell'}]
    return {'kind': 'deep', 'spec': spec, 'ops': ops}


def prog_failing(rnd, tname):
    """evaluations that raise (a function pycel does not have, or a circular reference in a
    workbook that is not compiled for iterative calculation) next to others that work"""
    from . import c09
    p = prog_plain(rnd, tname, iterative=rnd.random() < 0.4)
    dag = wbgen.Dag(p['spec'])
    forms = [a for a in dag.formulas() if 'cse' not in dag.cell[a]]
    if not forms:
        return p
    site = rnd.choice(forms)
    if rnd.random() < 0.7 or p['spec'].get('iter'):
        p['spec'] = c09.wrap_spec(p['spec'], site, 'unknown')
    else:
        # a cell that refers to itself: RecursionError -> pycel's own error
        for c in p['spec']['cells']:
            if c['a'] == site:
                c['f'] = c['f'] + '+' + wbgen.split_addr(site)[1]
    deps = sorted(dag.descendants(site))
    evals = [{'op': 'eval', 'a': rnd.choice([site] + deps), 'form': 'cell'}
             for _ in range(rnd.choice((1, 2, 3)))]
    ops = list(p['ops'])
    for e in evals:
        ops.insert(rnd.randint(0, len(ops)), e)
    p['ops'] = ops
    p['kind'] = 'failing'
    return p


def prog_slowplug(rnd, tname):
    """formulas that call functions of a plugin module whose import takes a while (the first
    evaluation of a compiler imports its function modules)"""
    v = round(rnd.uniform(1, 50), 2)
    cells = [{'a': 'S!A1', 'v': v},
             {'a': 'S!B1', 'f': '=SLOWA(A1)+1', 'p': ['S!A1'], 'd': []},
             {'a': 'S!C1', 'f': '=SLOWB(A1)*2', 'p': ['S!A1'], 'd': []},
             {'a': 'S!D1', 'f': '=SLOWB(B1)+SLOWA(C1)', 'p': ['S!B1', 'S!C1'], 'd': []},
             {'a': 'S!E1', 'f': '=A1*3', 'p': ['S!A1'], 'd': []}]
    spec = {'sheets': ['S'], 'active': 'S', 'data_sheet': None, 'cells': cells, 'names': {},
            'iter': None, 'pinned': []}
    targets = ['S!B1', 'S!C1', 'S!D1', 'S!E1', 'S!C1']
    ops = [{'op': 'eval', 'a': rnd.choice(targets), 'form': 'cell'}
           for _ in range(rnd.choice((2, 3, 4)))]
    if rnd.random() < 0.5:
        ops.insert(1, {'op': 'set', 'a': 'S!A1', 'v': round(rnd.uniform(1, 50), 2)})
    return {'kind': 'slowplug', 'spec': spec, 'ops': ops, 'plugins': ['sim.plugin', 'sim.slowplug']}


def draw_program(rnd, tname, kind):
    if kind == 'slowplug':
        p = prog_slowplug(rnd, tname)
        p['name'] = tname
        p['build'] = rnd.choice(('inside', 'outside'))
        p['warm'] = rnd.random() < 0.3
        return p
    if kind == 'deep':
        p = prog_deep(rnd, tname)
    elif kind == 'failing':
        p = prog_failing(rnd, tname)
    elif kind == 'iterative':
        p = prog_iterative(rnd, tname)
    elif kind == 'array':
        p = prog_array(rnd, tname)
    elif kind == 'plain':
        p = prog_plain(rnd, tname)
    elif kind == 'iter-acyclic':
        p = prog_plain(rnd, tname, iterative=True)
    elif kind == 'load':
        p = prog_load(rnd, tname)
    elif kind == 'trim':
        p = prog_trim(rnd, tname)
    else:
        p = prog_cellfn(rnd, tname)
    p['name'] = tname
    p['build'] = rnd.choice(('inside', 'inside', 'outside', 'handoff'))
    if p['build'] == 'handoff' and kind in ('load', 'cellfn'):
        p['build'] = 'outside'
    if kind == 'deep':
        p['build'] = 'inside'
    if kind in ('plain', 'iter-acyclic', 'array', 'iterative', 'failing') and rnd.random() < 0.25:
        p['xlsx'] = True       # compiled from a workbook file instead of an in-memory workbook
    p['warm'] = rnd.random() < 0.4
    return p


def gen_case(rnd, tier, index):
    grid = JK * JK
    systematic = index < MIXED[tier if tier in MIXED else 'quick'][0]
    if systematic:
        pair = index // grid
        prnd = random.Random(core.run_seed('C07/pair', pair))
        kinds = [prnd.choice(KINDS), prnd.choice(KINDS)]
        # make sure the pairs the statement names come first
        named = [('iterative', 'iterative'), ('iterative', 'array'), ('array', 'array'),
                 ('iterative', 'plain'), ('array', 'plain'), ('load', 'iterative')]
        if pair < len(named):
            kinds = list(named[pair])
        programs = [draw_program(prnd, f'T{i}', k) for i, k in enumerate(kinds)]
        j = (index % grid) // JK
        k = index % JK
        schedule = {'family': 'jk', 'j': j + 1, 'k': k, 'J': JK, 'K': JK}
        cfg = {'pair': pair}
    elif index >= MIXED[tier if tier in MIXED else 'quick'][1]:
        # site sweep: the function in which the first thread is pre-empted walks through the
        # functions of its alone run (low-discrepancy sequence over run indexes), see below
        n_ = index - MIXED[tier if tier in MIXED else 'quick'][1]
        kinds = [rnd.choice(KINDS), rnd.choice(KINDS)]
        # (a failing evaluation traced line by line through pycel's error capture is slow)
        kinds = [k_ if k_ != 'failing' or rnd.random() < 0.3 else 'plain' for k_ in kinds]
        programs = [draw_program(rnd, f'T{i}', k) for i, k in enumerate(kinds)]
        schedule = {'family': 'site', 'u': round((n_ * 0.6180339887498949) % 1.0, 6),
                    'v': round((n_ * 0.7548776662466927) % 1.0, 6),
                    'k': rnd.choice((0, 0, rnd.randrange(1, LINE_JK))), 'K': LINE_JK,
                    'first': n_ % 2, 'grain': 'line'}
        if rnd.random() < 0.8:
            schedule['meet'] = [round(rnd.random(), 6), rnd.choice((0, 1, 2, 3, 5, 8))]
        cfg = {'ctx': True} if rnd.random() < 0.25 else {}
    else:
        n = rnd.choice((2, 2, 3))
        kf4 = index % 50 == 17
        kinds = [rnd.choice(KINDS) for _ in range(n)]
        if kf4:
            kinds = ['cellfn', 'cellfn'] + kinds[2:]
        elif tier == 'thorough' and rnd.random() < 0.03:
            kinds[rnd.randrange(n)] = 'deep'      # (a failing evaluation of that depth: seconds)
        slow = (not kf4) and index % 25 == 7
        if slow:
            # two first evaluations that import the same slow plugin module, or one of them
            # next to an ordinary workload
            kinds = ['slowplug', rnd.choice(('slowplug', 'slowplug', 'array', 'plain'))] + kinds[2:]
        programs = [draw_program(rnd, f'T{i}', k) for i, k in enumerate(kinds)]
        names = [pr['name'] for pr in programs]
        line = (not kf4) and (not slow) and rnd.random() < 0.25 and 'deep' not in kinds and (
            'failing' not in kinds or rnd.random() < 0.3)
        if line and rnd.random() < 0.5:
            # A is pre-empted inside a function drawn uniformly from the *distinct* functions
            # of pycel its alone run passes through (so that a leaf function that accounts
            # for ten lines is as likely as the evaluation loop), at one of that function's
            # lines; B runs to the end or to its k-th line
            schedule = {'family': 'site', 'u': round(rnd.random(), 6), 'v': round(rnd.random(), 6),
                        'k': rnd.choice((0, 0, rnd.randrange(1, LINE_JK))), 'K': LINE_JK,
                        'first': rnd.randrange(len(names)), 'grain': 'line'}
            if rnd.random() < 0.6:
                # ... and B is stopped inside the *same* function (a few lines past one of
                # its own visits), so that both threads are in the middle of it at once
                schedule['meet'] = [round(rnd.random(), 6), rnd.choice((0, 1, 2, 3, 5, 8))]
        elif line and rnd.random() < 0.5:
            # "A to its j-th line, B to its k-th line or to the end, A, B" at line granularity
            schedule = {'family': 'jk', 'j': rnd.randrange(1, LINE_JK), 'J': LINE_JK,
                        'k': rnd.choice((0, rnd.randrange(1, LINE_JK))), 'K': LINE_JK,
                        'grain': 'line'}
        else:
            p = rnd.choice((0.001, 0.003, 0.01, 0.03)) if line else \
                rnd.choice((0.02, 0.05, 0.1, 0.2, 0.5))
            horizon, longest = (400000, 20000) if line else (6000, 400)
            steps = []
            s = 0
            while s < horizon and len(steps) < 600:
                gap = 1 + int(rnd.expovariate(p)) if line else 1
                while not line and rnd.random() > p and gap < longest:
                    gap += 1
                s += min(gap, longest)
                steps.append([s, rnd.choice(names)])
            schedule = {'family': 'random', 'p': p, 'switches': steps}
            if line:
                schedule['grain'] = 'line'
        cfg = {'ctx': True} if rnd.random() < 0.25 else {}
        if slow and rnd.random() < 0.8:
            # the thread that imports is pre-empted in the middle of the import; the other one
            # runs to its end or for k yield points
            schedule = {'family': 'import', 'k': rnd.choice((0, 0, 0, rnd.randrange(1, 40))),
                        'first': rnd.randrange(2)}
    return {'spec': programs[0]['spec'], 'cfg': cfg, 'programs': programs, 'schedule': schedule,
            'ops': []}


def legalise(case):
    return case


# ---------------------------------------------------------------------------
# executing one program

def make_model(prog, tmp, suffix):
    """build (or save+describe) the model of a program; runs on the calling thread"""
    from pycel import ExcelCompiler
    plugins = tuple(prog.get('plugins') or ('sim.plugin',))
    if prog.get('xlsx'):
        # load of a workbook *file* (openpyxl reader, pycel's patches of it) on this thread
        path = os.path.join(tmp, f'{prog["name"]}-{suffix}.xlsx')
        wbgen.to_xlsx(prog['spec'], path, {})
        model = ExcelCompiler(filename=path, plugins=plugins)
    else:
        wb = wbgen.to_workbook(prog['spec'])
        model = ExcelCompiler(excel=wb, plugins=plugins)
    if prog.get('build') == 'handoff':
        # the thread that compiled the workbook also used it (its first evaluation, which sets
        # the compiler's evaluation context up, happens here), then hands it to another thread
        first = next((o for o in prog['ops'] if o['op'] == 'eval'), None)
        if first is not None:
            try:
                model.evaluate(first['rng'] if first.get('form') == 'range' else first['a'])
            except Exception:   # noqa
                pass
    if prog['kind'] == 'load':
        for c in prog['spec']['cells']:
            try:
                model.evaluate(c['a'])
            except Exception:   # noqa
                pass
        base = os.path.join(tmp, f'{prog["name"]}-{suffix}')
        model.to_file(base, file_types=(prog['fmt'],))
        return base + '.' + prog['fmt']
    return model


def execute(prog, model_or_path, tmp, suffix, yield_point=None):
    """the thread body: returns the list of outcomes (values, exception classes, pass counts)"""
    from pycel import ExcelCompiler
    out = []
    log = plugin.STATE['probe_log']
    if plugin.STATE.get('env_log') is None:
        plugin.STATE['env_log'] = []
    env_log = plugin.STATE['env_log']
    prefix = prog['name'] + ':'

    def yp(what):
        if yield_point:
            yield_point(what)

    yp('start')
    box = {}
    if prog['kind'] == 'load':
        res = outcome_of(lambda: box.__setitem__('m', ExcelCompiler.from_file(
            model_or_path, plugins=('sim.plugin',))))
        if 'exc' in res:
            res.pop('msg', None)
            return [dict(res, during='from_file')]
        model = box['m']
        out.append({'v': ['text', 'loaded']})
    elif model_or_path is None:
        res = outcome_of(lambda: box.__setitem__('m', make_model(prog, tmp, suffix)))
        if 'exc' in res:
            res.pop('msg', None)
            return [dict(res, during='build')]
        model = box['m']
    else:
        model = model_or_path
    for op in prog['ops']:
        yp('op')
        start = len(log)
        env_start = len(env_log)
        k = op['op']
        if k == 'eval':
            arg = op['rng'] if op.get('form') == 'range' else op['a']
            if op.get('form') == 'list':
                arg = [op['a']]
            elif op.get('form') == 'tuple':
                arg = (op['a'],)
            elif op.get('form') == 'gen':
                arg = (x for x in [op['a']])
            elif op.get('form') == 'obj':
                from pycel.excelutil import AddressCell
                arg = AddressCell(op['a'])
            kwargs = {kk: op[kk] for kk in ('iterations', 'tolerance') if op.get(kk) is not None}
            res = outcome_of(lambda: model.evaluate(arg, **kwargs))
        elif k == 'set':
            if op['a'] not in model.cell_map:
                outcome_of(lambda: model.evaluate(op['a']))
            res = outcome_of(lambda: model.set_value(op['a'], op['v']))
        elif k == 'setrange':
            vals = tuple(tuple(r) for r in op['v'])
            res = outcome_of(lambda: model.set_value(op['rng'], vals))
        elif k == 'trim':
            res = outcome_of(lambda: model.trim_graph(op['inputs'], op['outputs']))
        else:
            continue
        res.pop('msg', None)
        calls = {}
        for tag, x in log[start:]:
            if tag.startswith(prefix):
                calls[tag] = calls.get(tag, 0) + 1
        if calls:
            res['passes'] = sorted(calls.items())
        envs = sorted({repr(e) for tag, e in env_log[env_start:] if tag.startswith(prefix)})
        if envs:
            # the settings this thread's formulas saw while they were being evaluated
            res['settings'] = [hashlib.sha256(e.encode()).hexdigest()[:8] for e in envs] \
                if len(envs) == 1 else envs
        out.append(res)
    # what the thread built, not only what it returned: the cells and the edges of its model
    try:
        edges = sorted((str(u.address), str(v.address)) for u, v in model.dep_graph.edges())
        cells = sorted(model.cell_map)
        out.append({'graph': hashlib.sha256(repr((cells, edges)).encode()).hexdigest()[:12],
                    'cells': len(cells), 'edges': len(edges)})
    except Exception as exc:   # noqa
        out.append({'graph': f'unreadable: {type(exc).__name__}'})
    yp('end')
    return out


def warm_up(heavy):
    """what a thread did before its program: nothing / trivial use / heavy use"""
    from pycel import ExcelCompiler
    if heavy is None:
        return
    spec = {'sheets': ['W'], 'active': 'W', 'data_sheet': None, 'names': {}, 'pinned': [],
            'iter': None, 'cells': [{'a': 'W!A1', 'v': 2}, {'a': 'W!B1', 'f': '=A1*3'}]}
    if not heavy:
        ExcelCompiler(excel=wbgen.to_workbook(spec)).evaluate('W!B1')
        return
    spec['iter'] = [7, 0.5]
    spec['cells'] += [{'a': 'W!C1', 'f': '=0.5*C2+A1'}, {'a': 'W!C2', 'f': '=0.25*C1+1'},
                      {'a': 'W!E1', 'cse': 'W!E1:E3', 'f': '=A1*2'}, {'a': 'W!E2', 'cse': 'W!E1:E3', 'f': '=A1*2'},
                      {'a': 'W!E3', 'cse': 'W!E1:E3', 'f': '=A1*2'}]
    m = ExcelCompiler(excel=wbgen.to_workbook(spec))
    for a in ('W!C1', 'W!E1:E3', 'W!B1'):
        try:
            m.evaluate(a, iterations=3, tolerance=0.75)
        except Exception:   # noqa
            pass


def run_alone(prog, tmp, suffix, heavy, same_thread=False):
    """reference / fresh / warm execution of one program without any other thread;
    same_thread: the thread that built (and first used) the model also runs the program"""
    box = {}
    if prog['kind'] == 'slowplug':
        sched.forget_module('sim.slowplug')

    def setup():
        box['m'] = None if prog['build'] == 'inside' and prog['kind'] != 'load' else make_model(
            prog, tmp, suffix)

    def body():
        warm_up(heavy)
        return execute(prog, box['m'], tmp, suffix)
    if same_thread:
        return on_fresh_thread(lambda: (setup(), body())[1], name=f'alone-{suffix}')
    on_fresh_thread(setup, name=f'setup-{suffix}')
    return on_fresh_thread(body, name=f'alone-{suffix}')


def src_prefix():
    import pycel
    return os.path.dirname(os.path.abspath(pycel.__file__)) + os.sep


def count_events(prog, tmp, suffix, grain='cell'):
    """length of the alone run in yield points (for resolving (j, k))"""
    box = {}
    if prog['kind'] == 'slowplug':
        sched.forget_module('sim.slowplug')

    def setup():
        box['m'] = None if prog['build'] == 'inside' and prog['kind'] != 'load' else make_model(
            prog, tmp, suffix)
    on_fresh_thread(setup, name=f'setup-{suffix}')
    s = sched.Scheduler([prog['name']], [], step_cap=10 ** 8, grain=grain, prefix=src_prefix())
    if grain == 'line':
        s.site_steps = {}
    s.run({prog['name']: lambda: execute(prog, box['m'], tmp, suffix, s.yield_point)})
    return s.step, s.site_steps


_REF_CACHE = {}
_CANARY = {'done': False}
CANARY_FORMULAS = (
    '=ROUND(2.5,0)', '=ROUND(0.125,2)', '=ROUND(7.45,1)', '=ROUND(-2.5,0)', '=ROUNDUP(2.11,1)',
    '=ROUNDDOWN(-2.19,1)', '=ROUND(25,-1)', '=MROUND(7.5,5)', '=CEILING(2.1,1)', '=FLOOR(2.9,1)',
    '=INT(-2.5)', '=TRUNC(2.99)', '=MOD(-7,3)', '=POWER(2,0.5)', '=SQRT(2)', '=LN(10)',
    '=LOG(100,10)', '=EXP(1)', '=PI()', '=1/3', '=0.1+0.2', '=2^0.5', '=10%', '=1E+22+1',
    '=DATE(2020,2,29)', '=YEAR(44000)', '=MONTH(44000)', '=DAY(44000)', '=WEEKDAY(44000)',
    '=EDATE(44000,1)', '=EOMONTH(44000,1)', '=DATEVALUE("2021-03-04")', '=TIMEVALUE("12:30")',
    '=YEARFRAC(43831,44196)', '=UPPER("stra\u00dfe")', '=LOWER("\u00c9T\u00c9")', '=LEN("\u00e9\u4e2d")',
    '=LEFT("abcdef",2)', '=MID("abcdef",2,3)', '=FIND("c","abc")', '=SUBSTITUTE("aaa","a","b",2)',
    '=CONCATENATE("a",1,TRUE)', '=VALUE("1.5")', '=TEXT(0.125,"0.00")', '=TEXT(2.5,"0")',
    '=TRIM("  a  b ")', '=REPT("ab",2)', '=1&""', '=1.5&""', '=TRUE&""', '="a"<"B"', '="10"<"9"',
    '=SUM(A1:A4)', '=AVERAGE(A1:A4)', '=MAX(A1:A4)', '=MIN(A1:A4)', '=COUNT(A1:A4)',
    '=SUMIF(A1:A4,">1")', '=COUNTIF(A1:A4,"<>2")', '=SUMPRODUCT(A1:A4,A1:A4)', '=VLOOKUP(2,A1:B4,2)',
    '=MATCH(2.5,A1:A4)', '=INDEX(A1:B4,2,2)', '=IFERROR(1/0,7)', '=AND(TRUE,1)', '=OR(FALSE,0)',
    '=NPV(0.1,A1:A4)', '=STDEV(A1:A4)', '=VAR(A1:A4)', '=MEDIAN(A1:A4)', '=LARGE(A1:A4,2)',
    '=ABS(-2.5)', '=SIGN(-2)', '=FACT(5)', '=ATAN2(1,1)', '=HEX2DEC("FF")', '=DEC2BIN(5)',
)


def library_canary():
    """The first evaluation in a process imports pycel's function library on the thread that
    happens to do it.  Whatever that import sets up per thread (decimal context, locale, ...)
    is missing on every other thread: a sheet that calls a broad sample of library functions
    gives the same on the thread that imported and on a thread that did not."""
    spec = {'sheets': ['K'], 'active': 'K', 'data_sheet': None, 'names': {}, 'pinned': [],
            'iter': None,
            'cells': [{'a': f'K!A{i + 1}', 'v': v} for i, v in enumerate((1, 2.5, 2, 4.125))] +
                     [{'a': f'K!B{i + 1}', 'v': v} for i, v in enumerate((10, 20, 30, 40))] +
                     [{'a': f'K!D{i + 1}', 'f': f} for i, f in enumerate(CANARY_FORMULAS)]}
    targets = [f'K!D{i + 1}' for i in range(len(CANARY_FORMULAS))]

    def run():
        from pycel import ExcelCompiler
        model = ExcelCompiler(excel=wbgen.to_workbook(spec))
        out = []
        for a in targets:
            res = outcome_of(lambda: model.evaluate(a))
            res.pop('msg', None)
            out.append(res)
        return out
    first = on_fresh_thread(run, name='canary-importing-thread')
    second = on_fresh_thread(run, name='canary-other-thread')
    for i, (x, y) in enumerate(zip(first, second)):
        if x != y:
            return CANARY_FORMULAS[i], x, y
    return None


def run_case(case):
    programs = case['programs']
    schedule = case['schedule']
    counts = {}
    state = {'violation': None, 'nontrivial': False}

    def count(k, c=1):
        counts[k] = counts.get(k, 0) + c

    def violate(rule, thread, expected_, got, **extra):
        if state['violation'] is None:
            state['violation'] = dict(rule=rule, step=extra.pop('step', 0),
                                      op={'op': 'program', 'thread': thread},
                                      expected=expected_, got=got, **extra)

    names = [p['name'] for p in programs]
    plugin.reset()
    seams.install()     # before any model exists: a compiler whose evaluation context was made
    #                     earlier (a model handed over after its first use) would have no yield points
    if not _CANARY['done']:
        # first case of this process: nothing has evaluated a formula yet
        _CANARY['done'] = True
        diff = library_canary()
        count('library-canary-runs')
        if diff:
            # kept apart: the case itself runs as usual, so that its digest does not depend on
            # whether it happened to be the first case of its process
            state['canary'] = dict(rule='fresh-thread-differs', step=0,
                                   op={'op': 'program', 'thread': 'canary'},
                                   expected=[diff[1]], got=[diff[2]], kind='library-canary',
                                   build=diff[0])
    grain = schedule.get('grain', 'cell')
    key = hashlib.sha256(json.dumps([programs, grain], sort_keys=True, default=str).encode()
                         ).hexdigest()     # names the workload in the distinctness signature
    with TmpDir() as tmp:
        # 1. alone on a used thread (reference), alone on a fresh thread, alone on a warm thread
        #    (kept per program for the life of the worker process)
        ref, lengths, sites = {}, {}, {}
        for p in programs:
            # (the alone runs do not look at 'warm'; the deep chain has no per-thread probes)
            kp = {k_: v_ for k_, v_ in p.items()
                  if k_ != 'warm' and not (k_ == 'name' and p['kind'] == 'deep')}
            pkey = hashlib.sha256(json.dumps([kp, grain, core.log_mode(case)], sort_keys=True,
                                             default=str).encode()).hexdigest()
            if pkey in _REF_CACHE:
                ref[p['name']], lengths[p['name']], sites[p['name']] = _REF_CACHE[pkey]
                continue
            # (a model handed over by the thread that first used it: the reference is that
            # very thread going on with it)
            ref[p['name']] = run_alone(p, tmp, 'ref', heavy=False,
                                       same_thread=p['build'] == 'handoff')
            if p['build'] == 'handoff':
                count('probe:model-first-evaluated-on-another-thread')
            fresh = run_alone(p, tmp, 'fresh', heavy=None)
            count('alone-runs', 2)
            if fresh != ref[p['name']]:
                i = _first_diff(ref[p['name']], fresh)
                violate('fresh-thread-differs', p['name'], ref[p['name']][i:i + 1],
                        fresh[i:i + 1], step=i, kind=p['kind'], build=p['build'])
                break
            warm = run_alone(p, tmp, 'warm', heavy=True)
            count('alone-runs')
            count('fault:warm-thread')
            if warm != ref[p['name']]:
                i = _first_diff(ref[p['name']], warm)
                violate('warm-thread-differs', p['name'], ref[p['name']][i:i + 1],
                        warm[i:i + 1], step=i, kind=p['kind'], build=p['build'])
                break
            lengths[p['name']], sites[p['name']] = count_events(p, tmp, 'len', grain)
            if len(_REF_CACHE) > 12:
                _REF_CACHE.clear()
            _REF_CACHE[pkey] = (ref[p['name']], lengths[p['name']], sites[p['name']])
        switches = []
        taken = []
        if not state['violation']:
            # 2. resolve the schedule
            if schedule.get('family') == 'jk' and 'switches' not in schedule:
                a, b = names[0], names[1]
                na, nb = lengths[a], lengths[b]
                j = max(1, (schedule['j'] * na) // schedule['J'])
                switches = [[j, b]]
                if schedule['k'] > 0:
                    k = max(1, (schedule['k'] * nb) // schedule['K'])
                    switches.append([j + k, a])
                count('schedule:jk')
            elif schedule.get('family') == 'site' and 'switches' not in schedule:
                first = names[schedule['first'] % len(names)]
                other = [n for n in names if n != first][0]
                table = sites[first] or {}
                # helpers and library functions three times as often as the functions of
                # the compiler itself (those are covered at cell granularity as well)
                keys = [k_ for k_ in sorted(table)
                        for _ in range(1 if k_.startswith(('excelcompiler.py', 'excelformula.py'))
                                       else 3)]
                if keys:
                    site = keys[min(len(keys) - 1, int(schedule['u'] * len(keys)))]
                    occ = table[site]
                    j = occ[min(len(occ) - 1, int(schedule['v'] * len(occ)))]
                    # the first thread to run is names[0]: hand over at once if need be
                    switches = [] if first == names[0] else [[1, first]]
                    off = 0 if first == names[0] else 1
                    switches.append([j + off, other])
                    meet = schedule.get('meet')
                    occ_b = (sites.get(other) or {}).get(site)
                    if meet and occ_b:
                        at = occ_b[min(len(occ_b) - 1, int(meet[0] * len(occ_b)))]
                        switches.append([j + off + at + meet[1], first])
                        count('probe:both-threads-inside-the-same-function')
                    elif schedule['k'] > 0:
                        k = max(1, (schedule['k'] * lengths[other]) // schedule['K'])
                        switches.append([j + off + k, first])
                    count('site-targeted:' + site.split(':')[0])
                count('schedule:site')
            elif schedule.get('family') == 'import' and 'switches' not in schedule:
                first = names[schedule['first'] % len(names)]
                switches = [] if first == names[0] else [[1, first]]
                count('schedule:import')
            else:
                switches = [list(s) for s in schedule.get('switches', [])]
                count('schedule:' + schedule.get('family', 'explicit'))
            cap = 20 * sum(lengths.values()) + 1000
            # 3. the concurrent run
            models = {}

            def setup():
                for p in programs:
                    models[p['name']] = None if (p['build'] == 'inside' and p['kind'] != 'load') \
                        else make_model(p, tmp, 'conc')
            if any(p['kind'] == 'slowplug' for p in programs):
                sched.forget_module('sim.slowplug')
            on_fresh_thread(setup, name='setup-conc')
            s = sched.Scheduler(names, switches, step_cap=cap, grain=grain, prefix=src_prefix())
            if any(p['kind'] == 'slowplug' for p in programs):
                sched.install_import_seam()
                if schedule.get('family') == 'import' or schedule.get('import_pause'):
                    s.on_import_pause = (None, schedule.get('k', 0))

            def body(p):
                def run():
                    if p.get('warm'):
                        warm_up(True)
                    return execute(p, models[p['name']], tmp, 'conc', s.yield_point)
                return run
            box = {}

            def start():
                # the thread that starts the others has used the library itself
                if case.get('cfg', {}).get('ctx'):
                    warm_up(True)
                    count('fault:threads-started-in-a-copied-context')
                box['r'] = s.run({p['name']: body(p) for p in programs},
                                 copy_context=bool(case.get('cfg', {}).get('ctx')))
            on_fresh_thread(start, name='starter')
            results = box['r']
            taken = s.switches_taken
            count('scheduled-runs')
            count('yield-points', s.step)
            count('fault:preempt', len(taken))
            if s.import_pauses:
                count('fault:import-that-takes-a-while', s.import_pauses)
                count('probe:thread-waited-for-a-module-another-thread-was-importing',
                      s.import_waits)
            count('probe:preemption-inside-a-formula-evaluation', s.preempt_inside_eval)
            count('grain:' + grain)
            for site in s.switch_sites:
                count('probe:line-preemption-in:' + site.split(':')[0])
            if s.switch_sites:
                count('probe:line-preemption-inside-a-library-function',
                      sum(1 for x in s.switch_sites if not x.startswith('excelcompiler.py')
                          and not x.startswith('excelformula.py')))
            for p in programs:
                if p.get('warm'):
                    count('fault:warm-thread')
                count('workload:' + p['kind'])
                count('build:' + p['build'])
            if s.preempt_inside_eval:
                state['nontrivial'] = True
            for p in programs:
                kind, val = results[p['name']]
                if kind == 'cap':
                    violate('step-cap-exceeded', p['name'], f'<= {cap} yield points', val,
                            kind=p['kind'])
                    break
                if kind == 'exc':
                    violate('thread-died', p['name'], 'program returns', val, kind=p['kind'])
                    break
                if val != ref[p['name']]:
                    i = _first_diff(ref[p['name']], val)
                    other = [q['kind'] for q in programs if q['name'] != p['name']]
                    violate('differs-from-alone-run', p['name'], ref[p['name']][i:i + 1],
                            val[i:i + 1], step=i, kind=p['kind'], others=other,
                            build=p['build'])
                    break
    v = state['violation'] or state.get('canary')
    if v:
        kinds = sorted(p['kind'] for p in programs)
        if 'cellfn' in kinds and v['rule'] == 'differs-from-alone-run' and v.get('kind') == 'cellfn':
            v['tag'] = 'cell-function-reads-through-another-compiler'
        elif v['rule'] in ('fresh-thread-differs', 'warm-thread-differs'):
            v['tag'] = f'{v["rule"]}/{v.get("kind")}/{v.get("build")}'
        else:
            v['tag'] = f'{v["rule"]}/{v.get("kind")}/vs-' + '+'.join(sorted(v.get('others', [])))
        v['resolved_switches'] = switches
        v['switches_taken'] = taken
    digest = hashlib.sha256(json.dumps([taken, [(n, ref.get(n)) for n in names]],
                                       default=str).encode()).hexdigest()[:16]
    sig = hashlib.sha256(repr(([p['kind'] for p in programs], key[:8], taken)).encode()
                         ).hexdigest()[:16]
    return {'violation': v, 'digest': digest, 'sig': sig, 'nontrivial': state['nontrivial'],
            'counts': counts,
            'sample': {'programs': [{'thread': p['name'], 'kind': p['kind'], 'build': p['build'],
                                     'warm': p.get('warm'),
                                     'ops': [c08._short(o) for o in p['ops'][:5]]}
                                    for p in programs],
                       'schedule': {k_: v_ for k_, v_ in schedule.items() if k_ != 'switches'},
                       'switches_taken': taken[:12]}}


def _first_diff(a, b):
    for i, (x, y) in enumerate(zip(a, b)):
        if x != y:
            return i
    return min(len(a), len(b))


# ---------------------------------------------------------------------------
# minimisation: explicit switch list first, then ddmin over switches and operations

def shrink(case, tag, max_tests):
    budget = [max_tests]

    def fails(c):
        try:
            core.apply_log_mode(c)
            r = run_case(json.loads(json.dumps(c)))
        except Exception:   # noqa
            return None
        v = r.get('violation')
        return r if (v and v.get('tag') == tag) else None

    r = fails(case)
    if not r:
        return case
    best = json.loads(json.dumps(case))
    # make the schedule explicit: only the switches that were actually taken
    taken = [[st, to] for st, _, to in r['violation'].get('switches_taken', [])]
    cand = json.loads(json.dumps(best))
    grain = best['schedule'].get('grain', 'cell')
    cand['schedule'] = {'family': 'explicit', 'switches': taken, 'grain': grain}
    if fails(cand):
        best = cand

    def with_switches(sw):
        c = json.loads(json.dumps(best))
        c['schedule'] = {'family': 'explicit', 'switches': sw, 'grain': grain}
        return c
    if best['schedule'].get('switches'):
        sw = core.ddmin_list(best['schedule']['switches'],
                             lambda s: fails(with_switches(s)) is not None, budget)
        if fails(with_switches(sw)):
            best = with_switches(sw)
    # drop whole threads (keep >= 1), then operations per thread
    for idx in range(len(best['programs']) - 1, -1, -1):
        if len(best['programs']) <= 1 or budget[0] <= 0:
            break
        c = json.loads(json.dumps(best))
        del c['programs'][idx]
        budget[0] -= 1
        if fails(c):
            best = c
    for idx in range(len(best['programs'])):
        def with_ops(ops, idx=idx):
            c = json.loads(json.dumps(best))
            c['programs'][idx]['ops'] = ops
            return c
        ops = core.ddmin_list(best['programs'][idx]['ops'],
                              lambda o: fails(with_ops(o)) is not None, budget)
        if fails(with_ops(ops)):
            best = with_ops(ops)
    for idx in range(len(best['programs'])):
        for flag in ('warm',):
            if best['programs'][idx].get(flag):
                c = json.loads(json.dumps(best))
                c['programs'][idx][flag] = False
                if fails(c):
                    best = c
    return best
