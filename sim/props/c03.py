"""C03 persisted models are observationally equivalent to the model that was saved."""
import hashlib
import json
import os
import random

import numpy as np

from .. import history, plugin, seams, values, wbgen
from ..refmodel import InlineActor, Reference, RefError, on_fresh_thread
from ..world import Driver, TmpDir, outcome_of, run_child
from . import c01, c06

ID = 'C03'
LEVEL = 'exploration'
RULE = ('seeded save/load histories over files: a model (acyclic, iterative-acyclic or with a '
        'contracting cycle; constants from a pool hostile to yaml/json; optional extra_data; '
        'built from an in-memory workbook or a real xlsx) is saved with drawn file-type '
        'combinations (yml, json, pkl, pkl+yml, pkl+json) interleaved with set_value/evaluate, '
        'and loaded from name.ext or the bare name on the same thread, a fresh thread, a '
        'brand-new interpreter under another PYTHONHASHSEED, or a fresh thread inside one; '
        'oracles: every saved cell equal to the original, a post-load set/evaluate history '
        'answered identically by both, re-saving an unchanged model byte-identical, the '
        'loaded model re-saved has equal parsed content, cycles / filename / hash / extra_data '
        'survive, from_file after a successful to_file reflects that save whatever the '
        'file-type history. A separate share of runs injects file faults (n-th write fails or '
        'is torn, open fails, unlink fails) into one to_file; nothing is asserted about that '
        'save, everything again about the next successful one. non-trivial = a load whose '
        'model had changed inputs or several saves before it; distinct = distinct (save types '
        'sequence, load targets, where, fault plan, post history) digests')
COMPONENTS = {
    'real': ['pycel from the working tree (to_file, from_file, _to_text, _from_text, '
             '_CompiledImporter)', 'ruamel.yaml, json, pickle, marshal', 'file system (tmp dir '
             'per run)', 'child CPython interpreters with PYTHONHASHSEED=4242 for fresh-process loads',
             'CPython threads + thread-locals', 'openpyxl'],
    'stub': ['file-object / os proxy that fails or tears the n-th write issued by to_file '
             '(sim/seams.FileSeam, bound to the module-global open/os of pycel.excelcompiler)',
             'xlsx writer stub', 'history generator and driver'],
}
ASSUMPTIONS = [
    'the original is built with every saved cell evaluated, so staleness of the original (C01) '
    'cannot masquerade as a persistence defect; equality is between loaded and original',
    'for circular blocks "same value" is within 2 x q/(1-q) x tolerance (a loaded model '
    'iterates from blank, the original from its previous values)',
    'a load target is name.ext for an ext the last successful save wrote, or the bare name '
    '(from_file then has to read the file of that name that was written last, whatever types '
    'the earlier saves wrote) unless the newest file of that name is what a failed save left',
    'crash model: a failure surfaced at a file call, file system contents as they are at that '
    'instant; no power-loss model (pycel never syncs)',
    'only user keys of extra_data are compared (to_file adds its own keys to that dict)',
]

HOSTILE_TEXT = ('1e3', 'TRUE', 'false', 'null', '~', 'a: b', '- x', '{a: 1}', '[1, 2]', 'yes', 'no',
                ' lead', 'trail ', 'multi\nline', 'tab\tbed', 'ünïcødé ✓', "it's", '"quoted"',
                '0123', '1_000', '2021-01-01', '1:30', '.5', '0x1F', '1e22', '#', '# c', '@x',
                '%y', '!tag', '&anchor', '*alias', '|', '>', '? q', 'key: [', "'", '""', '\\n',
                'x' * 130, 'a,b', '-0.0', 'on', 'off', '12e', 'S!A1', '3 ', 'smile \U0001F600 x',
                '\u00e9\u4e2d\u6587', 'back\\slash', 'q"uote\\"',
                # line breaks other than \\n, DEL and C1 controls, byte order mark
                'nel\x85x', 'ls\u2028x', 'ps\u2029 y', 'del\x7fx', 'c1\x9cx', 'bom\ufeffx',
                # what an escape for text beginning with '=' would have to leave alone
                "'=B1*2", "'=", "''", "'")
# not in the pool: 'NaN', 'inf', '.inf' - pycel's number coercion turns such text into float
# nan/inf (operator semantics, C10, not claimed) and the original model itself then raises
HOSTILE_NUM = (1e-7, 1e22, -0.0, 0.1 + 0.2, 123456789012345678, 1e-300, 2 ** 53 + 1.0, -1e-5,
               1.0, 100.0, 0.30000000000000004, 1e16, 12345678.9, 2.057729175256282e-05,
               1.234e-07, 6.02214076e23)
# not in the pool: 5e-324 and 1.8e308 - one division or product away from inf, which pycel's
# operators cannot handle (C10, not claimed)
FORMULA_TEXT = ('=1+1', '=A1', '=SUM(A1:A2)', '=', '=x')


def budget(tier):
    if tier == 'quick':
        return dict(runs=1500, recheck=12, shrink_tests=150, process_share=0.03)
    return dict(runs=40000, recheck=32, shrink_tests=300, process_share=0.04)


def hostile_value(rnd, allow_formula_text=False):
    roll = rnd.random()
    if allow_formula_text and roll < 0.5:
        return rnd.choice(FORMULA_TEXT)
    if roll < 0.45:
        return rnd.choice(HOSTILE_TEXT)
    if roll < 0.75:
        return rnd.choice(HOSTILE_NUM)
    if roll < 0.85:
        return rnd.choice((True, False))
    if roll < 0.9:
        return None
    return c01.draw_write(rnd, 1)


SAVE_TYPES = (['yml'], ['json'], ['pkl'], ['pkl', 'yml'], ['pkl', 'json'], ['yml', 'pkl'])


def gen_case(rnd, tier, index):
    bud = budget(tier)
    workload = rnd.choice(('acyclic', 'acyclic', 'acyclic', 'iter-acyclic', 'cycle'))
    cfg = {'workload': workload}
    if workload == 'cycle':
        base = c06.gen_case_b(rnd, tier)
        spec = base['spec']
        cfg.update({k: base['cfg'][k] for k in ('n', 'rows', 'b', 'iter', 'extra', 'cse_q') if k in base['cfg']})
        cfg['iter'] = [200, 10 ** rnd.uniform(-6, -3)]
        spec['iter'] = cfg['iter']
        # PROBE is not needed here: plain formulas
        for c in spec['cells']:
            if 'f' in c and c['f'].startswith('=PROBE('):
                c['f'] = '=' + c['f'].split(',', 1)[1][:-1]
        cfg['origin'] = 'nodata'
    else:
        knobs = wbgen.draw_knobs(rnd)
        spec = wbgen.generate(rnd, knobs)
        if workload == 'iter-acyclic':
            spec['iter'] = [rnd.choice((5, 100)), rnd.choice((0.01, 0.001))]
        cfg['origin'] = rnd.choice(('nodata', 'nodata', 'nodata', 'xlsx'))
        # hostile constants
        if rnd.random() < 0.7:
            for c in spec['cells']:
                if 'v' in c and c['a'] not in spec.get('pinned', ()) and rnd.random() < 0.5:
                    c['v'] = hostile_value(rnd)
                    if c['v'] == '':
                        c['v'] = None     # an xlsx file cannot hold an empty text constant
    if workload != 'cycle' and rnd.random() < 0.3:
        # a formula longer than one line of the text file, with text literals in it
        main = next(s_ for s_ in spec['sheets'] if s_ != spec.get('data_sheet'))
        first = next((c['a'] for c in spec['cells'] if wbgen.split_addr(c['a'])[0] == main), None)
        lits = rnd.sample(('"ab  cd"', '"x   y"', '" lead"', '"a: b"', '"tail  "', '"q - r"',
                           '"#  no"', '"1,  2"'), 4)
        body = '&'.join(rnd.choice(lits) for _ in range(rnd.randint(10, 16)))
        if first:
            body += '&' + wbgen.split_addr(first)[1]
        spec['cells'].append({'a': f'{main}!{wbgen.rc_coord(40, 1)}', 'f': '=' + body,
                              'p': [first] if first else [], 'd': []})
    if workload != 'cycle' and index % 50 == 13:
        # text as long as a cell can hold (32767 characters), words of 97 characters separated by
        # two blanks: wherever a writer breaks such a line, it breaks it at a run of blanks
        unit = 'w' * 97 + '  '
        long_text = (unit * 331)[:32767 - 8] + 'tail end'
        consts_ = [c for c in spec['cells'] if 'v' in c and c['a'] not in spec.get('pinned', ())]
        if consts_:
            rnd.choice(consts_)['v'] = long_text
            cfg['long_text'] = True
    long_chain = workload == 'acyclic' and index % 40 == 11
    if long_chain:
        # a deep model (a column of some hundred cells, each from the one above)
        wbgen.add_long_chain_gadget(rnd, spec)
        cfg['origin'] = 'nodata'
        cfg['long_chain'] = True
    dag = wbgen.Dag(spec)
    if rnd.random() < 0.3:
        cfg['extra_data'] = rnd.choice((
            {'note': 'x'}, {'k': [1, 2, 3], 'nested': {'a': 1.5, 'b': None}},
            {'author': 'ünï', 'version': 3, 'flag': True}))
    # D10 (text constant starting with '=' is reloaded as code) is a known finding: only
    # runs with index % 25 == 7 write such text (re-confirmation), all others avoid it
    formula_text = index % 25 == 7
    cfg['formula_text'] = formula_text
    cfg['faults'] = rnd.random() < 0.25
    cfg['touch_source'] = cfg.get('origin') == 'xlsx' and rnd.random() < 0.5
    consts = [a for a in dag.constants() if a not in spec.get('pinned', ())]
    cur = {}

    with_deps = [a for a in consts if dag.deps.get(a)]
    if long_chain:
        # evaluations in address order only (sweep): a cold read of row 400 is deeper than the
        # interpreter allows, which is not what is being checked here
        consts = [a for a in consts if a != 'Bal!A1']
        with_deps = ['Bal!B1'] * 3 + [a for a in with_deps if not a.startswith('Bal!')]

    def draw_set():
        a = rnd.choice(with_deps) if with_deps and rnd.random() < 0.7 else rnd.choice(consts)
        recent.append(a)
        if workload == 'cycle':
            v = round(rnd.uniform(-5, 5), 3)
        elif a == 'Bal!B1':
            # (a rate that overflows 480 rows down makes every row raise, and a failure that
            # deep takes pycel minutes to report)
            v = rnd.choice(dag.cell[a]['w'])
        elif rnd.random() < 0.5:
            v = hostile_value(rnd, allow_formula_text=formula_text)
        else:
            v = c01.draw_write(rnd, cur.get(a, dag.cell[a].get('v')), dag.cell[a].get('w'))
        cur[a] = v
        return {'op': 'set', 'a': a, 'v': v}

    recent = []

    def draw_eval():
        if long_chain:
            return {'op': 'sweep', 'a': 'Bal!A1'}
        # prefer what the most recent writes can have changed
        if recent and rnd.random() < 0.6:
            deps = sorted(dag.descendants(recent[-1]))
            if deps:
                return {'op': 'eval', 'a': rnd.choice(deps), 'form': 'cell'}
        return {'op': 'eval', 'a': rnd.choice(dag.order), 'form': 'cell'}

    ops = []
    names = ['m1', 'm2']
    n_events = rnd.choice((2, 3, 4, 6))
    # a share of the runs keeps to one name and one text format and only toggles the pickle:
    # this is where "the pickle is only rewritten when the text changed" has to be right
    gating = rnd.random() < 0.3
    if gating:
        names = ['m1']
        gtext = rnd.choice(('yml', 'json'))
        n_events = rnd.choice((4, 6, 8))
    fault_placed = False
    for _ in range(n_events):
        for _ in range(rnd.choice((0, 0, 1, 2))):
            if consts and rnd.random() < 0.7:
                ops.append(draw_set())
            else:
                ops.append(draw_eval())
        if rnd.random() < 0.12:
            # the user's notes change between two saves (assigned anew, or edited in place)
            ops.append({'op': 'extra', 'mode': rnd.choice(('assign', 'edit')),
                        'data': rnd.choice(({'note': 'y', 'n': 2}, {'rev': [4, 5]},
                                            {'author': 'z', 'flag': False}))})
        roll = rnd.random()
        if roll < 0.55 or not any(o['op'] == 'save' for o in ops):
            op = {'op': 'save', 'name': rnd.choice(names), 'types': list(rnd.choice(SAVE_TYPES)),
                  'with_ext': rnd.random() < 0.15}
            if op['with_ext']:
                op['types'] = [rnd.choice(('yml', 'json', 'pkl'))]
            if gating:
                op['with_ext'] = False
                op['types'] = list(rnd.choice((['pkl', gtext], [gtext], ['pkl', gtext], ['pkl'])))
            if cfg['faults'] and not fault_placed and rnd.random() < 0.6:
                fault_placed = True
                kind = rnd.choice(('write-fails', 'torn-write', 'torn-write', 'open-fails',
                                   'unlink-fails'))
                op['fault'] = {'kind': kind, 'at': rnd.choice((1, 1, 2, 3, 5, 10, 40))}
                if 'pkl' in op['types'] and kind in ('write-fails', 'torn-write') and \
                        rnd.random() < 0.6:
                    # aimed at the pickle (written with very few writes, after the text)
                    op['fault'].update(file='.pkl', at=rnd.choice((1, 1, 2)))
            ops.append(op)
            if rnd.random() < 0.3 and 'fault' not in op:
                ops.append({'op': 'resave-same', 'name': op['name'], 'types': op['types'],
                            'with_ext': op['with_ext']})
        else:
            saved = [o for o in ops if o['op'] == 'save']
            s = rnd.choice(saved)
            if not _unchanged_since(ops, len(ops), s['name']) and rnd.random() < 0.7:
                # load what the model is now: save it (again) right before the load
                s = {'op': 'save', 'name': s['name'], 'types': list(s['types']),
                     'with_ext': s.get('with_ext', False)}
                if gating:
                    s['types'] = list(rnd.choice((['pkl', gtext], [gtext], ['pkl'])))
                ops.append(s)
            where = 'process' if rnd.random() < bud['process_share'] and not long_chain else \
                rnd.choice(('same', 'thread', 'thread'))
            if where == 'process' and rnd.random() < 0.4:
                where = 'process-thread'
            post = []
            for _ in range(rnd.choice((0, 2, 4, 6))):
                post.append(draw_set() if consts and rnd.random() < 0.45 else draw_eval())
            ops.append({'op': 'load', 'name': s['name'],
                        'ext': rnd.choice((None, None, 'yml', 'json', 'pkl')) if not gating
                        else rnd.choice((None, 'pkl', 'pkl', gtext)),
                        'where': where, 'post': post,
                        'resave': rnd.choice((None, ['yml'], ['json']))})
    return {'spec': spec, 'cfg': cfg, 'ops': ops}


def legalise(case):
    st = history.Static(case)
    ops = []
    for op in case.get('ops', []):
        if op['op'] in ('set', 'eval', 'sweep') and op['a'] not in st.all:
            continue
        if op['op'] == 'set' and wbgen.is_formula_cell(st.dag.cell[op['a']]):
            continue
        if op['op'] == 'load':
            op = dict(op)
            op['post'] = [p for p in op.get('post', []) if p['a'] in st.all and not (
                p['op'] == 'set' and wbgen.is_formula_cell(st.dag.cell[p['a']]))]
        ops.append(op)
    case['ops'] = ops
    return case


def parse_text(path):
    """content of a saved text file as plain python"""
    if path.endswith('.json'):
        with open(path) as f:
            data = json.load(f)
    else:
        from ruamel.yaml import YAML
        with open(path) as f:
            data = YAML(typ='safe').load(f)
    return json.loads(json.dumps(data, default=str))


def canon_text_content(data):
    cm = data.get('cell_map', {})
    return {'cell_map': {k: _c(v) for k, v in cm.items()}, 'cycles': data.get('cycles'),
            'filename': data.get('filename'), 'excel_hash': data.get('excel_hash')}


def _c(v):
    if isinstance(v, float) and v == int(v) and abs(v) < 1e15:
        return float(v)
    if isinstance(v, bool):
        return v
    if isinstance(v, int):
        return float(v)
    return v


def run_case(case):
    spec = case['spec']
    cfg = case['cfg']
    ops = case.get('ops', [])
    dag = wbgen.Dag(spec)
    workload = cfg.get('workload', 'acyclic')
    counts = {}
    events = []
    sig_items = []
    state = {'violation': None, 'nontrivial': False}
    if workload == 'cycle':
        a_mat = c06.matrix(cfg)
        q = float(np.abs(a_mat).sum(axis=1).max())
        slack = 2 * q / (1 - q) * (cfg['iter'][1] or 0.01) * (1 + 1e-5) + 1e-9
    else:
        slack = 0

    def count(k, c=1):
        counts[k] = counts.get(k, 0) + c

    def violate(rule, step, op, expected_, got, **extra):
        if state['violation'] is None:
            state['violation'] = dict(rule=rule, step=step, op=op, expected=expected_,
                                      got=got, **extra)

    def same_outcome(o1, o2):
        """original vs loaded outcome of the same operation"""
        if ('exc' in o1) != ('exc' in o2):
            return False
        if 'exc' in o1:
            return o1['exc'] == o2['exc']
        if slack and o1['v'][0] == 'num' and o2['v'][0] == 'num' and \
                isinstance(o1['v'][1], float) and isinstance(o2['v'][1], float):
            return abs(o1['v'][1] - o2['v'][1]) <= 2 * slack
        return c01._canon_json(o1['v']) == c01._canon_json(o2['v'])

    stored = {}
    if cfg.get('origin') == 'xlsx':
        def plan():
            ref = Reference(spec, actor=InlineActor())
            out = {}
            for a in dag.formulas():
                try:
                    out[a] = ref.value(a, {})
                except RefError:
                    pass
            return out
        stored = on_fresh_thread(plan, name='ref')

    count('workload:' + workload)
    plugin.reset()

    def body(tmp):
        driver = Driver(tmp, inline=True)
        count('origin:' + cfg.get('origin', 'nodata'))
        source_md5 = None
        if cfg.get('origin') == 'xlsx':
            driver.build_xlsx(spec, stored)
            if not driver.downgraded:
                import hashlib as _h
                src = os.path.join(tmp, 'book.xlsx')
                with open(src, 'rb') as f:
                    source_md5 = _h.md5(f.read()).hexdigest()
                if cfg.get('touch_source'):
                    # the workbook changes on disk after it was compiled
                    with open(src, 'ab') as f:
                        f.write(b'\n')
                    count('probe:source-workbook-changed-after-compile')
        else:
            driver.build_nodata(spec)
        model = driver.model
        if cfg.get('extra_data') is not None:
            model.extra_data = json.loads(json.dumps(cfg['extra_data']))
        user_extra = json.loads(json.dumps(cfg.get('extra_data')))
        extra_at_save = {}
        state['user_extra'] = user_extra
        # every cell evaluated before anything is saved
        for a in dag.order:
            out = outcome_of(lambda a=a: model.evaluate(a))
            if 'exc' in out:
                # the precondition (a sane original) does not hold: not a persistence matter
                count('probe:run-skipped-original-cannot-evaluate-a-cell')
                return
        gen = 0
        files = {}        # base name -> {ext: generation | -1 dirty}
        last_good = {}    # base name -> generation of the last successful save
        saved_addrs = {}  # base name -> addresses in cell_map at the last successful save
        changed_since_build = False
        n_saves = 0

        def base_path(name):
            return os.path.join(tmp, name)

        def do_save(i, op, target_model, fault=None):
            nonlocal gen
            name = op['name']
            types = op['types']
            text_ext = next((t for t in types if t != 'pkl'), 'yml')
            fname = base_path(name) + ('.' + types[0] if op.get('with_ext') else '')
            gen += 1
            import contextlib
            import io
            # (ruamel prints the scalar it was writing when a write raises)
            with seams.FileSeam(fault) as seam, contextlib.redirect_stdout(io.StringIO()):
                out = outcome_of(lambda: target_model.to_file(fname, file_types=tuple(types)))
            f = files.setdefault(name, {})
            if fault and seam.fired:
                count('fault:' + fault['kind'])
            if 'exc' in out:
                if fault and seam.fired:
                    # a failed to_file may leave anything behind
                    for ext in ('pkl', 'yml', 'json'):
                        f[ext] = -1
                    count('probe:to_file-failed-under-fault')
                    events.append((i, 'save-failed', name, types, out['exc']))
                    return None
                violate('exception-in-to_file', i, op, 'to_file works', out, exc=out['exc'])
                return None
            if 'pkl' in types:
                f['pkl'] = gen
                if text_ext in types:
                    f[text_ext] = gen
                else:
                    f.pop(text_ext, None)
            else:
                f[text_ext] = gen
            last_good[name] = gen
            extra_at_save[name] = json.loads(json.dumps(state.get('user_extra')))
            saved_addrs[name] = sorted(a for a in target_model.cell_map if a in dag.cell)
            events.append((i, 'save', name, types, sorted(f.items())))
            return text_ext

        for i, op in enumerate(ops):
            if state['violation']:
                break
            k = op['op']
            count('ops')
            if k == 'sweep':
                out = _apply(model, op, dag)
                events.append((i, 'sweep', out.get('exc')))
                sig_items.append(('w',))
            elif k == 'eval':
                out = outcome_of(lambda: model.evaluate(op['a']))
                events.append((i, 'eval', op['a'], out.get('v'), out.get('exc')))
                sig_items.append(('e',))
            elif k == 'set':
                if op['a'] not in model.cell_map:
                    outcome_of(lambda: model.evaluate(op['a']))
                out = outcome_of(lambda: model.set_value(op['a'], op['v']))
                changed_since_build = True
                events.append((i, 'set', op['a'], values.jsonable(op['v']), out.get('exc')))
                sig_items.append(('s',))
                if isinstance(op['v'], str) and op['v'].startswith('='):
                    count('probe:text-starting-with-equals-written')
                # keep everything evaluated: the original must not be stale itself
                for a in dag.order:
                    if a in model.cell_map:
                        outcome_of(lambda a=a: model.evaluate(a))
            elif k == 'extra':
                if op['mode'] == 'assign' or model.extra_data is None:
                    model.extra_data = json.loads(json.dumps(op['data']))
                    user_extra = json.loads(json.dumps(op['data']))
                else:
                    model.extra_data.update(json.loads(json.dumps(op['data'])))
                    user_extra = dict(user_extra or {}, **json.loads(json.dumps(op['data'])))
                state['user_extra'] = user_extra
                changed_since_build = True
                events.append((i, 'extra', op['mode'], sorted(op['data'])))
                sig_items.append(('x', op['mode']))
                count('probe:extra_data-changed-between-saves')
            elif k == 'save':
                fault = op.get('fault')
                n_saves += 1
                text_ext = do_save(i, op, model, fault)
                sig_items.append(('save', tuple(op['types']), bool(op.get('with_ext')),
                                  tuple(sorted(fault.items())) if fault else None))
                if text_ext and user_extra:
                    # the caller's dict must still hold the caller's keys
                    for key, val in user_extra.items():
                        if (model.extra_data or {}).get(key) != val:
                            violate('extra_data-damaged-by-to_file', i, op, {key: val},
                                    repr((model.extra_data or {}).get(key)))
            elif k == 'resave-same':
                # saving an unchanged model again leaves the text file byte-identical
                name = op['name']
                if last_good.get(name) is None or files.get(name, {}).get(
                        next((t for t in op['types'] if t != 'pkl'), 'yml')) != last_good.get(name):
                    continue
                text_ext = next((t for t in op['types'] if t != 'pkl'), 'yml')
                if text_ext not in op['types']:
                    continue
                path = base_path(name) + '.' + text_ext
                if not os.path.exists(path):
                    continue
                with open(path, 'rb') as f:
                    before = f.read()
                out = do_save(i, op, model)
                if out is None:
                    continue
                with open(path, 'rb') as f:
                    after = f.read()
                count('probe:idempotent-resave-compared')
                if before != after:
                    violate('resave-not-byte-identical', i, op, 'identical bytes',
                            _first_diff(before, after))
            elif k == 'load':
                name = op['name']
                if last_good.get(name) is None:
                    continue
                f = files.get(name, {})
                ext = op.get('ext')
                if ext is None:
                    # from_file(name) reads the file of that name which was written last
                    first = max((e for e in ('pkl', 'yml', 'json')
                                 if os.path.exists(base_path(name) + '.' + e)),
                                key=lambda e: os.path.getmtime(base_path(name) + '.' + e),
                                default=None)
                    if first is None or f.get(first) != last_good[name]:
                        # (the newest file is what a failed save left behind)
                        count('probe:skipped-bare-name-would-pick-a-file-of-a-failed-save')
                        continue
                    target = base_path(name)
                    picked = first
                else:
                    if f.get(ext) != last_good[name]:
                        count('probe:skipped-load-target-not-written-by-last-save')
                        continue
                    target = base_path(name) + '.' + ext
                    picked = ext
                if f.get(picked) == last_good[name] and any(
                        v == -1 for v in f.values()):
                    count('probe:load-after-recovered-failed-save')
                addrs = saved_addrs[name]
                where = op.get('where', 'same')
                count('fault:restart-' + {'same': 'same-thread', 'thread': 'fresh-thread',
                                          'process': 'fresh-process',
                                          'process-thread': 'fresh-process+thread'}[where])
                sig_items.append(('load', picked, ext is None, where, len(op.get('post', []))))
                if changed_since_build or n_saves > 1:
                    state['nontrivial'] = True
                # what the original says (it is the model that was saved: nothing changed
                # since the last successful save of this name? only then values are compared)
                unchanged = _unchanged_since(ops, i, name)
                orig_vals = [outcome_of(lambda a=a: model.evaluate(a)) for a in addrs]
                orig_attrs = _attrs(model)
                post = op.get('post', [])
                resave = op.get('resave')
                if where in ('process', 'process-thread'):
                    payload = {'path': target, 'plugins': ['sim.plugin'], 'addrs': addrs,
                               'post': post if unchanged else [],
                               'fresh_thread': where == 'process-thread'}
                    if resave:
                        payload['resave'] = {'base': base_path(name + '-re'), 'types': resave}
                    res = run_child(payload)
                    loaded_load = res['load']
                    loaded_vals = res.get('values', [])
                    loaded_attrs = res.get('attrs')
                    loaded_post = res.get('post', [])
                    resave_out = res.get('resave')
                    count('hashseed-of-child:' + str(res.get('hashseed')))
                else:
                    box = {}

                    def in_loader():
                        from pycel import ExcelCompiler
                        box['load'] = outcome_of(lambda: box.__setitem__(
                            'model', ExcelCompiler.from_file(target, plugins=('sim.plugin',))))
                        if 'exc' in box['load']:
                            return
                        lm = box['model']
                        box['attrs'] = _attrs(lm)
                        box['values'] = [outcome_of(lambda a=a: lm.evaluate(a)) for a in addrs]
                        pp = []
                        if unchanged:
                            for p in post:
                                pp.append(_apply(lm, p, dag))
                        box['post'] = pp
                        if resave:
                            box['resave'] = outcome_of(lambda: lm.to_file(
                                base_path(name + '-re'), file_types=tuple(resave)))
                    if where == 'thread':
                        on_fresh_thread(in_loader, name='sut-loader')
                    else:
                        in_loader()
                    loaded_load = box['load']
                    loaded_vals = box.get('values', [])
                    loaded_attrs = box.get('attrs')
                    loaded_post = box.get('post', [])
                    resave_out = box.get('resave')
                events.append((i, 'load', name, picked, where, loaded_load.get('exc'),
                               [v.get('v') for v in loaded_vals]))
                if 'exc' in loaded_load:
                    violate('exception-in-from_file', i, op, 'from_file works', loaded_load,
                            exc=loaded_load['exc'], picked=picked, where=where)
                    break
                if unchanged:
                    count('probe:loads-compared-with-original')
                    for a, ov, lv in zip(addrs, orig_vals, loaded_vals):
                        if not same_outcome(ov, lv):
                            violate('loaded-value-differs', i, op, {'cell': a, 'original': ov},
                                    lv, cell=a, picked=picked, where=where)
                            break
                    if state['violation']:
                        break
                    # attributes
                    if source_md5 is not None:
                        count('probe:source-hash-checked-against-the-compiled-file')
                        if loaded_attrs['hash'] != source_md5:
                            violate('attribute-lost', i, op, {'hash': source_md5},
                                    {'hash': loaded_attrs['hash']}, attr='hash-of-compiled-workbook')
                        elif cfg.get('touch_source') and loaded_attrs['hash_matches']:
                            violate('attribute-lost', i, op, {'hash_matches': False},
                                    {'hash_matches': True}, attr='hash_matches-after-source-changed')
                    for key in ('cycles', 'filename', 'hash', 'hash_matches'):
                        if orig_attrs[key] != loaded_attrs[key]:
                            violate('attribute-lost', i, op, {key: orig_attrs[key]},
                                    {key: loaded_attrs[key]}, attr=key)
                    if extra_at_save.get(name):
                        for key, val in extra_at_save[name].items():
                            if (loaded_attrs.get('extra_data') or {}).get(key) != val:
                                violate('extra_data-lost', i, op, {key: val},
                                        (loaded_attrs.get('extra_data') or {}).get(key))
                    if state['violation']:
                        break
                    # the same post-load history on the original
                    orig_post = [_apply(model, p, dag) for p in post]
                    if post:
                        changed_since_build = True
                    for p, oo, lo in zip(post, orig_post, loaded_post):
                        count('post-load-steps-compared')
                        if not same_outcome(oo, lo):
                            violate('post-load-history-differs', i, op,
                                    {'step': c01._short(p), 'original': oo}, lo,
                                    picked=picked, where=where)
                            break
                    if state['violation']:
                        break
                    if resave and not post:
                        if resave_out is None or 'exc' in resave_out:
                            violate('exception-in-to_file', i, op, 'loaded model can be saved',
                                    resave_out, exc=(resave_out or {}).get('exc'))
                            break
                        # content of the re-saved loaded model == content of a save of the original
                        rtype = resave[0]
                        opath = base_path(name + '-orig')
                        oout = outcome_of(lambda: model.to_file(opath, file_types=(rtype,)))
                        if 'exc' not in oout:
                            a_ = canon_text_content(parse_text(opath + '.' + rtype))
                            b_ = canon_text_content(parse_text(base_path(name + '-re') + '.' + rtype))
                            count('probe:resaved-loaded-model-content-compared')
                            if a_ != b_:
                                violate('resaved-content-differs', i, op, _diff_keys(a_, b_)[0],
                                        _diff_keys(a_, b_)[1], picked=picked)
                                break
                else:
                    count('probe:load-of-an-older-state-not-compared')

    with TmpDir() as tmp:
        on_fresh_thread(body, tmp, name='sut-0')
    v = state['violation']
    if v:
        v['tag'] = make_tag(v, cfg, ops)
    digest = hashlib.sha256(json.dumps(events, default=str).encode()).hexdigest()[:16]
    sig = hashlib.sha256(repr((workload, cfg.get('origin'), sig_items)).encode()).hexdigest()[:16]
    return {'violation': v, 'digest': digest, 'sig': sig, 'nontrivial': state['nontrivial'],
            'counts': counts,
            'sample': {'workload': workload, 'origin': cfg.get('origin'),
                       'extra_data': cfg.get('extra_data'),
                       'ops': [_short(o) for o in ops[:12]]}}


def _unchanged_since(ops, i, name):
    """no set_value between the last save of `name` and step i"""
    for j in range(i - 1, -1, -1):
        o = ops[j]
        if o['op'] in ('save', 'resave-same') and o['name'] == name:
            return True
        if o['op'] == 'set':
            return False
        if o['op'] == 'load' and any(p['op'] == 'set' for p in o.get('post', [])):
            return False
    return False


def _apply(model, p, dag=None):
    if p['op'] == 'sweep':
        # every cell of the model in the order of the sheet (each read is shallow)
        return outcome_of(lambda: tuple(model.evaluate(a) for a in dag.order if a in model.cell_map))
    if p['op'] == 'eval':
        return outcome_of(lambda: model.evaluate(p['a']))
    if p['a'] not in model.cell_map:
        outcome_of(lambda: model.evaluate(p['a']))
    return outcome_of(lambda: model.set_value(p['a'], p['v']))


def _attrs(model):
    from ..child import attrs_of
    return attrs_of(model)


def _first_diff(a, b):
    n = next((k for k in range(min(len(a), len(b))) if a[k] != b[k]), min(len(a), len(b)))
    return {'at': n, 'before': a[max(0, n - 40):n + 40].decode('utf8', 'replace'),
            'after': b[max(0, n - 40):n + 40].decode('utf8', 'replace')}


def _diff_keys(a, b):
    for k in ('cycles', 'filename', 'excel_hash'):
        if a.get(k) != b.get(k):
            return {k: a.get(k)}, {k: b.get(k)}
    ca, cb = a['cell_map'], b['cell_map']
    for k in sorted(set(ca) | set(cb)):
        if ca.get(k, '<absent>') != cb.get(k, '<absent>'):
            return {k: ca.get(k, '<absent>')}, {k: cb.get(k, '<absent>')}
    return {}, {}


def make_tag(v, cfg, ops):
    rule = v['rule']
    faulted = any(o.get('fault') for o in ops[:max(v['step'], 0) + 1] if o['op'] == 'save')
    wl = 'iterative' if cfg.get('workload') in ('iter-acyclic', 'cycle') else 'plain'
    # D10: a text constant that begins with '=' comes back as code
    wrote_eq = any(isinstance(o.get('v'), str) and o['v'].startswith('=')
                   for o in _all_sets(ops[:max(v['step'], 0) + 1]))
    if wrote_eq and rule in ('loaded-value-differs', 'post-load-history-differs',
                             'resaved-content-differs', 'exception-in-from_file',
                             'exception-in-to_file'):
        return 'text-starting-with-equals-reloaded-as-code'
    parts = [rule]
    if v.get('exc'):
        parts.append(str(v['exc']))
    if v.get('attr'):
        parts.append(v['attr'])
    if v.get('picked'):
        parts.append('via-' + v['picked'])
    if v.get('where'):
        parts.append(v['where'])
    parts.append(wl)
    if faulted:
        parts.append('after-file-fault')
    return '/'.join(parts)


def _all_sets(ops):
    for o in ops:
        if o['op'] == 'set':
            yield o
        elif o['op'] == 'load':
            for p in o.get('post', []):
                if p['op'] == 'set':
                    yield p


def _short(op):
    if op['op'] == 'save':
        f = op.get('fault')
        return f"save {op['name']} as {'+'.join(op['types'])}" + (
            f" [fault {f['kind']}@{f['at']}]" if f else '')
    if op['op'] == 'resave-same':
        return f"save {op['name']} again (unchanged)"
    if op['op'] == 'load':
        return (f"load {op['name']}{'.' + op['ext'] if op.get('ext') else ''} on {op['where']}, "
                f"post={[c01._short(p) for p in op.get('post', [])][:4]}")
    return c01._short(op)


def shrink_moves(prop, case):
    if case['cfg'].get('workload') == 'cycle':
        return []
    from .. import shrink
    return [shrink.drop_cse_blocks, shrink.formulas_to_constants, shrink.drop_unreferenced,
            shrink.drop_names, shrink.simplify_formulas, shrink.drop_unreferenced]
