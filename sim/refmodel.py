"""Reference model (DESIGN 2.3): a from-scratch compile of the same workbook with
the current input values, evaluated once per address on a thread of its own.

It shares pycel's arithmetic with the system under test on purpose and has no
history, no cache reuse, no restart, no second thread and no fault.
"""
import logging
import queue
import threading

from . import wbgen


class Actor:
    """a thread that executes callables one at a time (pristine thread-locals)"""

    def __init__(self, name):
        self.q = queue.SimpleQueue()
        self.thread = threading.Thread(target=self._loop, name=name, daemon=True)
        self.thread.start()

    def _loop(self):
        while True:
            item = self.q.get()
            if item is None:
                return
            fn, args, kwargs, box, done = item
            try:
                box.append(('ok', fn(*args, **kwargs)))
            except BaseException as exc:   # noqa
                box.append(('exc', exc))
            done.set()

    def call(self, fn, *args, **kwargs):
        box, done = [], threading.Event()
        self.q.put((fn, args, kwargs, box, done))
        done.wait()
        kind, val = box[0]
        if kind == 'exc':
            raise val
        return val

    def close(self):
        self.q.put(None)
        self.thread.join()


class InlineActor:
    """same interface, executes on the calling thread"""

    def call(self, fn, *args, **kwargs):
        return fn(*args, **kwargs)

    def close(self):
        pass


def on_fresh_thread(fn, *args, name='run', **kwargs):
    """run fn on a thread created for it (pristine thread-locals); re-raise its exception"""
    box = []

    def target():
        try:
            box.append(('ok', fn(*args, **kwargs)))
        except BaseException as exc:   # noqa
            box.append(('exc', exc))
    t = threading.Thread(target=target, name=name, daemon=True)
    t.start()
    t.join()
    kind, val = box[0]
    if kind == 'exc':
        raise val
    return val


class RefError(Exception):
    """the reference itself could not produce a value (the step is skipped)"""


def _key(overrides):
    return tuple(sorted((a, type(v).__name__, repr(v)) for a, v in overrides.items()))


class Reference:
    """ref(spec, overrides).value(addr) - memoised on the override assignment"""

    def __init__(self, spec, actor=None, plugins=None, keep=4):
        self.spec = spec
        self.own_actor = actor is None
        self.actor = actor or Actor('ref')
        self.plugins = plugins
        self.models = {}
        self.order = []
        self.keep = keep
        self.compiles = 0

    def _model(self, overrides):
        k = _key(overrides)
        if k not in self.models:
            from pycel import ExcelCompiler
            # the reference is always a plain, non-iterative compile
            wb = wbgen.to_workbook(dict(self.spec, iter=None), overrides)
            model = self.actor.call(
                lambda: ExcelCompiler(excel=wb, plugins=self.plugins, cycles=False))
            self.models[k] = (model, {})
            self.order.append(k)
            self.compiles += 1
            while len(self.order) > self.keep:
                del self.models[self.order.pop(0)]
        return self.models[k]

    def value(self, addr, overrides):
        model, memo = self._model(overrides)
        if addr not in memo:
            try:
                memo[addr] = ('ok', self.actor.call(model.evaluate, addr))
            except Exception as exc:  # noqa
                memo[addr] = ('exc', exc)
        kind, val = memo[addr]
        if kind == 'exc':
            raise RefError(f'{type(val).__name__}: {str(val)[-200:]}')
        return val

    def close(self):
        if self.own_actor:
            self.actor.close()


def quiet():
    logging.disable(logging.CRITICAL)
