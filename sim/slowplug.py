"""A plugin module whose import "takes a while": half way through its body it offers the
scheduler a yield point (sim.sched.import_pause), so that another thread can run while this
module sits in sys.modules half initialised - SLOWA is defined, SLOWB is not yet.  Loaded
through pycel's own `plugins=` seam; removed from sys.modules before every run that uses it.
"""
from pycel.lib.function_helpers import excel_helper

from . import sched as _sched


@excel_helper(err_str_params=None)
def slowa(x):
    return x


_sched.import_pause(__name__)


@excel_helper(err_str_params=None)
def slowb(x):
    return x + 1000


_sched.import_done(__name__)
