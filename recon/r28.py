exec(open('r23.py').read().split("bad=0")[0])
from pycel.excelformula import ExcelFormula
from pycel.excelutil import AddressRange
import networkx as nx
orig = ExcelFormula.build_eval_context.__func__
stack=[]; reads=[]
def patched(cls, evaluate, evaluate_range, logger=None, plugins=None):
    def ev(addr): reads.append((stack[-1] if stack else None, addr)); return evaluate(addr)
    def evr(addr): reads.append((stack[-1] if stack else None, addr)); return evaluate_range(addr)
    inner = orig(cls, ev, evr, logger, plugins)
    def eval_func(formula, cse_array_address=None):
        stack.append(formula)
        try: return inner(formula, cse_array_address=cse_array_address)
        finally: stack.pop()
    return eval_func
ExcelFormula.build_eval_context = classmethod(patched)
def gen2(rnd):
    cells=gen(rnd)
    # add intersection / multi-colon / ROW forms on extra cells in row 9
    cells['A9']='=SUM(A1:C2 B1:D3)'; cells['B9']='=SUM(A1:A2:C1)'; cells['C9']='=ROW(B2)+COLUMN(A9)+A1'; cells['D9']='=SUM(nm)+one'
    return cells
def build2(cells):
    from openpyxl.workbook.defined_name import DefinedName
    wb=build(cells); wb.defined_names['nm']=DefinedName('nm', attr_text='S!$A$1:$B$2'); wb.defined_names['one']=DefinedName('one', attr_text='S!$C$1')
    return wb
def check(sut):
    for F, addr in reads:
        if F is None: return ('NOFORMULA', addr)
        cellF = F.cell
        declared = [a.address for a in F.needed_addresses]
        X = sut.cell_map.get(addr)
        if addr in declared:
            if X is None or not sut.dep_graph.has_edge(X, cellF): return ('NOEDGE', str(cellF.address), addr)
        else:
            # containment rule
            xr = AddressRange(addr)
            cellsX = [c for row in xr.resolve_range for c in row]
            for c in cellsX:
                if not any(c in AddressRange(dd) for dd in declared if ':' in dd): return ('UNDECLARED', str(cellF.address), F.python_code, addr, declared)
    return None
bad=0
for s in range(300):
    rnd=random.Random(s); cells=gen2(rnd); sut=ExcelCompiler(excel=build2(cells)); reads.clear()
    ks=list(cells); rnd.shuffle(ks)
    try:
        for k in ks: sut.evaluate('S!'+k)
        inputs=[k for k,v in cells.items() if not (isinstance(v,str) and v.startswith('=')) and ('S!'+k) in sut.cell_map]
        for i in range(5):
            sut.set_value('S!'+rnd.choice(inputs), rnd.randint(20,30)); sut.evaluate('S!'+rnd.choice(ks))
    except Exception as e:
        stats['exc:'+type(e).__name__+str(e)[-80:]]+=1; continue
    r=check(sut)
    if r:
        bad+=1
        if bad<=5: print(s, r)
    else: stats['ok']+=1; stats['reads']+=len(reads)
print('bad',bad,dict(stats))
