from mk import *
cells = {'A1':1,'A2':2,'A3':3,'B1':'=SUM(A1:A3)','B2':'=A1+1','B3':'=B1*B2','C1':'=A3*10','C2':'=C1+B2', 'D1':'=C2+B3'}
def fresh():
    c = ExcelCompiler(excel=build(cells)); c.evaluate("S!D1"); return c
full = fresh(); full.evaluate("S!D1")
t = fresh(); t.trim_graph(['S!A1'], ['S!D1'])
print(sorted(t.cell_map))
for v in (5, None, 'x', True, 0):
    full.set_value('S!A1', v); t.set_value('S!A1', v)
    print(v, full.evaluate('S!D1'), t.evaluate('S!D1'))
t.to_file('out/trim', file_types=('yml',))
print(open('out/trim.yml').read())
l = ExcelCompiler.from_file('out/trim.yml')
l.set_value('S!A1', 7); full.set_value('S!A1', 7)
print(l.evaluate('S!D1'), full.evaluate('S!D1'))
# buried input, range input
t = fresh(); t.trim_graph(['S!B2'], ['S!D1']); full = fresh(); full.evaluate('S!D1')
t.set_value('S!B2', 50); full.set_value('S!B2', 50)
print('buried', t.evaluate('S!D1'), full.evaluate('S!D1'))
t = fresh()
try:
    t.trim_graph(['S!A1:A3'], ['S!D1']); full = fresh(); full.evaluate('S!D1')
    print(sorted(t.cell_map))
    t.set_value('S!A1:A3', ((4,),(5,),(6,))); full.set_value('S!A1:A3', ((4,),(5,),(6,)))
    print('range input', t.evaluate('S!D1'), full.evaluate('S!D1'))
except Exception as e: print('EXC', type(e).__name__, e)
