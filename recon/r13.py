from mk import *
import sys, threading, time
from pycel import excelcompiler, excelformula, excelutil
mon = sys.monitoring
TOOL = 3
mon.use_tool_id(TOOL, 'sim')
codes = {excelcompiler.ExcelCompiler._evaluate.__code__: 'evaluate',
         excelcompiler.ExcelCompiler._evaluate_range.__code__: 'evaluate_range'}
# nested: eval_func
for k in excelformula.ExcelFormula.build_eval_context.__func__.__code__.co_consts:
    if hasattr(k, 'co_name') and k.co_name == 'eval_func': codes[k] = 'eval_func'
print(codes.values())
log = []
class Sched:
    def __init__(self, schedule):
        self.cv = threading.Condition(); self.cur = None; self.schedule = list(schedule); self.threads = {}; self.done=set()
    def yield_point(self, what):
        name = threading.current_thread().name
        if name not in self.threads: return
        with self.cv:
            log.append((name, what))
            nxt = self.pick(name)
            if nxt != name:
                self.cur = nxt; self.cv.notify_all()
                while self.cur != name: self.cv.wait()
    def pick(self, name):
        alive = [t for t in self.threads if t not in self.done]
        if self.schedule:
            w = self.schedule.pop(0)
            if w in alive: return w
        return name
    def run(self, fns):
        def wrap(name, fn):
            with self.cv:
                while self.cur != name: self.cv.wait()
            try: self.res[name] = fn()
            except BaseException as e: self.res[name] = ('EXC', repr(e))
            with self.cv:
                self.done.add(name)
                alive = [t for t in self.threads if t not in self.done]
                self.cur = alive[0] if alive else None
                self.cv.notify_all()
        self.res = {}
        for n, f in fns.items():
            self.threads[n] = threading.Thread(target=wrap, args=(n,f), name=n)
        for t in self.threads.values(): t.start()
        with self.cv: self.cur = list(fns)[0]; self.cv.notify_all()
        for t in self.threads.values(): t.join()
        return self.res
S = None
def on_start(code, off):
    if S is not None: S.yield_point(codes[code])
mon.register_callback(TOOL, mon.events.PY_START, on_start)
for c in codes: mon.set_local_events(TOOL, c, mon.events.PY_START)

from openpyxl.workbook.properties import CalcProperties
def cyc_wb(a):
    wb = build({'A1':a,'B1':'=0.5*B2+1','B2':'=0.5*B1+A1'})
    wb.calculation = CalcProperties(iterate=True, iterateCount=100, iterateDelta=0.001)
    return wb
X = ExcelCompiler(excel=cyc_wb(2)); Y = ExcelCompiler(excel=cyc_wb(8))
alone = (ExcelCompiler(excel=cyc_wb(2)).evaluate('S!B1'), ExcelCompiler(excel=cyc_wb(8)).evaluate('S!B1', iterations=3))
S = Sched(['A','A','A','B','B','B','A','B','A','B']*5)
r = S.run({'A': lambda: X.evaluate('S!B1'), 'B': lambda: Y.evaluate('S!B1', iterations=3)})
print(r, alone, len(log), log[:12])
