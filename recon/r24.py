exec(open('r23.py').read().split("bad=0")[0])
import os, tempfile, shutil
def run2(seed, fmt):
    rnd=random.Random(seed); cells=gen(rnd)
    inputs={k:v for k,v in cells.items() if not (isinstance(v,str) and v.startswith('='))}
    cur=dict(inputs)
    sut=ExcelCompiler(excel=build(cells))
    refc={}
    def ref(addr):
        key=tuple(sorted((k,repr(v)) for k,v in cur.items()))
        if key not in refc: refc.clear(); refc[key]=ExcelCompiler(excel=build(cells,cur))
        return refc[key].evaluate(addr)
    try:
        for k in cells: sut.evaluate('S!'+k)
    except Exception as ex: stats['sut-exc']+=1; return None
    d=tempfile.mkdtemp(dir='/dev/shm')
    try:
        sut.to_file(d+'/m', file_types=(fmt,)); sut=ExcelCompiler.from_file(d+'/m.'+fmt)
    finally: shutil.rmtree(d)
    hist=[]
    for step in range(rnd.randint(3,25)):
        if rnd.random()<0.5:
            k=rnd.choice(list(inputs))
            if ('S!'+k) not in sut.cell_map: continue
            v=rnd.choice([rnd.randint(-5,9), round(rnd.uniform(-3,3),2), 'txt', 'q', '7', ''])
            old=cur[k]
            if isinstance(v,bool)!=isinstance(old,bool) and v==old: continue
            sut.set_value('S!'+k, v); cur[k]=v; hist.append(('set',k,v))
        else:
            k=rnd.choice(list(cells)); addr='S!'+k
            if addr not in sut.cell_map: stats['unsaved']+=1; continue
            try: e=ref(addr)
            except Exception as ex: stats['ref-exc']+=1; return None
            try: g=sut.evaluate(addr)
            except Exception as ex: return ('EXC',seed,cells,hist,addr,type(ex).__name__,str(ex)[-300:])
            hist.append(('eval',k,g))
            if not same(e,g): return ('DIFF',seed,cells,hist,addr,e,g)
    stats['ok']+=1
for fmt in ('yml','json','pkl'):
    bad=0; stats.clear()
    for s in range(300):
        r=run2(s, fmt)
        if r:
            bad+=1
            if bad<=2: print(str(r)[:900])
    print(fmt,'bad',bad,dict(stats))
