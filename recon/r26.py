exec(open('r23.py').read().split("bad=0")[0])
import re
def deps_of(cells):
    d={}
    for k,v in cells.items():
        s=set()
        if isinstance(v,str) and v.startswith('='):
            body=v.replace('S!','').replace('$','')
            for m in re.finditer(r'([A-D])(\d+):([A-D])(\d+)', body):
                for ci in range(COLS.index(m.group(1)), COLS.index(m.group(3))+1):
                    for r in range(int(m.group(2)), int(m.group(4))+1): s.add(f'{COLS[ci]}{r}')
            body2=re.sub(r'[A-D]\d+:[A-D]\d+','',body)
            for m in re.finditer(r'([A-D])(\d+)', body2): s.add(m.group(0))
        d[k]=s
    return d
def anc(d,k,seen=None):
    seen=set() if seen is None else seen
    for p in d.get(k,()):
        if p not in seen: seen.add(p); anc(d,p,seen)
    return seen
def run4(seed, use_range):
    rnd=random.Random(seed); cells=gen(rnd); d=deps_of(cells)
    forms=[k for k,v in cells.items() if isinstance(v,str) and v.startswith('=')]
    if not forms: return None
    outs=rnd.sample(forms, min(len(forms), rnd.randint(1,2)))
    A=set().union(*[anc(d,o) for o in outs])
    leaf=[k for k in A if k in cells and not (isinstance(cells[k],str) and cells[k].startswith('=')) ]
    if not leaf: stats['noleaf']+=1; return None
    ins=rnd.sample(leaf, min(len(leaf), rnd.randint(1,2)))
    cur={k:v for k,v in cells.items() if not (isinstance(v,str) and v.startswith('='))}
    sut=ExcelCompiler(excel=build(cells))
    try:
        for o in outs: sut.evaluate('S!'+o)
    except Exception: stats['exc0']+=1; return None
    in_addrs=['S!'+k for k in ins]
    if use_range:
        # an input range: row-range containing ins[0] that some formula references as range? just use 1xN range of leaf cells in same row
        k=ins[0]; row=k[1:]; rowleaf=sorted(x for x in cur if x[1:]==row and x in cells)
        i=rowleaf.index(k); 
        # contiguous block around k
        blk=[k]
        for x in rowleaf[i+1:]:
            if COLS.index(x[0])==COLS.index(blk[-1][0])+1: blk.append(x)
            else: break
        if len(blk)<2: stats['norange']+=1; return None
        in_addrs=[f'S!{blk[0]}:{blk[-1]}']; ins=blk
    try: sut.trim_graph(in_addrs, ['S!'+o for o in outs])
    except ValueError as e: stats['ValueError']+=1; return None
    except Exception as e: return ('TRIM-EXC',seed,cells,in_addrs,outs,type(e).__name__,str(e)[-200:])
    hist=[]
    for step in range(rnd.randint(2,10)):
        k=rnd.choice(ins); v=rnd.choice([rnd.randint(-5,9), round(rnd.uniform(-3,3),2), 'txt', '7'])
        if ('S!'+k) not in sut.cell_map: stats['in-notinmap']+=1; continue
        sut.set_value('S!'+k, v); cur[k]=v; hist.append((k,v))
        o=rnd.choice(outs)
        e=ExcelCompiler(excel=build(cells,cur)).evaluate('S!'+o)
        try: g=sut.evaluate('S!'+o)
        except Exception as ex: return ('EXC',seed,cells,in_addrs,outs,hist,type(ex).__name__,str(ex)[-200:])
        if not same(e,g): return ('DIFF',seed,cells,in_addrs,outs,hist,o,e,g)
    stats['ok']+=1
for ur in (False, True):
    bad=0; stats.clear()
    for s in range(400):
        r=run4(s,ur)
        if r:
            bad+=1
            if bad<=3: print(str(r)[:900])
    print('use_range',ur,'bad',bad,dict(stats))
