import logging; logging.disable(logging.CRITICAL)
from openpyxl import Workbook
from pycel import ExcelCompiler

def wb1():
    wb = Workbook(); ws = wb.active; ws.title='S'
    ws['A1']=1; ws['A2']=2; ws['A3']=3
    ws['B1']='=SUM(A1:A3)'; ws['B2']='=A1+1'; ws['B3']='=B1*B2'
    ws['C1']='=IF(ISBLANK(A1),"blank",A1)'
    return wb
c = ExcelCompiler(excel=wb1())
print('init', c.evaluate('S!B1'), c.evaluate('S!B2'), c.evaluate('S!B3'), c.evaluate('S!C1'))
c.set_value('S!A1', None)
print('A1=None ->', c.evaluate('S!B1'), c.evaluate('S!B2'), c.evaluate('S!B3'), c.evaluate('S!C1'), '(expect 5,1,5,blank)')
c = ExcelCompiler(excel=wb1())
c.evaluate('S!B3'); c.evaluate('S!C1')
c.set_value('S!A1', 0)
print('A1=0', c.evaluate('S!B1'), c.evaluate('S!B2'), c.evaluate('S!C1'))
c.set_value('S!A1', False)
print('A1=False', c.evaluate('S!B1'), c.evaluate('S!B2'), c.evaluate('S!C1'), '(C1 expect False)')
c.set_value('S!A1', True)
print('A1=True', c.evaluate('S!B1'), c.evaluate('S!B2'), c.evaluate('S!C1'))
c.set_value('S!A1', 1)
print('A1=1', c.evaluate('S!B1'), c.evaluate('S!B2'), repr(c.evaluate('S!C1')), '(expect 1 int; SUM counts 1 -> 6)')
# set before dependants first evaluated
c = ExcelCompiler(excel=wb1())
c.evaluate('S!A1')
c.set_value('S!A1', 10)
print('set before eval', c.evaluate('S!B1'), c.evaluate('S!B3'))
# set on a formula cell
c = ExcelCompiler(excel=wb1())
c.evaluate('S!B3')
c.set_value('S!B2', 100)
print('set formula cell B2=100', c.evaluate('S!B3'), c.cell_map['S!B2'].formula)
c.set_value('S!A1', 5)
print(' then A1=5', c.evaluate('S!B2'), c.evaluate('S!B3'))
