exec(open('r26.py').read().split("def run4")[0])
from xw import write_xlsx
import contextlib, io, os, tempfile
def run5(seed):
    rnd=random.Random(seed); cells=gen(rnd); d=deps_of(cells)
    forms=[k for k,v in cells.items() if isinstance(v,str) and v.startswith('=')]
    if not forms: return None
    refc=ExcelCompiler(excel=build(cells))
    try: ref={k: refc.evaluate('S!'+k) for k in forms}
    except Exception: stats['refexc']+=1; return None
    def mk(path, over=None):
        sh={}
        for k,v in cells.items():
            if v is None: continue
            if k in forms: sh[k]=(v, (over or {}).get(k, ref[k]), None)
            else: sh[k]=(None, v, None)
        write_xlsx(path, [('S', sh)])
    d_=tempfile.mkdtemp(dir='/dev/shm'); p=d_+'/w.xlsx'
    def vc(**kw):
        c=ExcelCompiler(p)
        with contextlib.redirect_stdout(io.StringIO()): return c.validate_calcs(**kw)
    try:
        mk(p); r=vc()
        if r!={}: return ('CLEAN-NOT-EMPTY',seed,cells,ref,r)
        for P in forms:
            v=ref[P]
            if isinstance(v,bool): nv=rnd.choice(['x', 5, not v])
            elif isinstance(v,(int,float)): nv=rnd.choice([v+1+abs(v), 'x', '#N/A'])
            elif isinstance(v,str) and v.startswith('#'): nv=rnd.choice(['#N/A' if v!='#N/A' else '#REF!', 3, 'x'])
            else: nv=rnd.choice([str(v)+'y', 3])
            if isinstance(nv,bool)!=isinstance(v,bool) and nv==v: continue
            mk(p,{P:nv}); r=vc()
            mm=r.get('mismatch',{})
            if 'S!'+P not in mm: return ('MISSED',seed,cells,P,v,nv,r)
            if not same(mm['S!'+P].original, nv) or not same(mm['S!'+P].calced, v): return ('WRONGVALS',seed,cells,P,v,nv,mm['S!'+P])
            for other in mm:
                if other!='S!'+P and P not in anc(d, other[2:]): return ('UNRELATED',seed,cells,P,v,nv,other,r)
            if set(r)-{'mismatch'}: return ('EXTRA',seed,cells,P,r)
            stats['sites']+=1
    finally:
        import shutil; shutil.rmtree(d_)
    stats['ok']+=1
bad=0
for s in range(150):
    r=run5(s)
    if r:
        bad+=1
        if bad<=4: print(str(r)[:1200])
print('bad',bad,dict(stats))
