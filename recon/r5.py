from mk import *
import threading, traceback, sys
from openpyxl.workbook.properties import CalcProperties
def cyc_wb():
    # x = 0.5*y + 1 ; y = 0.5*x + A1   fixed point: x = 0.5(0.5x + a) +1 => 0.75x = 1 + 0.5a
    wb = build({'A1':2,'B1':'=0.5*B2+1','B2':'=0.5*B1+A1','C1':'=SUM(A1:A3)', 'A2':1,'A3':1, 'D1':'=A1+1'})
    wb.calculation = CalcProperties(iterate=True, iterateCount=100, iterateDelta=0.001)
    return wb
c = ExcelCompiler(excel=cyc_wb())
print('cycles', c.cycles)
print('B1', c.evaluate('S!B1'), 'expect', (1+0.5*2)/0.75)
print('C1', c.evaluate('S!C1'), 'D1', c.evaluate('S!D1'))
c.set_value('S!A1', 5)
print('after A1=5: B1', c.evaluate('S!B1'), 'expect', (1+2.5)/0.75, 'C1', c.evaluate('S!C1'), 'expect 7', 'D1', c.evaluate('S!D1'), 'expect 6')
# order: formula cell first built after precedents
c = ExcelCompiler(excel=cyc_wb())
print('A1 first', c.evaluate('S!A1'))
print('then D1', c.evaluate('S!D1'), 'expect 3')
print('again D1', c.evaluate('S!D1'))
# fresh thread
def run():
    try:
        c2 = ExcelCompiler(excel=cyc_wb())
        print('fresh thread B1', c2.evaluate('S!B1'))
    except Exception:
        traceback.print_exc(limit=3, file=sys.stdout)
t = threading.Thread(target=run); t.start(); t.join()
# iterations bound
c = ExcelCompiler(excel=cyc_wb())
print('iter=1', c.evaluate('S!B1', iterations=1), 'iter=2', c.evaluate('S!B1', iterations=2))
c.to_file('out/cyc', file_types=('yml',))
