import logging; logging.disable(logging.CRITICAL)
import traceback, sys
from pycel import ExcelCompiler
try:
    l = ExcelCompiler.from_file('out/cyc.yml')
    print('fresh proc load ok', l.evaluate('S!B1'))
except Exception:
    traceback.print_exc(limit=4, file=sys.stdout)
