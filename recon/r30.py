from mk import *
cells = {'A1':1,'A2':2,'A3':3,'B1':'=SUM(A1:A3)','B2':'=A1+1','B3':'=B1*B2','C1':'=A3*10','C2':'=C1+B2', 'D1':'=C2+B3'}
def fresh():
    c = ExcelCompiler(excel=build(cells)); c.evaluate("S!D1"); return c
t = fresh(); t.trim_graph(['S!A1:A3'], ['S!D1'])
print(sorted(t.cell_map))
print({k:(v.value, bool(v.formula)) for k,v in t.cell_map.items()})
t.set_value('S!A1', 4)
print('after A1=4', {k:(v.value) for k,v in t.cell_map.items()})
try: print(t.evaluate('S!D1'))
except Exception as e: print('EXC', type(e).__name__, e)
print({k:(v.value) for k,v in t.cell_map.items()})
