from mk import *
from pycel.lib import information
X = ExcelCompiler(excel=build({'A1':1,'A2':10,'B1':'=A2+CELL("contents",OFFSET(A1,0,0))'}))
Y = ExcelCompiler(excel=build({'A1':2,'A2':20,'B1':'=A2+CELL("contents",OFFSET(A1,0,0))'}))
print(X.evaluate('S!B1'))
ns1 = information.cell.excel_func_meta['name_space']
print(Y.evaluate('S!B1'))
ns2 = information.cell.excel_func_meta['name_space']
print(ns1 is ns2, ns1['_C_'], ns2['_C_'])
print(X.cell_map['S!B1'].formula.python_code)
X.set_value('S!A1', 5)
print('X.B1 after X.A1=5 ->', X.evaluate('S!B1'), 'expect 15')
