import zipfile
from xml.sax.saxutils import escape
def cell_xml(addr, formula=None, value=None, array_ref=None):
    v = value
    if isinstance(v, bool): t, vs = 'b', str(int(v))
    elif isinstance(v, (int, float)): t, vs = 'n', repr(v)
    elif isinstance(v, str) and v.startswith('#') and formula is not None: t, vs = 'e', escape(v)
    elif isinstance(v, str): t, vs = 'str', escape(v)
    else: t, vs = None, None
    f = ''
    if formula is not None:
        ftxt = escape(formula.lstrip('='))
        f = f'<f t="array" ref="{array_ref}">{ftxt}</f>' if array_ref else f'<f>{ftxt}</f>'
    tattr = f' t="{t}"' if t else ''
    vx = f'<v>{vs}</v>' if vs is not None else ''
    return f'<c r="{addr}"{tattr}>{f}{vx}</c>'
def write_xlsx(path, sheets, names=None, calc=None):
    """sheets: list of (name, {coord: (formula|None, value, array_ref|None)})"""
    import re
    z = zipfile.ZipFile(path, 'w', zipfile.ZIP_DEFLATED)
    ct = ['<?xml version="1.0" encoding="UTF-8" standalone="yes"?><Types xmlns="http://schemas.openxmlformats.org/package/2006/content-types"><Default Extension="rels" ContentType="application/vnd.openxmlformats-package.relationships+xml"/><Default Extension="xml" ContentType="application/xml"/><Override PartName="/xl/workbook.xml" ContentType="application/vnd.openxmlformats-officedocument.spreadsheetml.sheet.main+xml"/>']
    for i,_ in enumerate(sheets,1): ct.append(f'<Override PartName="/xl/worksheets/sheet{i}.xml" ContentType="application/vnd.openxmlformats-officedocument.spreadsheetml.worksheet+xml"/>')
    ct.append('</Types>')
    z.writestr('[Content_Types].xml', ''.join(ct))
    z.writestr('_rels/.rels', '<?xml version="1.0" encoding="UTF-8" standalone="yes"?><Relationships xmlns="http://schemas.openxmlformats.org/package/2006/relationships"><Relationship Id="rId1" Type="http://schemas.openxmlformats.org/officeDocument/2006/relationships/officeDocument" Target="xl/workbook.xml"/></Relationships>')
    wb = ['<?xml version="1.0" encoding="UTF-8" standalone="yes"?><workbook xmlns="http://schemas.openxmlformats.org/spreadsheetml/2006/main" xmlns:r="http://schemas.openxmlformats.org/officeDocument/2006/relationships"><sheets>']
    for i,(n,_) in enumerate(sheets,1): wb.append(f'<sheet name="{escape(n)}" sheetId="{i}" r:id="rId{i}"/>')
    wb.append('</sheets>')
    if names:
        wb.append('<definedNames>' + ''.join(f'<definedName name="{k}">{escape(v)}</definedName>' for k,v in names.items()) + '</definedNames>')
    if calc: wb.append(f'<calcPr calcId="1" iterate="1" iterateCount="{calc[0]}" iterateDelta="{calc[1]}"/>')
    wb.append('</workbook>')
    z.writestr('xl/workbook.xml', ''.join(wb))
    z.writestr('xl/_rels/workbook.xml.rels', '<?xml version="1.0" encoding="UTF-8" standalone="yes"?><Relationships xmlns="http://schemas.openxmlformats.org/package/2006/relationships">' + ''.join(f'<Relationship Id="rId{i}" Type="http://schemas.openxmlformats.org/officeDocument/2006/relationships/worksheet" Target="worksheets/sheet{i}.xml"/>' for i,_ in enumerate(sheets,1)) + '</Relationships>')
    def key(c):
        m = re.match(r'([A-Z]+)(\d+)', c); col = 0
        for ch in m.group(1): col = col*26 + ord(ch)-64
        return int(m.group(2)), col
    for i,(n,cells) in enumerate(sheets,1):
        rows = {}
        for c in sorted(cells, key=key): rows.setdefault(key(c)[0], []).append(c)
        sd = ''.join(f'<row r="{r}">' + ''.join(cell_xml(c, *cells[c]) for c in cs) + '</row>' for r,cs in sorted(rows.items()))
        z.writestr(f'xl/worksheets/sheet{i}.xml', f'<?xml version="1.0" encoding="UTF-8" standalone="yes"?><worksheet xmlns="http://schemas.openxmlformats.org/spreadsheetml/2006/main"><sheetData>{sd}</sheetData></worksheet>')
    z.close()
