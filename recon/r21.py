from mk import *
import plug2, random
import numpy as np
from openpyxl.workbook.properties import CalcProperties
rnd = random.Random(5)
worst = 0; early=0; capped=0; viol=0
for trial in range(300):
    n = rnd.randint(2,5); q = rnd.uniform(0.1,0.9)
    A = np.zeros((n,n)); b = np.array([rnd.uniform(-5,5) for _ in range(n)])
    cells = {}
    for i in range(n):
        # row i: either explicit coefficients or c*SUM(range of all cycle cells B1:Bn)
        if rnd.random()<0.4:
            c = rnd.uniform(-1,1)*q/n
            A[i,:] = c
            cells[f'B{i+1}'] = f'=PROBE("B{i+1}",{c!r}*SUM(B1:B{n})+A{i+1})'
        else:
            w = np.array([rnd.uniform(-1,1) for _ in range(n)]); w = w/np.abs(w).sum()*q*rnd.uniform(0.3,1)
            A[i,:] = w
            cells[f'B{i+1}'] = f'=PROBE("B{i+1}",' + '+'.join(f'{float(w[j])!r}*B{j+1}' for j in range(n)) + f'+A{i+1})'
        cells[f'A{i+1}'] = float(b[i])
    qq = np.abs(A).sum(axis=1).max()
    xstar = np.linalg.solve(np.eye(n)-A, b)
    tol = 10**rnd.uniform(-6,-1); iters = rnd.choice([3,10,50,200])
    wb = build(cells); wb.calculation = CalcProperties(iterate=True, iterateCount=iters, iterateDelta=tol)
    c = ExcelCompiler(excel=wb, plugins=('plug2',))
    tgt = f'S!B{rnd.randint(1,n)}'
    c.evaluate(tgt)   # D5 workaround: prime
    plug2.LOG.clear()
    v = c.evaluate(tgt)
    calls = {}
    for t,x in plug2.LOG: calls.setdefault(t, []).append(x)
    npass = max(len(x) for x in calls.values())
    assert npass <= iters, (npass, iters)
    if npass < iters:
        early += 1
        for t,xs in calls.items():
            if len(xs)>=2 and abs(xs[-1]-xs[-2]) > tol*(1+1e-5): viol += 1; print('delta viol', t, xs[-2:], tol)
        err = abs(v - xstar[int(tgt[3:])-1]); bound = qq/(1-qq)*tol*(1+1e-5)+1e-9
        worst = max(worst, err/bound)
        if err > bound: viol += 1; print('bound viol', err, bound, qq, tol, npass)
    else: capped += 1
print('early', early, 'capped', capped, 'worst err/bound', worst, 'viol', viol)
