from mk import *
from pycel.excelformula import ExcelFormula
orig = ExcelFormula.build_eval_context.__func__
stack = []; reads = []
def patched(cls, evaluate, evaluate_range, logger=None, plugins=None):
    def ev(addr):
        reads.append((str(stack[-1].cell.address) if stack else None, 'C', addr)); return evaluate(addr)
    def evr(addr):
        reads.append((str(stack[-1].cell.address) if stack else None, 'R', addr)); return evaluate_range(addr)
    inner = orig(cls, ev, evr, logger, plugins)
    def eval_func(formula, cse_array_address=None):
        stack.append(formula)
        try: return inner(formula, cse_array_address=cse_array_address)
        finally: stack.pop()
    return eval_func
ExcelFormula.build_eval_context = classmethod(patched)
c = ExcelCompiler(excel=build({'A1':1,'A2':2,'A3':3,'B1':'=SUM(A1:A3)','B2':'=A1+B1','B3':'=SUM(A1:B2 A2:C5)+ROW(A3)', 'B4':'=INDEX(A1:B3,2,1)'}))
print(c.evaluate('S!B3'), c.evaluate('S!B4')); print(reads)
c.to_file('out/di'); l = ExcelCompiler.from_file('out/di.pkl'); reads.clear(); l.set_value('S!A1', 9); print(l.evaluate('S!B3'), reads)
for r,k,a in reads:
    F = l.cell_map[r]; print(r, a, a in [x.address for x in F.needed_addresses], l.dep_graph.has_edge(l.cell_map[a], F) if a in l.cell_map else None)
