from mk import *
import plug, traceback, sys
from openpyxl.workbook.properties import CalcProperties
cells = {'A1':1,'A2':2,'B1':'=BOOM(A1)+1','B2':'=B1*2','B3':'=A2+1','B4':'=SUM(B1:B3)','C1':'=NOSUCH(A1)','C2':'=C1+1',
         'D1':'=IF(A1>0, "x"+1, 0) + BOOM(A2)'}
def ev(c, a, **kw):
    try:
        return ('ok', c.evaluate(a, **kw))
    except BaseException as e:
        return ('EXC', type(e).__name__, (str(e).splitlines() or [''])[-1][:80])
for cyc in (False, True):
    print('=== cycles', cyc)
    wb = build(cells)
    if cyc: wb.calculation = CalcProperties(iterate=True, iterateCount=20, iterateDelta=0.001)
    c = ExcelCompiler(excel=wb, plugins=('plug',))
    plug.STATE.update(calls=0, fail_at={'all'})
    print('B2', ev(c,'S!B2'))
    print('B2 again', ev(c,'S!B2'))
    print('B1', ev(c,'S!B1'))
    print('B3', ev(c,'S!B3'))
    print('B4', ev(c,'S!B4'))
    print('C2', ev(c,'S!C2')); print('C2', ev(c,'S!C2'))
    print('D1', ev(c,'S!D1'))
    plug.STATE.update(fail_at=set())
    print('healed: B2', ev(c,'S!B2'), 'B4', ev(c,'S!B4'), 'D1', ev(c, 'S!D1'))
    plug.STATE.update(fail_at={'all'})
    c.set_value('S!A1', 5)
    print('A1=5, failing: B2', ev(c,'S!B2'))
    c.set_value('S!B1', 100)
    print('B1:=100: B2', ev(c,'S!B2'), 'B4', ev(c,'S!B4'))
    from pycel.excelutil import in_array_formula_context
    print('ctx stack', in_array_formula_context.ns.ctx_addresses)
