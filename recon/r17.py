import types, sys
exec(open('r13.py').read().split("from openpyxl.workbook.properties")[0])
from openpyxl.workbook.properties import CalcProperties
import random
mut = sys.argv[1] if len(sys.argv)>1 else ''
if mut == 'tracker': excelutil._IterativeEvalTracker._ns = types.SimpleNamespace()
if mut == 'ctx': excelutil._ArrayFormulaContext._ns = types.SimpleNamespace()
from openpyxl.worksheet.formula import ArrayFormula
def cyc_wb(a):
    wb = build({'A1':a,'B1':'=0.5*B2+1','B2':'=0.5*B1+A1'})
    wb.calculation = CalcProperties(iterate=True, iterateCount=100, iterateDelta=0.001)
    return wb
def arr_wb():
    wb = build({'A1':1,'A2':2,'A3':3,'B1':10,'B2':20,'B3':30, 'E1':'=A1+B1', 'E2':'=E1*2'})
    wb.active['C1'] = ArrayFormula('C1:C3', '=E2*2+E1'); wb.active['D1']='=SUM(C1:C3)+E2'
    return wb
def mk():
    return {'A': (lambda c: (lambda: c.evaluate('S!B1')))(ExcelCompiler(excel=cyc_wb(2))),
            'B': (lambda c: (lambda: c.evaluate('S!B1', iterations=3)))(ExcelCompiler(excel=cyc_wb(8))),
            'C': (lambda c: (lambda: (c.evaluate('S!C1:C3'), c.evaluate('S!D1'))))(ExcelCompiler(excel=arr_wb()))}
alone = {}
for n in 'ABC':
    S = Sched([]); alone.update(S.run({n: mk()[n]}))
print('alone', alone)
bad = 0
rnd = random.Random(7)
for trial in range(300):
    names = rnd.sample('ABC', 2)
    sch = [rnd.choice(names) for _ in range(200)]
    w = mk(); S = Sched(sch); log.clear()
    r = S.run({n: w[n] for n in names})
    for n in names:
        if r[n] != alone[n]:
            bad += 1
            if bad <= 3: print('DIFF', names, n, r[n], alone[n])
print(mut, 'bad', bad)
