from pycel.lib.function_helpers import excel_helper
LOG = []
@excel_helper()
def probe(tag, x):
    LOG.append((tag, x))
    return x
