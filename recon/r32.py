exec(open('r26.py').read().split("def run4")[0])
import plug3
from openpyxl.workbook.properties import CalcProperties
from pycel.excelutil import PyCelException
def run6(seed):
    rnd=random.Random(seed); cells=gen(rnd); d=deps_of(cells)
    forms=[k for k,v in cells.items() if isinstance(v,str) and v.startswith('=')]
    if not forms: return None
    plug3.ARMED.update(on=False)
    refc=ExcelCompiler(excel=build(cells))
    try: ref={k: refc.evaluate('S!'+k) for k in cells}
    except Exception: stats['refexc']+=1; return None
    for F in forms:
        c2=dict(cells); c2[F]=f'=BOOM("{F}",{cells[F][1:]})'
        wbx=build(c2); wbx.calculation=CalcProperties(iterate=True, iterateCount=20, iterateDelta=0.001); sut=ExcelCompiler(excel=wbx, plugins=("plug3",))
        plug3.ARMED.update(on=False, exc=rnd.choice([RuntimeError,ValueError,TypeError,KeyError,NameError,ZeroDivisionError,AssertionError]))
        ks=list(cells); rnd.shuffle(ks)
        # warm-up subset
        for k in ks[:rnd.randint(0,len(ks))]:
            g=sut.evaluate('S!'+k)
            if not same(g,ref[k]): return ('WARM-DIFF',seed,c2,k,ref[k],g)
        plug3.ARMED['on']=True
        # invalidate by touching an input of F if any
        leaf=[k for k in anc(d,F) if k in cells and k not in forms and ('S!'+k) in sut.cell_map]
        cur=None
        for rep in range(2):
            rnd.shuffle(ks)
            for k in ks:
                dep = (k==F or F in anc(d,k))
                try:
                    g=sut.evaluate('S!'+k)
                    if not same(g,ref[k]): return ('ARMED-WRONG',seed,c2,F,k,dep,ref[k],g)
                    stats['armed-val-dep' if dep else 'armed-val']+=1
                except PyCelException as e:
                    if not dep: return ('ARMED-EXC-UNRELATED',seed,c2,F,k,type(e).__name__)
                    stats['armed-exc']+=1
                except BaseException as e:
                    return ('ARMED-BARE',seed,c2,F,k,dep,type(e).__name__,str(e)[-100:])
        plug3.ARMED['on']=False
        for k in ks:
            try: g=sut.evaluate('S!'+k)
            except BaseException as e: return ('HEALED-EXC',seed,c2,F,k,type(e).__name__)
            if not same(g,ref[k]): return ('HEALED-WRONG',seed,c2,F,k,ref[k],g)
        stats['sites']+=1
    stats['ok']+=1
bad=0; kinds=collections.Counter()
for s in range(200):
    r=run6(s)
    if r:
        bad+=1; kinds[r[0]+':'+str(r[-2] if r[0]=='ARMED-BARE' else '')]+=1
        if bad<=3: print(str(r)[:700])
print('bad',bad,dict(kinds),dict(stats))
