exec(open('r23.py').read().split("bad=0")[0])
from pycel.excelutil import AddressRange, AddressCell
def paths(rnd, k, cells):
    """yield (form, extractor)"""
    col, row = k[0], int(k[1:])
    ci = COLS.index(col)
    out = [('S!'+k, lambda r: r), (k, lambda r: r), (AddressCell('S!'+k), lambda r: r)]
    # enclosing range
    c1 = rnd.randint(0, ci); c2 = rnd.randint(ci, 3); r1 = rnd.randint(1, row); r2 = rnd.randint(row, row+1)
    if (c1,r1)!=(c2,r2):
        a = f'S!{COLS[c1]}{r1}:{COLS[c2]}{r2}'
        def ex(r, c1=c1,c2=c2,r1=r1,r2=r2):
            # undo dimension trimming
            h, w = r2-r1+1, c2-c1+1
            if h==1: r=(r,)
            elif w==1: r=tuple((x,) for x in r)
            return r[row-r1][ci-c1]
        out.append((a, ex))
    maxrow = max(int(x[1:]) for x in cells if cells[x] is not None); maxcol = max(COLS.index(x[0]) for x in cells if cells[x] is not None)
    def excol(r):
        if maxrow==1: return r
        return r[row-1] if row<=maxrow else None
    out.append((f'S!{col}:{col}', excol))
    def exrow(r):
        if maxcol==0: return r
        return r[ci] if ci<=maxcol else None
    out.append((f'S!{row}:{row}', exrow))
    out.append((['S!'+k,'S!A1'], lambda r: r[0])); out.append((('S!A1','S!'+k), lambda r: r[1])); out.append(((x for x in ['S!'+k]), lambda r: r[0]))
    return out
def run3(seed):
    rnd=random.Random(seed); cells=gen(rnd)
    refc=ExcelCompiler(excel=build(cells)); 
    try: ref={k: refc.evaluate('S!'+k) for k in cells}
    except Exception as ex: stats['ref-exc']+=1; return None
    sut=ExcelCompiler(excel=build(cells))
    ks=[k for k in cells if cells[k] is not None]; rnd.shuffle(ks)
    for rep in range(2):
        for k in ks:
            ps=paths(rnd,k,cells); rnd.shuffle(ps)
            for form, ex in (ps if rep else ps[:2]):
                try:
                    r=sut.evaluate(form); g=ex(r)
                except Exception as e: return ('EXC',seed,cells,k,str(form),type(e).__name__,str(e)[-300:])
                if not same(ref[k],g): return ('DIFF',seed,cells,k,str(form),ref[k],g,r)
    stats['ok']+=1
bad=0
for s in range(400):
    r=run3(s)
    if r:
        bad+=1
        if bad<=4: print(str(r)[:1000])
print('bad',bad,dict(stats))
