from mk import *
import plug2
from openpyxl.workbook.properties import CalcProperties
def cyc_wb(it=100, tol=0.001):
    wb = build({'A1':2,'B1':'=PROBE("B1",0.5*B2+1)','B2':'=PROBE("B2",0.5*B1+A1)', 'B3':'=PROBE("B3",0.25*SUM(B1:B2)+A1)', 'B4': '=PROBE("B4",0.9*B4+1)'})
    wb.calculation = CalcProperties(iterate=True, iterateCount=it, iterateDelta=tol)
    return wb
for it in (1,2,3,5,50):
    c = ExcelCompiler(excel=cyc_wb(), plugins=('plug2',))
    plug2.LOG.clear()
    v = c.evaluate('S!B1', iterations=it)
    n = sum(1 for t,_ in plug2.LOG if t=='B1')
    print('iterations', it, 'value', v, 'B1 calls', n, [round(x,4) if isinstance(x,float) else x for t,x in plug2.LOG if t=='B1'][-4:])
c = ExcelCompiler(excel=cyc_wb(), plugins=('plug2',))
plug2.LOG.clear(); v = c.evaluate('S!B4', iterations=500, tolerance=0.01); xs=[x for t,x in plug2.LOG if t=='B4']
print('B4', v, 'fixed point 10', len(xs), xs[-3:], 'bound q/(1-q)*tol=', 0.9/0.1*0.01)
plug2.LOG.clear(); v = c.evaluate('S!B3', iterations=500, tolerance=0.01); print('B3', v, [ (t,x) for t,x in plug2.LOG][:12])
