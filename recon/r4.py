from mk import *
import os, shutil
cells = {'A1':1,'A2':2,'A3':3,'B1':'=SUM(A1:A3)','B2':'=A1+1','B3':'=B1*B2', 'C1':'="a: b"', 'C2':'=C1&A2'}
save_with_values(cells,'t4.xlsx')
c = ExcelCompiler('t4.xlsx')
c.evaluate('S!B3'); c.evaluate('S!C2')
os.makedirs('out', exist_ok=True)
for f in os.listdir('out'): os.unlink('out/'+f)
c.to_file('out/m')   # pkl + yml
print(sorted(os.listdir('out')))
print(open('out/m.yml').read())
c.set_value('S!A1', 10)
c.to_file('out/m', file_types=('yml',))
c.to_file('out/m')  # pkl + yml: text unchanged -> pkl not rewritten?
l = ExcelCompiler.from_file('out/m')   # prefers pkl
print('from_file(m) A1=', l.evaluate('S!A1'), 'B3=', l.evaluate('S!B3'), ' expected A1=10, B3=165')
l = ExcelCompiler.from_file('out/m.yml')
print('from_file(m.yml) A1=', l.evaluate('S!A1'), 'B3=', l.evaluate('S!B3'))
# idempotent save
b1 = open('out/m.yml','rb').read()
c.to_file('out/m', file_types=('yml',))
print('idempotent', b1 == open('out/m.yml','rb').read())
l.to_file('out/m2', file_types=('yml',))
print('loaded save same', b1 == open('out/m2.yml','rb').read())
import difflib
print(''.join(difflib.unified_diff(b1.decode().splitlines(1), open('out/m2.yml').read().splitlines(1))))
print(l.filename, l.cycles, l.extra_data, l.hash_matches)
