# C06-A: acyclic workbooks in iterative mode must equal plain reference, on first use and after histories
exec(open('r23.py').read().split("bad=0")[0])
from openpyxl.workbook.properties import CalcProperties
def build_c(cells, inputs=None, it=20, tol=0.001):
    wb=build(cells, inputs); wb.calculation=CalcProperties(iterate=True, iterateCount=it, iterateDelta=tol); return wb
def run7(seed):
    rnd=random.Random(seed); cells=gen(rnd)
    inputs={k:v for k,v in cells.items() if not (isinstance(v,str) and v.startswith('='))}
    cur=dict(inputs)
    sut=ExcelCompiler(excel=build_c(cells, it=rnd.choice([1,2,5,50]), tol=rnd.choice([0.5,0.001])))
    assert sut.cycles
    hist=[]
    for step in range(rnd.randint(3,25)):
        if rnd.random()<0.5 and any(('S!'+k) in sut.cell_map for k in inputs):
            k=rnd.choice([k for k in inputs if ('S!'+k) in sut.cell_map])
            v=rnd.choice([rnd.randint(-5,9), round(rnd.uniform(-3,3),2), 'txt', 'q', '7', '', None, True, False, 0, 1])
            sut.set_value('S!'+k, v); cur[k]=v; hist.append(('set',k,v))
        else:
            k=rnd.choice(list(cells)); addr='S!'+k
            try: e=ExcelCompiler(excel=build(cells,cur)).evaluate(addr)
            except Exception as ex: stats['ref-exc']+=1; return None
            try: g=sut.evaluate(addr)
            except Exception as ex: return ('EXC',seed,cells,hist,addr,type(ex).__name__,str(ex)[-200:])
            hist.append(('eval',k,g))
            if not same(e,g): return ('DIFF',seed,cells,hist,addr,e,g)
    stats['ok']+=1
bad=0; kinds=collections.Counter()
for s in range(int(sys.argv[1])):
    r=run7(s)
    if r:
        bad+=1; kinds[r[0]]+=1
        if bad<=4: print(str(r)[:900])
print('bad',bad,dict(kinds),dict(stats))
