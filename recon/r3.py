from mk import *
cells = {'A1':1,'A2':2,'A3':3,'B1':'=SUM(A1:A3)','B2':'=A1+1','B3':'=B1*B2'}
print(save_with_values(cells,'t3.xlsx'))
c = ExcelCompiler('t3.xlsx')
print('validate', c.validate_calcs())
c = ExcelCompiler('t3.xlsx')
c.evaluate('S!A1'); c.set_value('S!A1', 10)
print('set before dependants built: B2=', c.evaluate('S!B2'), 'expect 11; B1=', c.evaluate('S!B1'), 'expect 15')
c = ExcelCompiler('t3.xlsx')
c.evaluate('S!B2'); c.set_value('S!A1', 10)
print('B2 built: B2=', c.evaluate('S!B2'), 'B3=', c.evaluate('S!B3'), 'expect 11, 165')
c = ExcelCompiler('t3.xlsx')
c.evaluate('S!B3'); c.set_value('S!A1', 10)
print('all built: B2=', c.evaluate('S!B2'), 'B3=', c.evaluate('S!B3'), 'expect 11, 165')
