from pycel.lib.function_helpers import excel_helper
ARMED = {'on': False, 'calls': 0}
@excel_helper(err_str_params=None)
def boom(site, x):
    ARMED['calls'] += 1
    if ARMED['on']:
        raise ARMED.get('exc', RuntimeError)('injected')
    return x
