from pycel.lib.function_helpers import excel_helper
STATE = {'calls': 0, 'fail_at': set()}
@excel_helper()
def boom(x):
    STATE['calls'] += 1
    if STATE['calls'] in STATE['fail_at'] or 'all' in STATE['fail_at']:
        raise RuntimeError('injected')
    return x
