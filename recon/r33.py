from mk import *
import threading, traceback
from openpyxl.workbook.properties import CalcProperties
from openpyxl.worksheet.formula import ArrayFormula
def cyc_wb():
    wb = build({'A1':2,'B1':'=0.5*B2+1','B2':'=0.5*B1+A1','C1':'=SUM(A1:A3)','A2':1,'A3':1,'D1':'=A1+1'})
    wb.active['E1'] = ArrayFormula('E1:E3', '=A1:A3*2'); wb.active['F1']='=SUM(E1:E3)'
    wb.calculation = CalcProperties(iterate=True, iterateCount=100, iterateDelta=0.001)
    return wb
c = ExcelCompiler(excel=cyc_wb())
for a in ('S!B1','S!C1','S!D1','S!E1:E3','S!F1'): print(a, c.evaluate(a))
c.to_file('out/ft', file_types=('yml',)); c.to_file('out/ft', file_types=('pkl',))
res = {}
def on_fresh(name, fn):
    def run():
        try: res[name] = fn()
        except Exception as e: res[name] = ('EXC', type(e).__name__, str(e)[-80:])
    t = threading.Thread(target=run); t.start(); t.join()
def load_eval(ext):
    l = ExcelCompiler.from_file('out/ft.'+ext); return [l.evaluate(a) for a in ('S!B1','S!C1','S!D1','S!F1')]
on_fresh('load-yml', lambda: load_eval('yml'))
on_fresh('load-pkl', lambda: load_eval('pkl'))
c2 = ExcelCompiler(excel=cyc_wb()); c2.evaluate('S!B1'); c2.evaluate('S!D1')
on_fresh('set_value', lambda: (c2.set_value('S!A1', 5), c2.evaluate('S!D1'))[1])
c3 = ExcelCompiler(excel=cyc_wb()); c3.evaluate('S!D1')
on_fresh('trim', lambda: (c3.trim_graph(['S!A1'], ['S!D1']), c3.evaluate('S!D1'))[1])
c4 = ExcelCompiler(excel=cyc_wb())
on_fresh('validate', lambda: c4.validate_calcs(output_addrs=['S!D1']))
for k,v in res.items(): print(k, v)
