from mk import *
import contextlib, io
cells = {'A1':1,'A2':2,'A3':3,'B1':'=SUM(A1:A3)','B2':'=A1+1','B3':'=B1*B2','C1':'=B3&"x"','C2':'=B2>1','C3':'=1/0','C4':'=IF(B2>5,B1,B3)', 'D1':'=SUM(B1:B3)'}
good = save_with_values(cells,'t9.xlsx')
print(good)
def vc(path, **kw):
    c = ExcelCompiler(path)
    with contextlib.redirect_stdout(io.StringIO()):
        return c.validate_calcs(**kw)
print('clean', vc('t9.xlsx'))
for k,v in good.items():
    if isinstance(v,bool): nv = not v
    elif isinstance(v,(int,float)): nv = v+1
    elif v.startswith('#'): nv = '#N/A'
    else: nv = v+'y'
    save_with_values(cells,'t9p.xlsx', override={k:nv})
    r = vc('t9p.xlsx')
    print(k, '->', {kk: (list(vv) ) for kk,vv in r.items()})
    r = vc('t9p.xlsx', output_addrs=['S!D1','S!C4'])
    print('    outputs D1,C4 ->', {kk: (list(vv) ) for kk,vv in r.items()})
