import logging; logging.disable(logging.CRITICAL)
import zipfile, re, io, os
from xml.sax.saxutils import escape
from openpyxl import Workbook
from pycel import ExcelCompiler

def build(cells, sheet='S'):
    wb = Workbook(); ws = wb.active; ws.title=sheet
    for k,v in cells.items(): ws[k]=v
    return wb

def save_with_values(cells, path, sheet='S', override=None):
    wb = build(cells, sheet)
    c = ExcelCompiler(excel=wb)
    vals = {}
    for k,v in cells.items():
        if isinstance(v,str) and v.startswith('='):
            vals[k] = c.evaluate(f'{sheet}!{k}')
    if override: vals.update(override)
    wb = build(cells, sheet)
    bio = io.BytesIO(); wb.save(bio)
    zin = zipfile.ZipFile(io.BytesIO(bio.getvalue()))
    out = zipfile.ZipFile(path, 'w', zipfile.ZIP_DEFLATED)
    for item in zin.infolist():
        data = zin.read(item.filename)
        if item.filename.startswith('xl/worksheets/sheet'):
            s = data.decode()
            def rep(m):
                addr = m.group(1); f = m.group(2); v = vals[addr]
                if isinstance(v,bool): t,vs='b',str(int(v))
                elif isinstance(v,(int,float)): t,vs='n',repr(v)
                elif isinstance(v,str) and v.startswith('#'): t,vs='e',escape(v)
                else: t,vs='str',escape(str(v))
                return f'<c r="{addr}" t="{t}"><f>{f}</f><v>{vs}</v></c>'
            s = re.sub(r'<c r="([A-Z]+\d+)"><f>(.*?)</f><v\s*/></c>', rep, s)
            data = s.encode()
        out.writestr(item, data)
    out.close()
    return vals
