from mk import *
import pycel.excelcompiler as ec, builtins, os
class Crash(BaseException): pass
class Torn:
    def __init__(self, f, plan): self.f=f; self.plan=plan
    def write(self, data):
        self.plan['n'] += 1
        if self.plan['n'] == self.plan['at']:
            self.f.write(data[:len(data)//2]); self.f.flush(); raise OSError(28, 'No space left on device (injected)')
        return self.f.write(data)
    def __getattr__(self, k): return getattr(self.f, k)
    def __enter__(self): return self
    def __exit__(self, *a): return self.f.__exit__(*a)
    def __iter__(self): return iter(self.f)
plan = {'n':0,'at':None}
def my_open(name, mode='r', *a, **k):
    f = builtins.open(name, mode, *a, **k)
    return Torn(f, plan) if ('w' in mode and plan['at']) else f
ec.open = my_open
cells = {'A1':1,'A2':2,'B1':'=A1+A2','B2':'=B1*2'}
c = ExcelCompiler(excel=build(cells)); c.evaluate('S!B2')
for f in os.listdir('out'): os.unlink('out/'+f)
c.to_file('out/f')          # clean: yml + pkl
plan['n']=0; plan['at']=None
# count writes for a save after a change
c.set_value('S!A1', 10)
plan['at']=10**9; c.to_file('out/f'); total = plan['n']; print('writes in a pkl+yml save:', total)
res = {}
for at in range(1, total+1):
    c.set_value('S!A1', 100+at)
    plan.update(n=0, at=at)
    try: c.to_file('out/f'); r='ok'
    except OSError as e: r='OSError'
    plan.update(n=0, at=None)
    # the next successful save of the SAME state
    c.to_file('out/f')
    try:
        l = ExcelCompiler.from_file('out/f'); v = l.evaluate('S!B2')
    except Exception as e: v = ('EXC', type(e).__name__)
    res[at] = (r, v, (100+at+2)*2)
bad = {k:v for k,v in res.items() if v[1]!=v[2]}
print('total', len(res), 'bad', bad)
