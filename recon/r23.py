import logging; logging.disable(logging.CRITICAL)
import random, sys, collections
from openpyxl import Workbook
from openpyxl.worksheet.formula import ArrayFormula
from openpyxl.workbook.defined_name import DefinedName
from pycel import ExcelCompiler
COLS='ABCD'
def gen(rnd):
    W=4; n=rnd.randint(6,16)
    cells={}; order=[]
    def coord(i): return f'{COLS[i%W]}{i//W+1}'
    for i in range(n):
        a=coord(i)
        if i<3 or rnd.random()<0.35:
            cells[a]=rnd.choice([rnd.randint(-5,9), round(rnd.uniform(-3,3),2), 'txt', 'b', True, False, None, '7'])
        else:
            def ref():
                p=rnd.choice(order); 
                return rnd.choice([p, '$'+p[0]+'$'+p[1:], 'S!'+p])
            def rng():
                j=rnd.randrange(len(order)); r2,c2=divmod(j,W); r1=rnd.randint(0,r2); c1=rnd.randint(0,c2)
                return f'{COLS[c1]}{r1+1}:{COLS[c2]}{r2+1}'
            k=rnd.random()
            if k<0.3: f=f'={ref()}{rnd.choice("+-*")}{ref()}'
            elif k<0.55: f=f'={rnd.choice(["SUM","MAX","MIN","COUNT","AVERAGE"])}({rng()})'
            elif k<0.7: f=f'=IF({ref()}>{ref()},{ref()},{ref()}&"z")'
            elif k<0.8: f=f'=SUM({rng()},{ref()})*2'
            elif k<0.9: f=f'={ref()}&{ref()}'
            else: f=f'=INDEX({rng()},1,1)'
            cells[a]=f
        order.append(a)
    return cells
def build(cells, inputs=None):
    wb=Workbook(); ws=wb.active; ws.title='S'
    for k,v in cells.items():
        if inputs and k in inputs: v=inputs[k]
        if v is not None: ws[k]=v
    return wb
def same(a,b):
    if isinstance(a,tuple) or isinstance(b,tuple):
        return isinstance(a,tuple) and isinstance(b,tuple) and len(a)==len(b) and all(same(x,y) for x,y in zip(a,b))
    if isinstance(a,bool)!=isinstance(b,bool): return False
    if a is None or b is None: return a is b
    if isinstance(a,str)!=isinstance(b,str): return False
    return a==b
stats=collections.Counter()
def run(seed, avoid=True):
    rnd=random.Random(seed); cells=gen(rnd)
    inputs={k:v for k,v in cells.items() if not (isinstance(v,str) and v.startswith('='))}
    cur=dict(inputs)
    sut=ExcelCompiler(excel=build(cells))
    refc={}
    def ref(addr):
        key=tuple(sorted((k,repr(v)) for k,v in cur.items()))
        if key not in refc: refc.clear(); refc[key]=ExcelCompiler(excel=build(cells,cur))
        return refc[key].evaluate(addr)
    hist=[]
    for step in range(rnd.randint(3,25)):
        if rnd.random()<0.5 and any(('S!'+k) in sut.cell_map for k in inputs):
            k=rnd.choice([k for k in inputs if ('S!'+k) in sut.cell_map])
            pool=[rnd.randint(-5,9), round(rnd.uniform(-3,3),2), 'txt', 'q', '7', '']
            if not avoid: pool+=[None,True,False,0,1]
            v=rnd.choice(pool)
            if avoid:
                old=cur[k]
                if isinstance(v,bool)!=isinstance(old,bool) and v==old: continue
            sut.set_value('S!'+k, v); cur[k]=v; hist.append(('set',k,v))
        else:
            k=rnd.choice(list(cells)); form=rnd.random()
            addr='S!'+k
            try: e=ref(addr)
            except Exception as ex: stats['ref-exc:'+type(ex).__name__]+=1; return None
            try: g=sut.evaluate(addr)
            except Exception as ex: return ('EXC',seed,hist,addr,type(ex).__name__,str(ex)[-200:])
            hist.append(('eval',k,g))
            if not same(e,g): return ('DIFF',seed,cells,hist,addr,e,g)
    stats['ok']+=1
    return None
bad=0
for s in range(int(sys.argv[1]), int(sys.argv[2])):
    r=run(s, avoid=(sys.argv[3]=='avoid'))
    if r:
        bad+=1
        if bad<=4: print(r)
print('bad',bad, dict(stats))
