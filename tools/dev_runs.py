#!/usr/bin/env python3
"""tools/dev_runs.py <ID> <first> <count> [step] [--tier T]  - development aid: executes run indexes
first, first+step, ... of a check in a small pool and prints the violation tags with counts
(no minimisation, no evidence).  PYCEL_SRC selects the tree.  Not a registered check."""
import collections
import json
import os
import sys

VERIF = os.path.dirname(os.path.dirname(os.path.abspath(__file__)))
SRC = os.environ.get('PYCEL_SRC', '/repo/src')
if os.environ.get('PYTHONHASHSEED') != '0':
    env = dict(os.environ, PYTHONHASHSEED='0', OMP_NUM_THREADS='1',
               PYTHONPATH=f'{SRC}:{VERIF}', PYTHONDONTWRITEBYTECODE='1')
    os.execve(sys.executable, [sys.executable] + sys.argv, env)
sys.path[:0] = [SRC, VERIF]
from sim import core, refmodel   # noqa


def main():
    args = [a for a in sys.argv[1:] if not a.startswith('--')]
    tier = 'quick'
    if '--tier' in sys.argv:
        tier = sys.argv[sys.argv.index('--tier') + 1]
        args.remove(tier)
    prop_id, first, count = args[0].upper(), int(args[1]), int(args[2])
    step = int(args[3]) if len(args) > 3 else 1
    items = [(i, core.run_seed(prop_id, i)) for i in range(first, first + count * step, step)]
    results = core.run_pool(prop_id, tier, items, int(os.environ.get('VERIF_WORKERS', '8')))
    tags = collections.Counter()
    first_of = {}
    counts = collections.Counter()
    for r in results:
        if r.get('harness_error'):
            print('HARNESS-ERROR index', r['index'], r['harness_error'][-1500:])
            return 2
        counts.update(r.get('counts', {}))
        v = r.get('violation')
        if v:
            tags[v['tag']] += 1
            first_of.setdefault(v['tag'], (r['index'], v))
    for t, n in tags.most_common():
        i, v = first_of[t]
        print(f'{n:5d}  {t}   first index {i}: expected={str(v.get("expected"))[:150]} got={str(v.get("got"))[:300]}')
    print(f'{len(results)} runs, {sum(tags.values())} violating')
    if '--counts' in sys.argv:
        for k, n in sorted(counts.items()):
            print(f'   {k}: {n}')
    return 1 if tags else 0


if __name__ == '__main__':
    sys.exit(main())
