#!/bin/sh
# tools/try_seeded.sh <dir with patch.diff demo.py meta.json> <PROPERTY> [tier] [--no-suite]
# confirms the change (suite passes, demo fails with / passes without) in a scratch worktree
# outside /repo and /verif, then runs the registered check against it.
set -u
DIR=$(cd "$1" && pwd); PROP=$2; TIER=${3:-quick}
NAME=$(basename "$DIR")
W=/tmp/seedtest-$PROP-$NAME
git -C /repo worktree remove --force "$W" >/dev/null 2>&1
git -C /repo worktree add --detach "$W" HEAD -q || exit 2
cd "$W" || exit 2
echo "== demo on unchanged tree"
( cd "$DIR" && PYTHONPATH="$W/src:$DIR" timeout 300 /venv/bin/python demo.py 2>&1 | tail -2 ); 
git apply "$DIR/patch.diff" || { echo "PATCH DOES NOT APPLY"; git -C /repo worktree remove --force "$W"; exit 2; }
echo "== demo with the change"
( cd "$DIR" && PYTHONPATH="$W/src:$DIR" timeout 300 /venv/bin/python demo.py > "$W/.demo.out" 2>&1; echo "demo exit=$?" >> "$W/.demo.out"; tail -3 "$W/.demo.out" )
if grep -q "demo exit=0" "$W/.demo.out"; then
  echo "DEMO PASSES WITH THE CHANGE: the patch does not (or no longer) break what its demo shows - applied at the wrong place, or overtaken by a later repair"
fi
if [ "${4:-}" != "--no-suite" ]; then
  echo "== suite with the change"
  PYTHONPATH="$W/src" timeout 900 /venv/bin/python -m pytest -q -p no:cacheprovider --timeout=900 tests 2>&1 | tail -1
fi
echo "== ./check $PROP $TIER against the change"
cd "${VERIF_DIR:-/verif}" && PYCEL_SRC="$W/src" ./check "$PROP" "$TIER" 2>&1 | grep -E "violation tag|VIOLATION|HARNESS|KNOWN|distinct_nontrivial" | cut -c1-260
echo "exit=$?"
git -C /repo worktree remove --force "$W"
