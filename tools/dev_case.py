#!/usr/bin/env python3
"""tools/dev_case.py <ID> <index> [--shrink] [--out FILE]: one run index inline; prints the violation,
optionally minimises and writes a replay file.  Development aid."""
import json
import os
import sys

VERIF = os.path.dirname(os.path.dirname(os.path.abspath(__file__)))
SRC = os.environ.get('PYCEL_SRC', '/repo/src')
if os.environ.get('PYTHONHASHSEED') != '0':
    env = dict(os.environ, PYTHONHASHSEED='0', OMP_NUM_THREADS='1',
               PYTHONPATH=f'{SRC}:{VERIF}', PYTHONDONTWRITEBYTECODE='1')
    os.execve(sys.executable, [sys.executable] + sys.argv, env)
sys.path[:0] = [SRC, VERIF]
from sim import core, refmodel   # noqa

refmodel.quiet()
args = [a for a in sys.argv[1:] if not a.startswith('--')]
prop_id, index = args[0].upper(), int(args[1])
tier = 'thorough' if '--thorough' in sys.argv else 'quick'
prop = core.load_prop(prop_id)
res = core.one_run(prop, core.run_seed(prop_id, index), tier, index, keep_case=True)
v = res.get('violation')
print(json.dumps(v, indent=1, default=str)[:3000])
if v and '--shrink' in sys.argv:
    small = core.shrink_case(prop, res['case'], v['tag'], 300)
    r2 = core.run_case_guarded(prop, small)
    out = sys.argv[sys.argv.index('--out') + 1] if '--out' in sys.argv else '/tmp/dev_case.json'
    json.dump({'property': prop_id, 'violation': r2.get('violation'), 'case': small},
              open(out, 'w'), indent=1, sort_keys=True, default=str)
    print('minimised ->', out)
    print(json.dumps({k: small[k] for k in small if k != 'seed'}, default=str)[:4000])
