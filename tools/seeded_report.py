#!/usr/bin/env python3
"""tools/seeded_report.py <dir with try_seeded logs>  ->  updates seeded/*/meta.json and prints
the markdown rows of DESIGN.md 10.1 (rounds 2 and 3).  The 'first pass' column and the notes on
what a miss changed are recorded by hand below (they describe the history of the machinery)."""
import glob
import json
import os
import re
import subprocess
import sys

VERIF = os.path.dirname(os.path.dirname(os.path.abspath(__file__)))

FIRST_PASS_CAUGHT = {
    # round 2 (machinery as it stood after round 1)
    'C04-r2-range-edges-only-for-new-members', 'C04-r2-unbounded-alias-early-return',
    'C06-r2-settled-cells-skip-fed-by-cycle',
    'C07-r2-array-context-pending-address-fresh-thread', 'C07-r2-tracker-state-class-defaults',
    # round 3 (machinery as it stood after round 2)
    'C01-r3-reset-cached-dependants-transitive', 'C03-r3-loader-prefers-unrelated-text-file',
    'C08-r3-drop-empty-frozen-cells', 'C09-r3-cached-error-outlives-overwrite',
    'C12-r3-array-result-spill-overwrites-stored',
    # round 4 (machinery as it stood after round 3; reconstructed from the commit history of the
    # session that was interrupted while working through this round)
    'C01-r4-contained-cell-edge-dedupe', 'C06-r4-new-cell-marking-moved-to-build-cell',
    'C06-r4-tolerance-via-isclose-relative-slack', 'C08-r4-pickle-drops-formula-results',
    'C09-r4-unlogged-failure',
    # round 5 (machinery as it stood after round 4)
    'C12-r5-error-is-an-error',
    # round 6 (machinery as it stood after round 5)
    'C07-r6-shared-name-space-per-module-set', 'C08-r6-contained-cell-dropped-from-needed',
    'C12-r6-contained-cell-dropped-from-needed',
}

NOTES = {
    'C01-r2-array-context-fast-path': 'IFERROR / IFNA / IFS over ranges in plain cells, array formulas that read such a cell (kind "mixed"), context gadget',
    'C05-r2-array-context-leak': 'same forms; C05 targets prefer context-sensitive cells, members of array formulas and the cells they read',
    'C01-r2-empty-result-reference-only': 'whole-range formulas (=A1:A3, =INDEX(rng,0,1), =IF(TRUE,rng)) biased towards a blank top-left cell',
    'C05-r2-range-formula-code-reuse': 'formulas whose text is the same in every cell but whose value depends on where they stand (=ROW()*10)',
    'C06-r2-no-cycle-met-early-return': 'loops closed through an array formula (rows of kind "cse"); this workload found D40',
    'C08-r2-text-marker-apostrophe': 'text beginning with an apostrophe in the constant and write pools',
    'C08-r2-trim-failure-not-atomic': 'after the documented ValueError of a trim with a wrong input the caller trims again with the right inputs',
    'C12-r2-one-entry-per-exception-key': 'two cells failing the same way (one report key), neither behind the other',
    'C12-r2-tolerance-folded-into-isclose': 'stored results altered by just more than the tolerance (2.5 x), not only by a relative 1e-3',
    'C03-r2-lazy-source-hash': 'the workbook file is modified between compile and save; the saved hash must be the md5 of the file that was compiled',
    'C03-r2-pickle-digest-seek': 'file faults aimed at the pickle (its first write fails / is torn) and a save after them',
    'C09-r2-empty-result-cleared-on-failed-recalc': 'failing cell whose result is an empty reference (=A35:A36 over a blank cell)',
    'C09-r2-recalculate-keeps-dependants-of-failed-cell': 'recalculate() as an operation; this found D41 and D42',
    'C01-r3-pickle-drops-numpy-results': 'statistics functions in the grammar and a gadget of cells holding numpy scalars inside a written range; this found D49 - and since D49 cells no longer hold numpy scalars, so the change has nothing left to drop (its demo passes)',
    'C03-r3-loaded-code-address-scan-misses-range-union': 'chained range operator A3:(B1):C1 in the grammar (which found D44); caught by C04 on serialized origins, not by C03',
    'C04-r3-nested-build-left-unwired': 'computed references in C04 workbooks (influence is checked through written references only)',
    'C04-r3-todo-batch-lost-on-build-failure': 'new fault for C04: a graph build that fails half way (reference to a sheet that does not exist), the model is used on; this found D48, the change was re-based on top of that repair',
    'C05-r3-cse-array-detected-by-range-corners': 'the same array formula entered twice with an ordinary cell in between',
    'C05-r3-table-lookup-memo-ignores-sheet': 'tables and structured references ([@qty], Tbl0[total]) at the same place on two sheets',
    'C06-r3-shared-tolerance-across-threads': 'not catchable by C06 (one thread by construction); caught by C07',
    'C06-r3-sticky-iteration-settings': 'workbooks that ask for iterative calculation without saying how many passes or how exact',
    'C07-r3-array-context-in-contextvar': 'threads started inside a copy of the contextvars context of a thread that has used the library (asyncio.to_thread)',
    'C07-r3-recursion-headroom-restore': 'PROBE records the interpreter settings a formula sees (recursion limit, decimal context, numpy error state, cwd, locale); a deep-chain program in the thorough tier',
    'C07-r3-round-mode-in-decimal-context': 'library canary: the thread that imports the function library against a thread that did not',
    'C08-r3-recalculate-before-trim': 'inputs (buried ones included) assigned between the evaluation of the outputs and the trim',
    'C09-r3-reset-skips-unvalued-ranges': 'caught after the grammar extensions of this round (single-cell intersections, chained ranges): thin, a few runs per quick check',
    'C12-r3-volatile-functions-drop-stored-result': 'computed references (=OFFSET(..), =INDIRECT("..")) in C12 workbooks that are validated as a whole',
    # round 4
    'C01-r4-unbounded-ref-rebuilds-cell': 'data sheets of one row / one column (the used part of A:A is a single cell) and formulas on them',
    'C03-r4-apostrophe-escape': "text beginning with an apostrophe followed by '=' in the hostile pool",
    'C03-r4-unchanged-model-skip': 'extra_data assigned or edited in place between two saves',
    'C04-r4-sparse-range-blank-members': 'gadget: a range of more than a thousand cells of which a handful are in use, one blank member also read on its own; C04 checks the members of a range from the rectangle, not from what the node declares',
    'C04-r4-trim-graph-drops-range-nodes': "one C04 run in eight is a trimmed model (C08's histories plus writes to constants the trim kept as values) under the read-trace monitor",
    'C05-r4-const-range-snapshot': 'a third of the C05 workbooks have constants written (after being read on their own) before or between the first touches',
    'C05-r4-defined-name-probe': 'a defined name reserved beyond the used area; new rule: a whole column / row never comes back longer than the last cell of the sheet',
    'C07-r4-eval-context-bound-to-building-thread': 'build mode "handoff": the thread that compiled the workbook also evaluated it first, another thread goes on; the reference is the first thread going on itself',
    'C07-r4-plugin-module-taken-half-imported': 'fault "import that takes a while": a plugin module with a yield point in its body, an import seam that makes a thread wait for the importing one (as the interpreter\'s import lock does)',
    'C08-r4-unbounded-range-no-cache': 'lookup gadget: VLOOKUP / INDEX-MATCH through whole-column references over a list no input feeds, key = an input; lookup functions in the grammar',
    'C09-r4-whole-column-in-progress': 'a reader of the whole column the failing cell stands in (=SUM(Data!B:B)+1)',
    'C12-r4-noop-set-value-stale-flag': 'prelude before validate_calcs: cells evaluated, inputs assigned the value they already hold',
    'C12-r4-shared-values-workbook': 'the workbook file is validated, rewritten in place (half of the time with the same size: stored, one character altered) and compiled again',
    # round 5
    'C01-r5-reset-stops-at-valueless-ranges': 'array formulas over an intersection of written ranges',
    'C03-r5-dependants-list-deep-pickle': 'deep model: a running-balance column of 320-480 cells, swept in address order',
    'C04-r5-set-over-formula-drops-edges': 'a value assigned over a formula that is later calculated again (set_value(cell, None) / recalculate()), then writes to its precedents',
    'C05-r5-exact-match-index-memo': 'lookup gadget with look-alike lists (TRUE next to 1) and a third list; first pass ended in HARNESS-ERROR (the replay gave the same rule through another access path): C05 tags no longer carry the path. Thin: the memo is process-wide, reference and model under test are poisoned alike most of the time',
    'C06-r5-self-reference-not-a-loop': 'diagonal and lower triangular systems (every loop a cell that refers to itself), one-cell systems',
    'C07-r5-reset-replaces-thread-local': "programs whose evaluations raise (unknown function, self-reference) next to other threads' evaluations",
    'C08-r5-lazy-if-untaken-branch': 'branch gadget: IF / CHOOSE / IFERROR over branch cells nobody else reads, the switch is an input',
    'C01-r6-operator-array-fixup-memo': 'array formulas that compare or concatenate a whole range, SUMPRODUCT over a comparison; compare gadget (ranges of 1 / TRUE / 0 / FALSE with write pools of the same)',
    'C03-r6-yaml-width-32768': 'a text constant as long as a cell can hold (32767 characters), words separated by runs of two blanks',
    'C04-r6-sumif-sized-like-first-cell': 'SUMIF / COUNTIF / AVERAGEIF in the grammar, the sum range also in Excel\'s shorthand (named by its first cell, a cell beside the criteria range)',
    'C05-r6-python-code-empty-after-failed-codegen': 'cells that cannot be compiled (and a reader of them) among the targets: every read of them has to raise, whatever was tried before; this workload reproduced D57 on the unmodified tree',
    'C06-r6-reference-cell-needs-calc-only': 'first pass ended in HARNESS-ERROR (a pass calculated #VALUE!, the harness subtracted it): a pass that calculates something that is not a number is now a verdict (C06-B, C09 cycle workload)',
    'C12-r6-contained-cell-dropped-from-needed': 'caught at first (1 run), lost in the next batch (0 runs): alias gadget - single cells with coordinates inside a range of another sheet - and the cell on the other sheet as the site in half of those runs',
    'C09-r6-iferror-catches-failing-precedent': 'IFERROR / ISERROR / IFNA over the failing cell among its dependants',
    'C09-r5-iteration-counter-rewound-at-the-end': 'fault-inside-a-cycle workload: a slowly settling loop unrelated to the failing cell; every evaluation that works is bounded and stops early only within the tolerance',
}


def main():
    logdir = sys.argv[1]
    head = subprocess.check_output(['git', '-C', '/repo', 'log', '--format=%h', '-1']).decode().strip()
    rows = {2: [], 3: [], 4: [], 5: [], 6: []}
    for meta_path in sorted(glob.glob(os.path.join(VERIF, 'seeded', '*', 'meta.json'))):
        name = os.path.basename(os.path.dirname(meta_path))
        log_path = os.path.join(logdir, name + '.log')
        if not os.path.exists(log_path):
            continue
        log = open(log_path).read()
        meta = json.load(open(meta_path))
        prop = name[:3]
        suite = re.search(r'== suite with the change\n(.*)', log)
        if not suite:
            for extra in sys.argv[2:]:
                lp = os.path.join(extra, name + '.log')
                if os.path.exists(lp):
                    suite = suite or re.search(r'== suite with the change\n(.*)', open(lp).read())
        suite = suite.group(1).strip() if suite else 'not run'
        inert = 'DEMO PASSES WITH THE CHANGE' in log
        tags = re.findall(r'violation tag=(\S+) runs=(\d+)', log)
        total = re.search(r'runs=(\d+) distinct_nontrivial=\d+ violating_runs=(\d+)', log)
        harness = 'HARNESS-ERROR' in log
        if inert:
            result = 'demo passes with the change on the current tree: overtaken by a later repair'
        elif harness:
            result = 'HARNESS-ERROR'
        elif tags:
            result = (f'caught: {", ".join(t for t, _ in tags[:2])}, '
                      f'{total.group(2)} of {total.group(1)} quick runs')
        else:
            result = f'missed by {prop} quick'
        if 'HARNESS-ERROR' in log and tags:
            harness = False      # (an error of a later tag after a reported one)
        other = {'C03-r3-loaded-code-address-scan-misses-range-union': 'C04',
                 'C06-r3-shared-tolerance-across-threads': 'C07',
                 'C03-pickle-drops-range-reference-value': None}.get(name)
        if other and not tags:
            result += f'; caught by {other} quick (see tools/try_seeded.sh <dir> {other})'
        rnd = next((k_ for k_ in (6, 5, 4, 3, 2) if f'-r{k_}-' in name), 1)
        meta.update({
            'property': prop,
            'written_by': 'independent sub-agent given only the property text and a scratch worktree',
            'confirmed_by_me': ('tools/try_seeded.sh in a scratch worktree outside /repo and /verif: '
                                f'patch applies to /repo HEAD {head}, suite with the patch: {suite}, '
                                'demo fails with the patch and passes without it'
                                if not inert else
                                'tools/try_seeded.sh: patch applies, but its demo now passes with it '
                                '(it was confirmed when it was written; a later fix: commit made it '
                                'harmless)'),
            'what_i_ran': f'tools/try_seeded.sh seeded/{name} {prop} quick',
            'check_result': result,
            'written_against': f'/repo HEAD at the time; patch.diff is kept applying to /repo HEAD ({head})',
        })
        if rnd > 1:
            meta['first_pass'] = ('caught' if name in FIRST_PASS_CAUGHT else 'missed') + \
                f' (machinery as it stood after round {rnd - 1})'
            if name in NOTES:
                meta['what_the_miss_changed'] = NOTES[name]
        with open(meta_path, 'w') as f:
            json.dump(meta, f, indent=1)
            f.write('\n')
        if rnd > 1:
            needs = meta.get('needs', '')
            needs = needs if len(needs) <= 230 else needs[:230] + '...'
            fp = 'caught' if name in FIRST_PASS_CAUGHT else 'missed'
            note = NOTES.get(name, '')
            rows[rnd].append(f'| `seeded/{name}` | {needs} | {fp} | {result}'
                             + (f' - {note}' if note and fp == 'missed' else '') + ' |')
    for rnd in (2, 3, 4, 5, 6):
        print(f'\n#### Round {rnd}\n')
        print('| change | needs (from the author\'s meta.json) | first pass | now |')
        print('|--------|--------------------------------------|------------|-----|')
        print('\n'.join(rows[rnd]))


if __name__ == '__main__':
    main()
