#!/bin/sh
# tools/seeded_wt.sh <seeded dir>  -> prints the src path of a scratch worktree (under /tmp) with the change applied
# remove with: git -C /repo worktree remove --force /tmp/swt-<name>
DIR=$(cd "$1" && pwd); NAME=$(basename "$DIR"); W=/tmp/swt-$NAME
git -C /repo worktree remove --force "$W" >/dev/null 2>&1
git -C /repo worktree add --detach "$W" HEAD -q || exit 2
git -C "$W" apply "$DIR/patch.diff" || { echo "PATCH DOES NOT APPLY" >&2; exit 2; }
echo "$W/src"
