#!/usr/bin/env python3
"""regenerates /verif/MANIFEST.json from the table below (python3 tools/mkmanifest.py)"""
import json
import os
import subprocess

HERE = os.path.dirname(os.path.dirname(os.path.abspath(__file__)))

TECH = 'deterministic simulation with fault injection'

CLAIMED = {
    'C01': dict(
        level='exploration',
        text='Seeded search over set_value/evaluate/restart histories on generated acyclic workbooks '
             '(five model origins: no stored results, xlsx with stored results, yml, json, pkl); every '
             'read is compared with a from-scratch compile holding the current inputs. Sampling, not '
             'proof: a clean batch says no stale read exists among the histories explored (counts in '
             'the evidence file). Exploration is the right level because staleness is a property of '
             '(history, graph construction order) pairs, an unbounded space.',
        note='Trusted: the harness generator/driver, its own dependency DAG, the xlsx writer stub; the '
             'reference model shares pycel arithmetic (wrong pure functions are invisible by design). '
             'Workbooks <= ~30 cells, histories <= 30 operations, <= 3 restarts.',
        technique=TECH + ': seeded operation histories with restart faults vs. from-scratch reference model, ddmin replay files',
        design='DESIGN.md section 3 C01'),
    'C03': dict(
        level='exploration',
        text='Seeded save/load histories over real files: models (acyclic, iterative, with a contracting '
             'cycle; constants hostile to yaml/json; extra_data; in-memory or xlsx origin) are saved with drawn '
             'file-type combinations interleaved with set_value/evaluate and loaded from name.ext or the bare '
             'name on the same thread, a fresh thread, or a brand-new interpreter under another '
             'PYTHONHASHSEED (with or without a fresh thread); checks: saved cells equal, identical answers to '
             'a post-load history, byte-identical re-save, equal parsed content of the re-saved loaded model, '
             'cycles/filename/hash/extra_data survive (the hash is that of the workbook file that was compiled), '
             'from_file(name) reads what the last successful to_file(name...) wrote whatever types the earlier '
             'saves wrote. A '
             'quarter of the runs inject one file fault (failed/torn n-th write, failed open, failed unlink) '
             'into a to_file and require full recovery by the next successful save.',
        note='Trusted: the file seam (module-global open/os of pycel.excelcompiler), child interpreters started '
             'by the harness, harness bookkeeping of which file the last successful save wrote. Crash = failure '
             'surfaced at a file call; no power-loss model. Known finding KF3 (text starting with "=") is '
             're-confirmed by a fixed minority of runs.',
        technique=TECH + ': seeded save/load/restart histories with file-seam faults and fresh-process restarts vs. the saved model',
        design='DESIGN.md section 3 C03'),
    'C04': dict(
        level='exploration',
        text='The C01 histories (all origins, restarts, every reference form) run under a read-trace monitor '
             'installed at the seam where pycel injects _C_/_R_ into compiled formulas: at the instant of '
             'every read the address must be a declared precedent with its edge in dep_graph (or lie inside '
             'declared ranges with edges cell->range->formula), and after every evaluate all inputs the '
             'harness DAG names must be graph ancestors of the evaluated cell (influence confirmed through '
             'the reference model before reporting; through written references only where a workbook holds '
             'computed ones). Faults: a graph build that fails half way (a formula names a cell on a '
             'sheet the workbook does not have), after which the model is used on; trim_graph in the middle '
             'of a history (one run in eight is a trimmed model with writes to the inputs and to constants '
             'the trim kept as values: there the edge may come from the wired node trim_graph left in the '
             'graph); a value assigned over a formula that is later calculated again (set_value(cell, None) '
             '/ recalculate()). Members of a range node are taken from the rectangle of its address. '
             'Sampling of formulas and histories, not proof.',
        note='Trusted: the build_eval_context wrapper (sim/seams.py) sees every read a formula makes; the '
             'harness DAG (generator-recorded precedents); networkx.ancestors. Reads by the compiler itself '
             '(no formula on the stack) are out of scope of the statement.',
        technique=TECH + ': seeded histories with a read-trace monitor on the injection seam, graph invariants checked at every read',
        design='DESIGN.md section 3 C04'),
    'C05': dict(
        level='exploration',
        text='All 24 first-evaluation orders of 4 target cells per generated workbook, each first touch and '
             'every later re-read through a drawn access path (cell, enclosing range, unbounded column/row '
             'range, list/tuple/generator, sheet-less address, address objects), on workbooks without stored '
             'results, xlsx files with stored results and models loaded from yml/json/pkl; every read must '
             'agree with every other read of that cell and with the reference model; a third of the workbooks '
             'have constants written (after being read on their own) before or between the first touches, the '
             'reference then holds the values written so far; a whole column / row never comes back longer '
             'than the sheet. Orders are enumerated per workbook, workbooks and paths are sampled.',
        note='Trusted: harness generator/driver, xlsx writer stub, reference = fresh compile evaluating each '
             'cell once (in the same interpreter: a process-wide cache inside pycel poisons both alike). '
             'The extent of the used area behind an unbounded range is only bounded from above.',
        technique=TECH + ': enumerated first-touch permutations x seeded access paths vs. reference model',
        design='DESIGN.md section 3 C05'),
    'C06': dict(
        level='exploration',
        text='Workload A: the C01 histories on acyclic workbooks compiled in iterative mode (workbook '
             'setting or cycles= override, drawn iterations/tolerance, all origins, restarts), every read '
             'compared exactly with the plain reference. Workload B: random contracting linear circular '
             'blocks (rows written out or through SUM over the cycle range) with a PROBE plugin as pass '
             'clock; per evaluate: passes <= iterations, returned value is the last pass value, early stop '
             'implies every tag moved <= tolerance in the last pass and the result is within '
             'q/(1-q) x tolerance of the numpy fixed point; set_value on b between evaluations; full, '
             'diagonal (every loop a self-reference) and lower triangular systems, loops closed through an '
             'array formula.',
        note='Trusted: PROBE plugin counts passes; numpy.linalg.solve for the fixed point; slack 1e-5 is '
             'pycel\'s documented comparison slack. Systems of 1-5 cells, iterations <= 200.',
        technique=TECH + ': seeded histories; logical pass clock through a plugin function; analytic fixed-point oracle',
        design='DESIGN.md section 3 C06'),
    'C07': dict(
        level='exploration',
        text='2-3 real threads, each with its own compiled workbook and program (iterative evaluation with '
             'per-thread settings and a PROBE pass counter, array formulas that need fit_to_range, plain '
             'histories, from_file of plain/iterative models, set_value + trim_graph, evaluations that raise, '
             'first evaluations that import a slow plugin module), models built inside the thread, outside '
             'it, or handed over by the thread that first used them, run under a '
             'baton-passing scheduler that decides every switch at yield points of cell-evaluation granularity '
             '(operation boundaries, entry/return of every formula evaluation and of every _C_/_R_ read). '
             'Schedules: the systematic (j, k) family over a 24 x 24 grid per workload pair and seeded random '
             'switching; a quarter of the random runs and a dedicated site sweep run the threads under '
             'sys.settrace with every change of line in pycel\'s own source as a yield point, the sweep walking '
             'the pre-emption point through the distinct functions a thread passes through and stopping the '
             'other thread inside the same function. Threads are plain threading.Thread or started in a copied '
             'contextvars context. Per thread the outcomes, pass counts, the interpreter settings its formulas '
             'saw and a digest of the model it built must equal the alone run on a used thread; the alone runs '
             'on a fresh and on a warmed-up thread must equal it too; the thread that imports the function '
             'library and a thread that did not must agree on a sheet of library functions. Fault "import '
             'that takes a while": a plugin module offers a yield point half way through its body; an import '
             'seam makes a thread that asks for it wait for the importing thread.',
        note='Trusted: the scheduler (one runnable thread at a time; a thread running without the baton is a '
             'harness error), yield points at cell-evaluation granularity and, in the line-grained runs, '
             'between lines of pycel\'s own source (never between the bytecodes of one line, never inside '
             'openpyxl / networkx / ruamel), PYTHONHASHSEED=0 pinned by ./check, threads never share a compiler. Known finding KF4 (CELL / reference-form '
             'INDEX read through another compiler) is re-confirmed by a fixed minority of runs.',
        technique=TECH + ': real threads under a deterministic baton-passing scheduler, enumerated (j,k) and seeded random schedules vs. alone-run oracle',
        design='DESIGN.md section 3 C07'),
    'C08': dict(
        level='exploration',
        text='Seeded histories around one trim_graph(inputs, outputs): writes/reads before it, then input '
             're-assignments (cells, range members, whole-range block writes) and output reads, optionally '
             'through yml/json/pkl save+load on the same or a fresh thread; inputs are drawn from leaf '
             'constants, ranges written in formulas, buried formula cells, constants that are also outputs, '
             'inputs feeding only some or none of the outputs, inputs assigned between the evaluation of the '
             'outputs and the trim, a second trim after the documented ValueError. Every output read is compared with the '
             'untrimmed reference model under the same input assignment.',
        note='Trusted: harness generator/driver and its DAG; reference shares pycel arithmetic. Outputs are '
             'evaluated once before trim (as every use in the repository does); input ranges are ranges some '
             'formula writes exactly; no input above a buried input; the documented ValueError for an input '
             'without dependants is accepted.',
        technique=TECH + ': seeded operation histories with trim and restart faults vs. untrimmed reference model',
        design='DESIGN.md section 3 C08'),
    'C09': dict(
        level='fault_enumeration',
        text='Fault enumeration over fault sites: every formula cell of each generated workbook in turn is the '
             'failing cell (BOOM plugin raising one of six exception classes on its k-th call, once or until '
             'disarmed; or an unknown function), in plain and iterative mode, incl. members of ranges, CSE '
             'blocks, cells under an operator that captured an error value first, and cells inside a '
             'contracting circular block; followed by retry / input-write / repair (disarm, expiry, '
             'overwrite with a constant) / follow-up histories (recalculate() and validate_calcs() among the '
             'operations) and a final sweep. An exception is accepted '
             'only on F or a dependant, only while the fault fires in that read, and only as a '
             'PyCelException; every returned value must equal the fault-free reference; in the circular '
             'workload every evaluation that works performs at most the requested passes and stops early only '
             'when nothing moved by more than the tolerance, also for a slowly settling loop that has nothing '
             'to do with the failing cell.',
        note='Trusted: BOOM/unknown-function as the model of "error inside a library or plugin function"; '
             'harness DAG for "depends on F". Sites are enumerated per workbook; workbooks, fault plans and '
             'follow-up histories are sampled. One known finding (KF1, iterative mode ignores an overwrite of '
             'a formula cell) is re-confirmed by a fixed minority of runs and avoided by the rest.',
        technique=TECH + ': enumerated fault sites x seeded fault plans and recovery histories vs. fault-free reference model',
        design='DESIGN.md section 3 C09'),
    'C12': dict(
        level='fault_enumeration',
        text='Fault enumeration over stored results of real .xlsx files: per generated workbook the clean file '
             'and then every formula cell in turn with its stored result corrupted (numbers beyond the '
             'tolerance; text, logical, error results replaced by another value or type), plus cells that '
             'call an unknown function or a raising plugin; tolerance and the set of checked outputs are '
             'drawn (the site may be unreachable; workbooks with computed references are validated as a '
             'whole; validate_calcs(sheet=..) and verify_tree=False are among the ways of choosing). Histories '
             'before the validation: cells evaluated, inputs assigned the value they hold; the file validated, '
             'rewritten in place (half of the time with the same size) and compiled again. '
             'validate_calcs must return {} for clean files and '
             'unreachable sites, name the corrupted cell with its stored and recomputed value, report nothing '
             'that does not depend on it, and list failing cells under exceptions / not-implemented.',
        note='Trusted: the xlsx writer stub (it is the fault injector), harness DAG for reachability and '
             'dependence; consistent results come from the reference model. Sites enumerated per workbook; '
             'workbooks, corruptions, tolerances, output sets sampled. Known finding KF2 (iterative mode) is '
             're-confirmed by a fixed minority of workbooks.',
        technique=TECH + ': enumerated stored-result corruption sites in real xlsx files vs. exact-report oracle',
        design='DESIGN.md section 3 C12'),
}

NOT_APPLICABLE = {
    'C02': 'pure function of formula text and cell environment: no history, schedule, clock, I/O or fault for a simulator to control',
    'C10': 'operator results are a pure function of two scalar operands',
    'C11': 'address algebra is pure arithmetic on immutable tuples',
    'C13': 'array lifting and target shaping are a pure function of operand arrays and target shape (the thread-local context stack it uses is exercised under C07/C09)',
    'C14': 'aggregates are pure functions of range contents',
    'C15': 'conditional aggregates are pure functions of range contents and criteria',
    'C16': 'lookups are pure functions of table and lookup value',
    'C17': 'serial-date arithmetic is pure; the property does not quantify over the clock-reading functions',
    'C18': 'radix conversion is a pure string/integer function',
    'C19': 'rounding is a pure numeric function',
    'C20': 'text functions are pure string functions',
}

PENDING = {}


def main():
    fixes = subprocess.run(
        ['git', '-C', '/repo', 'log', '--format=%h %s', '13bc090..HEAD'],
        stdout=subprocess.PIPE).stdout.decode().strip().splitlines()
    checks = []
    for pid in sorted(CLAIMED):
        c = CLAIMED[pid]
        checks.append({
            'property_id': pid,
            'quick_cmd': f'./check {pid} quick',
            'thorough_cmd': f'./check {pid} thorough',
            'evidence_file': f'/verif/evidence/{pid}.json',
            'replay_cmd_template': f'./check {pid} --replay {{path}}',
            'engine': 'pycel-sim',
            'level_claimed': {'category': c['level'], 'text': c['text'], 'design_ref': c['design']},
            'level_note': c['note'],
            'technique': c['technique'],
        })
    na = [{'property_id': k, 'reason': v} for k, v in sorted(NOT_APPLICABLE.items())]
    na += [{'property_id': k, 'reason': v} for k, v in sorted(PENDING.items())]
    manifest = {
        'version': 1,
        'setup_cmd': "/venv/bin/python -c \"import sys; sys.path[:0]=['/repo/src','/verif']; "
                     "import pycel, openpyxl, networkx, numpy, ruamel.yaml, sim.core\"",
        'hooks': {
            'guard': 'PYCEL_VERIF',
            'enable': 'no source hooks: the simulator uses seams pycel already has '
                      '(ExcelFormula.build_eval_context, plugins=, module-global open/os in '
                      'pycel.excelcompiler, the excel= argument, threading.local); PYCEL_VERIF is '
                      'reserved and unused. Checks import pycel from /repo/src (PYTHONPATH), '
                      'nothing is built.',
            'baseline_off_cmd': 'cd /repo && /venv/bin/python -m pytest -ra -q -p no:cacheprovider '
                                '--timeout=900 --continue-on-collection-errors',
            'source_commits': [],
            'add_only': True,
        },
        'engines': [{
            'name': 'pycel-sim',
            'path': '/verif/sim',
            'serves_properties': sorted(CLAIMED),
            'kind_free_text': 'deterministic simulator: one integer (VERIF_SEED) decides workbook, '
                              'operation history, fault plan and thread schedule; reference-model '
                              'oracles; ddmin-minimised replay files',
        }],
        'checks': checks,
        'notes': 'fix: commits in /repo (unguarded, one defect each): ' + '; '.join(fixes) +
                 '. See known_findings.json and DESIGN.md section 6.',
        'not_applicable': na,
    }
    with open(os.path.join(HERE, 'MANIFEST.json'), 'w') as f:
        json.dump(manifest, f, indent=1)
        f.write('\n')


if __name__ == '__main__':
    main()
