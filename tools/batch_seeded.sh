#!/bin/sh
# tools/batch_seeded.sh <logdir> <glob of seeded dirs...>   one try_seeded.sh per change, sequentially
LOG=$1; shift
mkdir -p "$LOG"
for d in "$@"; do
  n=$(basename "$d"); p=$(echo "$n" | cut -c1-3)
  sh "$(dirname "$0")/try_seeded.sh" "$d" "$p" quick ${NO_SUITE:+--no-suite} > "$LOG/$n.log" 2>&1
  echo "$n: $(grep -c 'violation tag' "$LOG/$n.log") tags; $(grep -E 'HARNESS|DEMO PASSES|DOES NOT APPLY' "$LOG/$n.log" | head -1)"
done
