"""Baseline defect (UNMODIFIED tree), related to property C07 (load on one
thread next to an evaluation on another thread; finer than cell granularity).

ExcelOpxWrapper.load() AND ExcelOpxWrapper.get_range() both wrap their work in

    with mock.patch('openpyxl.worksheet._reader.from_excel', self.from_excel):

(pycel/excelwrapper.py:247 and :344) to stop openpyxl from turning date
formatted numbers into datetimes.  mock.patch swaps a MODULE attribute of
openpyxl, ie: process wide state, and get_range() runs during evaluate()
whenever a cell is built lazily.  When two threads overlap like this:

    T1 (evaluate -> get_range) enters its patch   saved: the real from_excel
    T2 (load)                  enters its patch   saved: pycel's stand-in
    T1 leaves get_range  -> puts the REAL from_excel back
    T2 reads the workbook      -> openpyxl converts the dates
    T2 leaves load()     -> puts pycel's stand-in back, for good

the workbook loaded on T2 holds datetime objects where, loaded alone, it holds
numbers, and formulas on them give different results.  (Afterwards openpyxl
stays patched for every other user of openpyxl in the process.)

The interleaving is forced here with two events, hooked in from the outside.
Exits non-zero on the unmodified tree.
"""
import datetime
import logging
import os
import shutil
import sys
import tempfile
import threading

from openpyxl import Workbook

import pycel.excelwrapper as excelwrapper
from pycel import ExcelCompiler

logging.getLogger('pycel').setLevel(logging.CRITICAL)

tmpdir = tempfile.mkdtemp()
try:
    path = os.path.join(tmpdir, 'dates.xlsx')
    wb = Workbook()
    ws = wb.active
    ws['A1'] = datetime.datetime(2020, 1, 1)
    ws['B1'] = '=A1+1'
    wb.save(path)

    def load_and_evaluate():
        try:
            return ExcelCompiler(filename=path).evaluate('Sheet!B1')
        except Exception as exc:  # noqa
            return f'raised {type(exc).__name__}'

    alone = load_and_evaluate()
    print(f'loaded alone:                 B1 -> {alone!r}')

    # workbook A, evaluated on the main thread, cells are built lazily
    wb_a = Workbook()
    wb_a.active['A1'] = '=B1+1'
    wb_a.active['B1'] = 1
    compiler_a = ExcelCompiler(excel=wb_a)

    t2_in_patch = threading.Event()
    t1_left_get_range = threading.Event()
    result = []
    t2 = threading.Thread(target=lambda: result.append(load_and_evaluate()))

    real_load_workbook = excelwrapper.load_workbook

    def load_workbook(*args, **kwargs):
        if threading.current_thread() is t2:
            # T2 is inside the patch of load(), about to read the file
            t2_in_patch.set()
            t1_left_get_range.wait(30)
        return real_load_workbook(*args, **kwargs)

    real_cell_to_formula = excelwrapper._OpxCell.cell_to_formula.__func__
    started = []

    def cell_to_formula(cls, cell):
        if not started:
            # T1 is inside the patch of get_range(), T2 starts its load now
            started.append(True)
            t2.start()
            t2_in_patch.wait(30)
        return real_cell_to_formula(cls, cell)

    excelwrapper.load_workbook = load_workbook
    excelwrapper._OpxCell.cell_to_formula = classmethod(cell_to_formula)
    try:
        assert compiler_a.evaluate('Sheet!A1') == 2
    finally:
        t1_left_get_range.set()
        t2.join()
        excelwrapper.load_workbook = real_load_workbook
        excelwrapper._OpxCell.cell_to_formula = classmethod(
            real_cell_to_formula)

    print(f'loaded next to an evaluation: B1 -> {result[0]!r}')
    sys.exit(0 if result[0] == alone else 1)
finally:
    shutil.rmtree(tmpdir, ignore_errors=True)
