"""Baseline defect (UNMODIFIED tree), property C07.

CELL("contents", <reference>) and INDEX(<array of references>, ...) do not
use the evaluator of the workbook they are evaluated in.  They fetch it from
the meta data dict of the module level function:

    pycel/lib/information.py:43   _C_ = cell.excel_func_meta['name_space']['_C_']
    pycel/lib/lookup.py:249       _C_ = index.excel_func_meta['name_space']['_C_']

and pycel/lib/function_helpers.py:90 apply_meta() overwrites that shared entry
(`meta['name_space'] = name_space`) every time ANY compiler loads a formula
that uses the function.  So the reference is evaluated in the workbook that
loaded such a formula last, in this process, on whatever thread.

Part 1 below: thread T2 evaluates workbook B (to completion) inside the 2nd
cell evaluation of workbook A on thread T1 -> A!A1 gets the value of B!B1.
Part 2: the same without any overlap in time (A, then B, then A again).

The reference has to reach CELL as a reference, which is the case for the
result of OFFSET / INDEX / INDIRECT (a written B1 is passed by value).

Exits non-zero on the unmodified tree.
"""
import logging
import sys
import threading

from openpyxl import Workbook

from pycel import ExcelCompiler

logging.getLogger('pycel').setLevel(logging.CRITICAL)


def workbook(text):
    wb = Workbook()
    ws = wb.active
    ws['A1'] = '=CELL("contents", OFFSET(B1, C1, 0))'
    ws['B1'] = text
    ws['C1'] = '=1-1'
    return ExcelCompiler(excel=wb)


def on_thread(func):
    box = []
    thread = threading.Thread(target=lambda: box.append(func()))
    thread.start()
    thread.join()
    return box[0]


failures = 0

# ---- part 1: B evaluated on another thread inside an evaluation of A
a, b = workbook('text of A'), workbook('text of B')
evaluate_cell = a._evaluate
seen = []


def hooked(address):
    seen.append(address)
    if address == 'Sheet!C1' and seen.count(address) == 1:
        # A!A1 is loaded and in progress, its OFFSET() asks for A!C1
        assert on_thread(lambda: b.evaluate('Sheet!A1')) == 'text of B'
    return evaluate_cell(address)


a._evaluate = hooked
got = on_thread(lambda: a.evaluate('Sheet!A1'))
print(f'interleaved: A!A1 -> {got!r}')
if got != 'text of A':
    failures += 1

# ---- part 2: no overlap at all, every step on its own fresh thread
a, b = workbook('text of A'), workbook('text of B')
assert on_thread(lambda: a.evaluate('Sheet!A1')) == 'text of A'
assert on_thread(lambda: b.evaluate('Sheet!A1')) == 'text of B'
on_thread(lambda: a.set_value('Sheet!B1', 'new text of A'))
got = on_thread(lambda: a.evaluate('Sheet!A1'))
print(f'sequential:  A!A1 -> {got!r}')
if got != 'new text of A':
    failures += 1

sys.exit(1 if failures else 0)
