"""A loop that passes through an unbounded range: the result depends on which
cell is brought into the model first, one order gives #VALUE! for ever.

    A1 = 0.5*INDEX(A:A,2) + 1
    A2 = 0.5*INDEX(A:A,1) + 1        contracting, q = 0.5, fixed point (2, 2)

expected by the property: every first-use order gives a result within
q/(1-q)*tolerance of 2.
pycel: evaluate(A1) first -> 2, evaluate(A2) first -> '#VALUE!' (and it stays):
the node that stands for A:A is marked as calculated before it has a value and
is 'in progress' when the second cell reads it from inside its own calculation,
so it answers with its previous value None, INDEX(None, ..) is #VALUE!, and an
error in a loop never goes away.
"""
from pycel import ExcelCompiler

from _common import workbook

cells = {'A1': '=0.5*INDEX(A:A,2)+1', 'A2': '=0.5*INDEX(A:A,1)+1'}
bad = False
for first in ('Sheet!A1', 'Sheet!A2'):
    model = ExcelCompiler(excel=workbook(cells))
    got = model.evaluate(first, iterations=1000, tolerance=1e-6)
    again = model.evaluate(['Sheet!A1', 'Sheet!A2'], iterations=1000, tolerance=1e-6)
    print(f'first use {first}: expected 2 +- 1e-6, pycel returns {got!r}; '
          f'then (A1, A2) = {again!r}')
    bad |= not (isinstance(got, (int, float)) and abs(got - 2) <= 1e-6 * 1.001)
print('VIOLATION' if bad else 'OK')
