"""An explicit tolerance=0 (or iterations=0, or a workbook with maximum change
0) is silently replaced by another value ('x or default').

    A1 = 0.5*B1 + 1,  B1 = 0.5*A1 + 1    (fixed point 2, cells never stop moving
                                          in the first 40 passes)
    C1 = C1 + 1                           counts passes

expected by the property: with tolerance=0 evaluate() may only stop before the
40 requested passes if no cell moved at all in the last pass: A1 after 40
Gauss-Seidel passes is 2 - 2**-79 (prints as 2.0); with iterations=N at most N
passes are performed.
pycel: tolerance=0 is falsy, the workbook's 0.001 is used: stops after 7 passes
at 1.99987..; a workbook with iterateDelta=0 gets 0.01; iterations=0 performs
the workbook's 100 passes.
"""
from pycel import ExcelCompiler

from _common import workbook

cells = {'A1': '=0.5*B1+1', 'B1': '=0.5*A1+1', 'C1': '=C1+1'}

a = b = 0
for _ in range(40):
    b = 0.5 * a + 1
    a = 0.5 * b + 1

model = ExcelCompiler(excel=workbook(cells))
got = model.evaluate('Sheet!A1', iterations=40, tolerance=0)
print(f'evaluate(A1, iterations=40, tolerance=0): expected {a!r} (40 passes), '
      f'pycel returns {got!r}')
bad = got != a

model = ExcelCompiler(excel=workbook(cells, delta=0))
got = model.evaluate('Sheet!A1')
a100 = 2.0
print(f'workbook with maximum change 0, 100 iterations: settings {model.cycles}, '
      f'expected {a100!r} (cells move in every one of the first 50 passes), '
      f'pycel returns {got!r}')
bad |= got != a100

model = ExcelCompiler(excel=workbook(cells))
got = model.evaluate('Sheet!C1', iterations=0, tolerance=1e-9)
print(f'evaluate(C1, iterations=0): at most 0 (or 1) passes requested, '
      f'the pass counter C1 says {got!r}')
bad |= got > 1
print('VIOLATION' if bad else 'OK')
