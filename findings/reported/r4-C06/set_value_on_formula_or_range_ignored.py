"""Acyclic workbook: a value set on a formula cell, or on a range as a whole
(set_as_range=True), is honoured by non-iterative evaluation and ignored by
iterative evaluation.

expected by the property: after any set_value history the iterative model
returns exactly what the non-iterative model returns.
pycel: the iterative model calculates every formula again in each pass and
builds ranges from their cells whenever they are read.
"""
from pycel import ExcelCompiler

from _common import workbook

bad = False
cells = {'A1': 1, 'B1': '=A1+1', 'C1': '=B1*2'}
results = {}
for iterate in (False, True):
    model = ExcelCompiler(excel=workbook(cells, iterate=iterate))
    model.evaluate('Sheet!C1')
    model.set_value('Sheet!B1', 10)
    results[iterate] = model.evaluate(['Sheet!C1', 'Sheet!B1'])
print(f'set_value(B1, 10) on B1=A1+1, then (C1, B1): non-iterative '
      f'{results[False]}, iterative {results[True]}')
bad |= results[False] != results[True]

cells = {'A1': 1, 'A2': 2, 'B1': '=SUM(A1:A2)'}
for iterate in (False, True):
    model = ExcelCompiler(excel=workbook(cells, iterate=iterate))
    model.evaluate('Sheet!B1')
    model.set_value('Sheet!A1:A2', [[7], [8]], set_as_range=True)
    results[iterate] = model.evaluate('Sheet!B1')
print(f'set_value(A1:A2, [[7], [8]], set_as_range=True), then SUM(A1:A2): '
      f'non-iterative {results[False]}, iterative {results[True]}')
bad |= results[False] != results[True]
print('VIOLATION' if bad else 'OK')
