"""Acyclic workbook: after an evaluate() that failed below an unbounded range,
evaluate() of that range returns the values from before the failure.

    A1 = 1, A2 = CHECKED(A1) (plugin, raises for a negative number), A3 = A2+1

history: evaluate(A:A); set_value(A1, -1); evaluate(A:A) raises;
         set_value(A1, 5); evaluate(A:A)

expected by the property (what the non-iterative model returns): (5, 10, 11)
pycel, iterative: (1, 2, 3) - the node that stands for A:A is put 'in progress'
by eval(), the failure happens afterwards while its cells are calculated and
nothing takes the flag back; evaluate('A:A') then answers with the previous
value.  (A formula reading A:A repairs it, a direct evaluate does not.)
"""
import os
import sys

sys.path.insert(0, os.path.dirname(os.path.abspath(__file__)))

from pycel import ExcelCompiler  # noqa: E402

from _common import workbook  # noqa: E402

cells = {'A1': 1, 'A2': '=CHECKED(A1)', 'A3': '=A2+1'}
results = {}
for iterate in (False, True):
    model = ExcelCompiler(excel=workbook(cells, iterate=iterate),
                          plugins=('c06_checked_plugin',))
    first = model.evaluate('Sheet!A:A')
    model.set_value('Sheet!A1', -1)
    try:
        model.evaluate('Sheet!A:A')
        raised = False
    except Exception:
        raised = True
    model.set_value('Sheet!A1', 5)
    results[iterate] = model.evaluate('Sheet!A:A')
    print(f'iterative={iterate}: first {first}, failure raised: {raised}, '
          f'after set_value(A1, 5): {results[iterate]}')
print('expected (5, 10, 11) from both')
print('VIOLATION' if results[True] != results[False] else 'OK')
