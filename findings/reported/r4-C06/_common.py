import logging

from openpyxl import Workbook

logging.disable(logging.CRITICAL)


def workbook(cells, iterate=True, count=100, delta=0.001):
    wb = Workbook()
    ws = wb.active
    for addr, value in cells.items():
        ws[addr] = value
    wb.calculation.iterate = iterate
    wb.calculation.iterateCount = count
    wb.calculation.iterateDelta = delta
    return wb
