"""An evaluate() of another iterative model from inside a formula (plugin
function) restarts the pass counter of the evaluate() that is running.

The iteration tracker is one object per thread, not per model or per call.
Workbook X has the cell  A1 = A1 + 1 + 0*OTHERBOOK("Sheet!B1")  which moves by
one in every pass, OTHERBOOK being a plugin function that reads a cell of a
second model Y (also iterative, no cycle needed) with Y.evaluate().

expected by the property: X.evaluate('Sheet!A1', iterations=3) performs at most
3 passes: A1, blank at the start, comes out as 3.
pycel: the inner evaluate() resets iteration_number (and the todo/computed sets)
of the thread, the outer loop never reaches its limit: it does not return (the
plugin stops it here after 200 calls).
"""
import logging
import os
import sys

sys.path.insert(0, os.path.dirname(os.path.abspath(__file__)))

from openpyxl import Workbook  # noqa: E402
from pycel import ExcelCompiler  # noqa: E402

import c06_nested_plugin  # noqa: E402

logging.disable(logging.CRITICAL)


def workbook(cells):
    wb = Workbook()
    ws = wb.active
    for addr, value in cells.items():
        ws[addr] = value
    wb.calculation.iterate = True
    wb.calculation.iterateCount = 100
    wb.calculation.iterateDelta = 0.001
    return wb


inner = ExcelCompiler(excel=workbook({'A1': 5, 'B1': '=A1*2'}))
c06_nested_plugin.INNER = inner
outer = ExcelCompiler(
    excel=workbook({'A1': '=A1+1+0*OTHERBOOK("Sheet!B1")'}),
    plugins=('c06_nested_plugin',))

print('expected: evaluate(A1, iterations=3) returns 3 after 3 passes')
try:
    result = outer.evaluate('Sheet!A1', iterations=3, tolerance=1e-9)
    print('pycel   : returned', result, 'after', c06_nested_plugin.CALLS[0],
          'calculations of A1')
    ok = result == 3 and c06_nested_plugin.CALLS[0] == 3
except Exception as exc:
    print('pycel   : still iterating after', c06_nested_plugin.CALLS[0] - 1,
          'passes (stopped by the plugin):', type(exc).__name__)
    ok = False
print('OK' if ok else 'VIOLATION')
