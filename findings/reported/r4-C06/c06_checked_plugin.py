"""plugin function for failed_unbounded_range_stays_in_progress.py"""


def checked(x):
    if x < 0:
        raise ValueError('negative')
    return x * 2
