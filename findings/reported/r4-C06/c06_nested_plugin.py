"""plugin functions for nested_evaluate_from_plugin.py"""
INNER = None
CALLS = [0]


class TooManyPasses(Exception):
    pass


def otherbook(address):
    """value of a cell of another (iterative) model"""
    CALLS[0] += 1
    if CALLS[0] > 200:
        raise TooManyPasses(CALLS[0])
    return INNER.evaluate(address)
