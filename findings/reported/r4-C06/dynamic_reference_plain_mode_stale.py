"""Acyclic workbook with OFFSET / INDIRECT: the two modes disagree after a
set_value - here it is the NON-iterative result that is stale (the target of a
computed reference is not a precedent in the graph, so set_value() does not
reset the formula), the iterative model is right.  Listed because the property
is stated as 'returns exactly what non-iterative evaluation returns'.
"""
from pycel import ExcelCompiler

from _common import workbook

cells = {'A1': 1, 'A2': 2, 'A3': 3,
         'B1': '=OFFSET(A1,1,0)', 'B2': '=INDIRECT("A"&3)', 'B3': '=A2+A3'}
results = {}
for iterate in (False, True):
    model = ExcelCompiler(excel=workbook(cells, iterate=iterate))
    model.evaluate(['Sheet!B1', 'Sheet!B2', 'Sheet!B3'])
    model.set_value('Sheet!A2', 20)
    model.set_value('Sheet!A3', 30)
    results[iterate] = model.evaluate(['Sheet!B1', 'Sheet!B2', 'Sheet!B3'])
print('expected [20, 30, 50]')
print('non-iterative:', results[False])
print('iterative    :', results[True])
print('MODES DISAGREE' if results[True] != results[False] else 'OK')
