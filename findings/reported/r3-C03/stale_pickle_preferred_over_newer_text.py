"""to_file() (pkl + yml), change the model, to_file(file_types='yml'), then
from_file(name): the old pickle is loaded, not what was saved last.
"""
import logging
import os
import sys
import tempfile

import openpyxl

from pycel import ExcelCompiler

logging.disable(logging.CRITICAL)
TMP_ROOT = os.path.join(os.path.dirname(os.path.dirname(os.path.dirname(
    os.path.abspath(__file__)))), 'tmp')
os.makedirs(TMP_ROOT, exist_ok=True)
TMP = tempfile.mkdtemp(dir=TMP_ROOT)


def workbook(name, cells, arrays=(), iterate=None):
    wb = openpyxl.Workbook()
    ws = wb.active
    ws.title = 'S'
    for addr, value in cells.items():
        ws[addr] = value
    for ref, formula in arrays:
        from openpyxl.worksheet.formula import ArrayFormula
        ws[ref.split(':')[0]] = ArrayFormula(ref, formula)
    if iterate:
        wb.calculation.iterate = True
        wb.calculation.iterateCount, wb.calculation.iterateDelta = iterate
    path = os.path.join(TMP, name)
    wb.save(path)
    return path


def attempt(func):
    try:
        return func()
    except Exception as exc:
        return f'{type(exc).__name__}: {str(exc).strip().splitlines()[-1][:120]}'


path = workbook('stale.xlsx', {'A1': 1, 'B1': '=A1+1'})
model = ExcelCompiler(path)
model.evaluate('S!B1')
model.to_file()                      # stale.xlsx.pkl + stale.xlsx.yml
model.set_value('S!A1', 10)
model.to_file(file_types='yml')      # only the yml is written again
loaded = ExcelCompiler.from_file(path)
print('expected (model as saved last) A1, B1:', model.evaluate('S!A1'), model.evaluate('S!B1'))
print('from_file(name)                A1, B1:', loaded.evaluate('S!A1'), loaded.evaluate('S!B1'))
