"""to_file(file_types='pkl') writes name.yml as an intermediate file and removes it
afterwards - also when name.yml is a file the user saved before.
"""
import logging
import os
import sys
import tempfile

import openpyxl

from pycel import ExcelCompiler

logging.disable(logging.CRITICAL)
TMP_ROOT = os.path.join(os.path.dirname(os.path.dirname(os.path.dirname(
    os.path.abspath(__file__)))), 'tmp')
os.makedirs(TMP_ROOT, exist_ok=True)
TMP = tempfile.mkdtemp(dir=TMP_ROOT)


def workbook(name, cells, arrays=(), iterate=None):
    wb = openpyxl.Workbook()
    ws = wb.active
    ws.title = 'S'
    for addr, value in cells.items():
        ws[addr] = value
    for ref, formula in arrays:
        from openpyxl.worksheet.formula import ArrayFormula
        ws[ref.split(':')[0]] = ArrayFormula(ref, formula)
    if iterate:
        wb.calculation.iterate = True
        wb.calculation.iterateCount, wb.calculation.iterateDelta = iterate
    path = os.path.join(TMP, name)
    wb.save(path)
    return path


def attempt(func):
    try:
        return func()
    except Exception as exc:
        return f'{type(exc).__name__}: {str(exc).strip().splitlines()[-1][:120]}'


path = workbook('unlink.xlsx', {'A1': 1, 'B1': '=A1+1'})
model = ExcelCompiler(path)
model.evaluate('S!B1')
model.to_file(file_types='yml')
print('after to_file(yml):', sorted(os.listdir(TMP)))
model.to_file(file_types='pkl')
print('after to_file(pkl):', sorted(os.listdir(TMP)))
print('expected: from_file(name.yml) still works; got:',
      attempt(lambda: ExcelCompiler.from_file(path + '.yml').evaluate('S!B1')))
