"""from_file(..., plugins=...) of a yml/json file: plugin functions stay unknown
when the model holds an array formula (or anything else that is calculated
while the file is read).

_from_text() evaluates ranges/array formulas while loading, which builds and
caches the evaluator (ExcelCompiler._eval) before from_file() stores the
plugins; the pickle works because _eval is not pickled.  When the plugin
function is used inside the array formula itself the text cannot be loaded and
the pickle cannot be written at all.
"""
import logging
import os
import sys
import tempfile

import openpyxl

from pycel import ExcelCompiler

logging.disable(logging.CRITICAL)
TMP_ROOT = os.path.join(os.path.dirname(os.path.dirname(os.path.dirname(
    os.path.abspath(__file__)))), 'tmp')
os.makedirs(TMP_ROOT, exist_ok=True)
TMP = tempfile.mkdtemp(dir=TMP_ROOT)


def workbook(name, cells, arrays=(), iterate=None):
    wb = openpyxl.Workbook()
    ws = wb.active
    ws.title = 'S'
    for addr, value in cells.items():
        ws[addr] = value
    for ref, formula in arrays:
        from openpyxl.worksheet.formula import ArrayFormula
        ws[ref.split(':')[0]] = ArrayFormula(ref, formula)
    if iterate:
        wb.calculation.iterate = True
        wb.calculation.iterateCount, wb.calculation.iterateDelta = iterate
    path = os.path.join(TMP, name)
    wb.save(path)
    return path


def attempt(func):
    try:
        return func()
    except Exception as exc:
        return f'{type(exc).__name__}: {str(exc).strip().splitlines()[-1][:120]}'


sys.path.insert(0, TMP)
with open(os.path.join(TMP, 'c03_plugin.py'), 'w') as f:
    f.write('def myfunc(x):\n    return x * 2\n')

path = workbook('plug.xlsx', {'A1': 1, 'A2': 2, 'C1': '=MYFUNC(A1)', 'D1': '=SUM(B1:B2)'},
                arrays=[('B1:B2', '=A1:A2*2')])
model = ExcelCompiler(path, plugins=('c03_plugin', ))
print('expected (original) C1, D1:', model.evaluate('S!C1'), model.evaluate('S!D1'))
for ext in ('yml', 'json', 'pkl'):
    model.to_file(path, file_types=ext)
    loaded = ExcelCompiler.from_file(f'{path}.{ext}', plugins=('c03_plugin', ))
    print(f'{ext:5} loaded C1, D1        :',
          attempt(lambda: (loaded.evaluate('S!C1'), loaded.evaluate('S!D1'))))

path = workbook('plug2.xlsx', {'A1': 1, 'A2': 2, 'D1': '=SUM(B1:B2)'},
                arrays=[('B1:B2', '=MYFUNC(A1:A2)')])
model = ExcelCompiler(path, plugins=('c03_plugin', ))
print('plugin inside the array formula, expected (original) D1:', model.evaluate('S!D1'))
for ext in ('yml', 'json', 'pkl'):
    print(f'{ext:5} save + load + D1     :', attempt(lambda: (
        model.to_file(path, file_types=ext),
        ExcelCompiler.from_file(f'{path}.{ext}', plugins=('c03_plugin', )).evaluate('S!D1'))[1]))
