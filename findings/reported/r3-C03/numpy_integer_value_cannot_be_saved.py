"""Only numpy.float64 values are converted when the text is written.  FACTDOUBLE
returns numpy.int64; once trim_graph has turned that formula into a value the
model cannot be saved in any format.
"""
import logging
import os
import sys
import tempfile

import openpyxl

from pycel import ExcelCompiler

logging.disable(logging.CRITICAL)
TMP_ROOT = os.path.join(os.path.dirname(os.path.dirname(os.path.dirname(
    os.path.abspath(__file__)))), 'tmp')
os.makedirs(TMP_ROOT, exist_ok=True)
TMP = tempfile.mkdtemp(dir=TMP_ROOT)


def workbook(name, cells, arrays=(), iterate=None):
    wb = openpyxl.Workbook()
    ws = wb.active
    ws.title = 'S'
    for addr, value in cells.items():
        ws[addr] = value
    for ref, formula in arrays:
        from openpyxl.worksheet.formula import ArrayFormula
        ws[ref.split(':')[0]] = ArrayFormula(ref, formula)
    if iterate:
        wb.calculation.iterate = True
        wb.calculation.iterateCount, wb.calculation.iterateDelta = iterate
    path = os.path.join(TMP, name)
    wb.save(path)
    return path


def attempt(func):
    try:
        return func()
    except Exception as exc:
        return f'{type(exc).__name__}: {str(exc).strip().splitlines()[-1][:120]}'


path = workbook('npint.xlsx', {'A1': 3, 'A2': 2, 'B1': '=FACTDOUBLE(A1)', 'C1': '=B1+A2'})
model = ExcelCompiler(path)
print('expected (original) C1:', model.evaluate('S!C1'))
model.trim_graph(['S!A2'], ['S!C1'])
print('value of the trimmed B1:', repr(model.cell_map['S!B1'].value))
for ext in ('yml', 'json', 'pkl'):
    print(f'{ext:5} to_file + from_file + C1:', attempt(lambda: (
        model.to_file(path, file_types=ext),
        ExcelCompiler.from_file(f'{path}.{ext}').evaluate('S!C1'))[1]))
