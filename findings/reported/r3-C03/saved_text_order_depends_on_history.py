"""The text file is sorted with a key (sheet, column, row) that is the same for an
array formula range and for its first cell; the stable sort keeps them in cell
map (= build) order.  So the bytes written depend on the order of evaluate()
calls, and saving a loaded model (cells are built before ranges) does not give
the file it was loaded from (and the pickle is rebuilt).  Content is equal as a
set of entries, only the order differs.
"""
import logging
import os
import sys
import tempfile

import openpyxl

from pycel import ExcelCompiler

logging.disable(logging.CRITICAL)
TMP_ROOT = os.path.join(os.path.dirname(os.path.dirname(os.path.dirname(
    os.path.abspath(__file__)))), 'tmp')
os.makedirs(TMP_ROOT, exist_ok=True)
TMP = tempfile.mkdtemp(dir=TMP_ROOT)


def workbook(name, cells, arrays=(), iterate=None):
    wb = openpyxl.Workbook()
    ws = wb.active
    ws.title = 'S'
    for addr, value in cells.items():
        ws[addr] = value
    for ref, formula in arrays:
        from openpyxl.worksheet.formula import ArrayFormula
        ws[ref.split(':')[0]] = ArrayFormula(ref, formula)
    if iterate:
        wb.calculation.iterate = True
        wb.calculation.iterateCount, wb.calculation.iterateDelta = iterate
    path = os.path.join(TMP, name)
    wb.save(path)
    return path


def attempt(func):
    try:
        return func()
    except Exception as exc:
        return f'{type(exc).__name__}: {str(exc).strip().splitlines()[-1][:120]}'


path = workbook('order.xlsx', {'A1': 1, 'A2': 2, 'D1': '=SUM(B1:B2)', 'D2': '=B1+1'},
                arrays=[('B1:B2', '=A1:A2*2')])
texts = []
for order in (('S!D1', 'S!D2'), ('S!D2', 'S!D1')):
    model = ExcelCompiler(path)
    for addr in order:
        model.evaluate(addr)
    model.to_file(path, file_types='yml')
    with open(path + '.yml') as f:
        saved = f.read()
    again = os.path.join(TMP, 'again')
    ExcelCompiler.from_file(path + '.yml').to_file(again, file_types='yml')
    with open(again + '.yml') as f:
        resaved = f.read()
    keys = [line.strip().split(': =')[0] for line in saved.splitlines()
            if line.startswith('  S!B1')]
    print(f'evaluate order {order}: B1 entries in file order {keys};',
          'saving the loaded model gives the same bytes:', saved == resaved)
    texts.append(saved)
print('expected: same file for both evaluation orders; got same file:', texts[0] == texts[1])
