"""A text constant holding U+0085 (NEL) comes back with a blank instead.

ruamel writes NEL raw into a single quoted scalar and reads it back as a folded
line break; json.dump writes it raw as well and the file is read with the yaml
loader.  The pickle is built from the text, so all three formats are affected.
"""
import logging
import os
import sys
import tempfile

import openpyxl

from pycel import ExcelCompiler

logging.disable(logging.CRITICAL)
TMP_ROOT = os.path.join(os.path.dirname(os.path.dirname(os.path.dirname(
    os.path.abspath(__file__)))), 'tmp')
os.makedirs(TMP_ROOT, exist_ok=True)
TMP = tempfile.mkdtemp(dir=TMP_ROOT)


def workbook(name, cells, arrays=(), iterate=None):
    wb = openpyxl.Workbook()
    ws = wb.active
    ws.title = 'S'
    for addr, value in cells.items():
        ws[addr] = value
    for ref, formula in arrays:
        from openpyxl.worksheet.formula import ArrayFormula
        ws[ref.split(':')[0]] = ArrayFormula(ref, formula)
    if iterate:
        wb.calculation.iterate = True
        wb.calculation.iterateCount, wb.calculation.iterateDelta = iterate
    path = os.path.join(TMP, name)
    wb.save(path)
    return path


def attempt(func):
    try:
        return func()
    except Exception as exc:
        return f'{type(exc).__name__}: {str(exc).strip().splitlines()[-1][:120]}'


path = workbook('nel.xlsx', {'A1': 'a\x85b', 'B1': '=LEN(A1)&"|"&A1'})
model = ExcelCompiler(path)
expected = model.evaluate('S!A1'), model.evaluate('S!B1')
print('expected (original):', repr(expected))
for ext in ('yml', 'json', 'pkl'):
    model.to_file(path, file_types=ext)
    loaded = ExcelCompiler.from_file(f'{path}.{ext}')
    got = loaded.evaluate('S!A1'), loaded.evaluate('S!B1')
    print(f'{ext:5} loaded           :', repr(got), 'OK' if got == expected else 'DIFFERENT')
