"""yml / json are opened without an encoding.  A model with non-ascii text that was
saved in a UTF-8 process cannot be read in a brand-new process that runs with
another locale encoding (C locale without UTF-8 mode here); the pickle can.
"""
import logging
import os
import sys
import tempfile

import openpyxl

from pycel import ExcelCompiler

logging.disable(logging.CRITICAL)
TMP_ROOT = os.path.join(os.path.dirname(os.path.dirname(os.path.dirname(
    os.path.abspath(__file__)))), 'tmp')
os.makedirs(TMP_ROOT, exist_ok=True)
TMP = tempfile.mkdtemp(dir=TMP_ROOT)


def workbook(name, cells, arrays=(), iterate=None):
    wb = openpyxl.Workbook()
    ws = wb.active
    ws.title = 'S'
    for addr, value in cells.items():
        ws[addr] = value
    for ref, formula in arrays:
        from openpyxl.worksheet.formula import ArrayFormula
        ws[ref.split(':')[0]] = ArrayFormula(ref, formula)
    if iterate:
        wb.calculation.iterate = True
        wb.calculation.iterateCount, wb.calculation.iterateDelta = iterate
    path = os.path.join(TMP, name)
    wb.save(path)
    return path


def attempt(func):
    try:
        return func()
    except Exception as exc:
        return f'{type(exc).__name__}: {str(exc).strip().splitlines()[-1][:120]}'


import subprocess

path = workbook('locale.xlsx', {'A1': 'h\xe9llo \u20ac', 'B1': '=A1&"!"'})
model = ExcelCompiler(path)
print('expected (original) B1:', ascii(model.evaluate('S!B1')))
model.to_file(file_types=('pkl', 'yml'))
model.to_file(file_types='json')
code = ("import sys; from pycel import ExcelCompiler; "
        "print(ascii(ExcelCompiler.from_file(sys.argv[1]).evaluate('S!B1')))")
env = dict(os.environ, LC_ALL='C', LANG='C', PYTHONCOERCECLOCALE='0', PYTHONUTF8='0')
env['PYTHONPATH'] = os.path.dirname(os.path.dirname(sys.modules['pycel'].__file__))
for ext in ('pkl', 'yml', 'json'):
    run = subprocess.run([sys.executable, '-c', code, f'{path}.{ext}'],
                         env=env, capture_output=True, text=True)
    print(f'{ext:5} fresh process (C locale) B1:',
          run.stdout.strip() or run.stderr.strip().splitlines()[-1][:110])
