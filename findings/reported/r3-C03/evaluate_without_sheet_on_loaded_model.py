"""evaluate('B1') (no sheet name) uses the active sheet of the workbook in the
original; the stand-in of a loaded model has no get_active_sheet_name().
"""
import logging
import os
import sys
import tempfile

import openpyxl

from pycel import ExcelCompiler

logging.disable(logging.CRITICAL)
TMP_ROOT = os.path.join(os.path.dirname(os.path.dirname(os.path.dirname(
    os.path.abspath(__file__)))), 'tmp')
os.makedirs(TMP_ROOT, exist_ok=True)
TMP = tempfile.mkdtemp(dir=TMP_ROOT)


def workbook(name, cells, arrays=(), iterate=None):
    wb = openpyxl.Workbook()
    ws = wb.active
    ws.title = 'S'
    for addr, value in cells.items():
        ws[addr] = value
    for ref, formula in arrays:
        from openpyxl.worksheet.formula import ArrayFormula
        ws[ref.split(':')[0]] = ArrayFormula(ref, formula)
    if iterate:
        wb.calculation.iterate = True
        wb.calculation.iterateCount, wb.calculation.iterateDelta = iterate
    path = os.path.join(TMP, name)
    wb.save(path)
    return path


def attempt(func):
    try:
        return func()
    except Exception as exc:
        return f'{type(exc).__name__}: {str(exc).strip().splitlines()[-1][:120]}'


path = workbook('nosheet.xlsx', {'A1': 1, 'B1': '=A1+1'})
model = ExcelCompiler(path)
print("expected (original) evaluate('B1'):", model.evaluate('B1'))
for ext in ('yml', 'json', 'pkl'):
    model.to_file(path, file_types=ext)
    loaded = ExcelCompiler.from_file(f'{path}.{ext}')
    print(f"{ext:5} loaded        evaluate('B1'):", attempt(lambda: loaded.evaluate('B1')))
