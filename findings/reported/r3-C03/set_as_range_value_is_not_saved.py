"""set_value(range, values, set_as_range=True) stores the values on the range node
only.  Ranges without a formula are not written to the file, so the loaded model
answers from the (unchanged) cells.
"""
import logging
import os
import sys
import tempfile

import openpyxl

from pycel import ExcelCompiler

logging.disable(logging.CRITICAL)
TMP_ROOT = os.path.join(os.path.dirname(os.path.dirname(os.path.dirname(
    os.path.abspath(__file__)))), 'tmp')
os.makedirs(TMP_ROOT, exist_ok=True)
TMP = tempfile.mkdtemp(dir=TMP_ROOT)


def workbook(name, cells, arrays=(), iterate=None):
    wb = openpyxl.Workbook()
    ws = wb.active
    ws.title = 'S'
    for addr, value in cells.items():
        ws[addr] = value
    for ref, formula in arrays:
        from openpyxl.worksheet.formula import ArrayFormula
        ws[ref.split(':')[0]] = ArrayFormula(ref, formula)
    if iterate:
        wb.calculation.iterate = True
        wb.calculation.iterateCount, wb.calculation.iterateDelta = iterate
    path = os.path.join(TMP, name)
    wb.save(path)
    return path


def attempt(func):
    try:
        return func()
    except Exception as exc:
        return f'{type(exc).__name__}: {str(exc).strip().splitlines()[-1][:120]}'


path = workbook('asrange.xlsx', {'A1': 1, 'A2': 2, 'B1': '=SUM(A1:A2)'})
model = ExcelCompiler(path)
model.evaluate('S!B1')
model.set_value('S!A1:A2', ((5, ), (6, )), set_as_range=True)
print('expected (original) B1:', model.evaluate('S!B1'))
for ext in ('yml', 'json', 'pkl'):
    model.to_file(path, file_types=ext)
    print(f'{ext:5} loaded        B1:', ExcelCompiler.from_file(f'{path}.{ext}').evaluate('S!B1'))
