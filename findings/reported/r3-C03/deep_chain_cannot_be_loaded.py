"""A long chain of cells that the original calculated step by step (A50, A100, ...)
and a range over its end: loading evaluates the range first, with nothing
calculated yet, and runs into the recursion limit.  to_file(pkl) fails the same
way, the original answers.
"""
import logging
import os
import sys
import tempfile

import openpyxl

from pycel import ExcelCompiler

logging.disable(logging.CRITICAL)
TMP_ROOT = os.path.join(os.path.dirname(os.path.dirname(os.path.dirname(
    os.path.abspath(__file__)))), 'tmp')
os.makedirs(TMP_ROOT, exist_ok=True)
TMP = tempfile.mkdtemp(dir=TMP_ROOT)


def workbook(name, cells, arrays=(), iterate=None):
    wb = openpyxl.Workbook()
    ws = wb.active
    ws.title = 'S'
    for addr, value in cells.items():
        ws[addr] = value
    for ref, formula in arrays:
        from openpyxl.worksheet.formula import ArrayFormula
        ws[ref.split(':')[0]] = ArrayFormula(ref, formula)
    if iterate:
        wb.calculation.iterate = True
        wb.calculation.iterateCount, wb.calculation.iterateDelta = iterate
    path = os.path.join(TMP, name)
    wb.save(path)
    return path


def attempt(func):
    try:
        return func()
    except Exception as exc:
        return f'{type(exc).__name__}: {str(exc).strip().splitlines()[-1][:120]}'


N = 600
cells = {'A1': 1, 'B1': 0, 'C1': f'=SUM(A{N}:B{N})'}
cells.update({f'A{i}': f'=A{i - 1}+1' for i in range(2, N + 1)})
path = workbook('deep.xlsx', cells)
model = ExcelCompiler(path)
for i in range(50, N + 1, 50):
    model.evaluate(f'S!A{i}')
print('expected (original) C1:', model.evaluate('S!C1'))
for ext in ('yml', 'json', 'pkl'):
    print(f'{ext:5} to_file + from_file + C1:', attempt(lambda: (
        model.to_file(path, file_types=ext),
        ExcelCompiler.from_file(f'{path}.{ext}').evaluate('S!C1'))[1]))
