"""The text is evaluated (all ranges and their cells) while it is loaded.  A
formula that raises (unknown function here) inside a range that was built makes
from_file raise - and to_file(pkl) too - although the original still answers
for every other cell.
"""
import logging
import os
import sys
import tempfile

import openpyxl

from pycel import ExcelCompiler

logging.disable(logging.CRITICAL)
TMP_ROOT = os.path.join(os.path.dirname(os.path.dirname(os.path.dirname(
    os.path.abspath(__file__)))), 'tmp')
os.makedirs(TMP_ROOT, exist_ok=True)
TMP = tempfile.mkdtemp(dir=TMP_ROOT)


def workbook(name, cells, arrays=(), iterate=None):
    wb = openpyxl.Workbook()
    ws = wb.active
    ws.title = 'S'
    for addr, value in cells.items():
        ws[addr] = value
    for ref, formula in arrays:
        from openpyxl.worksheet.formula import ArrayFormula
        ws[ref.split(':')[0]] = ArrayFormula(ref, formula)
    if iterate:
        wb.calculation.iterate = True
        wb.calculation.iterateCount, wb.calculation.iterateDelta = iterate
    path = os.path.join(TMP, name)
    wb.save(path)
    return path


def attempt(func):
    try:
        return func()
    except Exception as exc:
        return f'{type(exc).__name__}: {str(exc).strip().splitlines()[-1][:120]}'


path = workbook('fail.xlsx', {'A1': 1, 'A2': 2, 'B1': '=NOSUCHFUNC(A1)', 'B2': '=A2',
                              'D1': '=SUM(A1:A2)', 'E1': '=COUNT(B1:B2)'})
model = ExcelCompiler(path)
print('original E1:', attempt(lambda: model.evaluate('S!E1')))
print('expected (original) D1:', model.evaluate('S!D1'))
for ext in ('yml', 'json', 'pkl'):
    print(f'{ext:5} to_file + from_file + D1:', attempt(lambda: (
        model.to_file(path, file_types=ext),
        ExcelCompiler.from_file(f'{path}.{ext}').evaluate('S!D1'))[1]))
