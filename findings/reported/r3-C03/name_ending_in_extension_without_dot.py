"""to_file / from_file take 'ends with yml/yaml/json/pkl' for 'has that
extension', without a dot: to_file('.../modelyaml') writes the yaml text to that
very name, from_file('.../modelyaml') then looks for 'modelyaml.yml'.
"""
import logging
import os
import sys
import tempfile

import openpyxl

from pycel import ExcelCompiler

logging.disable(logging.CRITICAL)
TMP_ROOT = os.path.join(os.path.dirname(os.path.dirname(os.path.dirname(
    os.path.abspath(__file__)))), 'tmp')
os.makedirs(TMP_ROOT, exist_ok=True)
TMP = tempfile.mkdtemp(dir=TMP_ROOT)


def workbook(name, cells, arrays=(), iterate=None):
    wb = openpyxl.Workbook()
    ws = wb.active
    ws.title = 'S'
    for addr, value in cells.items():
        ws[addr] = value
    for ref, formula in arrays:
        from openpyxl.worksheet.formula import ArrayFormula
        ws[ref.split(':')[0]] = ArrayFormula(ref, formula)
    if iterate:
        wb.calculation.iterate = True
        wb.calculation.iterateCount, wb.calculation.iterateDelta = iterate
    path = os.path.join(TMP, name)
    wb.save(path)
    return path


def attempt(func):
    try:
        return func()
    except Exception as exc:
        return f'{type(exc).__name__}: {str(exc).strip().splitlines()[-1][:120]}'


path = workbook('name.xlsx', {'A1': 1, 'B1': '=A1+1'})
model = ExcelCompiler(path)
print('expected (original) B1:', model.evaluate('S!B1'))
for name in ('modelyaml', 'modeljson', 'model'):
    target = os.path.join(TMP, name)
    model.to_file(target)
    print(f'to_file({name!r}) wrote {sorted(f for f in os.listdir(TMP) if f.startswith(name))};',
          'from_file gives B1 =', attempt(lambda: ExcelCompiler.from_file(target).evaluate('S!B1')))
