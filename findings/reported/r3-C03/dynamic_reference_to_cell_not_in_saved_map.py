"""INDIRECT / OFFSET that move to a cell which was not part of the cell map when
the model was saved: the original reads the cell from the workbook, the loaded
model gets an empty cell.
"""
import logging
import os
import sys
import tempfile

import openpyxl

from pycel import ExcelCompiler

logging.disable(logging.CRITICAL)
TMP_ROOT = os.path.join(os.path.dirname(os.path.dirname(os.path.dirname(
    os.path.abspath(__file__)))), 'tmp')
os.makedirs(TMP_ROOT, exist_ok=True)
TMP = tempfile.mkdtemp(dir=TMP_ROOT)


def workbook(name, cells, arrays=(), iterate=None):
    wb = openpyxl.Workbook()
    ws = wb.active
    ws.title = 'S'
    for addr, value in cells.items():
        ws[addr] = value
    for ref, formula in arrays:
        from openpyxl.worksheet.formula import ArrayFormula
        ws[ref.split(':')[0]] = ArrayFormula(ref, formula)
    if iterate:
        wb.calculation.iterate = True
        wb.calculation.iterateCount, wb.calculation.iterateDelta = iterate
    path = os.path.join(TMP, name)
    wb.save(path)
    return path


def attempt(func):
    try:
        return func()
    except Exception as exc:
        return f'{type(exc).__name__}: {str(exc).strip().splitlines()[-1][:120]}'


path = workbook('dyn.xlsx', {'A1': '=INDIRECT("B"&C1)', 'A2': '=OFFSET(B1,C1-1,0)',
                             'B1': 10, 'B2': 20, 'C1': 1})
model = ExcelCompiler(path)
model.evaluate('S!A1'), model.evaluate('S!A2')
loaded = {}
for ext in ('yml', 'json', 'pkl'):
    model.to_file(path, file_types=ext)
    loaded[ext] = ExcelCompiler.from_file(f'{path}.{ext}')
model.set_value('S!C1', 2)
print('expected (original) after set_value(C1, 2): A1, A2 =',
      model.evaluate('S!A1'), model.evaluate('S!A2'))
for ext, m in loaded.items():
    m.set_value('S!C1', 2)
    print(f'{ext:5} loaded after set_value(C1, 2)       : A1, A2 =',
          m.evaluate('S!A1'), m.evaluate('S!A2'))
