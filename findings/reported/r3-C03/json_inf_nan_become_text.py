"""A cell set to float inf / nan is written by json.dump as Infinity / NaN, which
the yaml loader used for json files reads as text (yml and pkl are right).
"""
import logging
import os
import sys
import tempfile

import openpyxl

from pycel import ExcelCompiler

logging.disable(logging.CRITICAL)
TMP_ROOT = os.path.join(os.path.dirname(os.path.dirname(os.path.dirname(
    os.path.abspath(__file__)))), 'tmp')
os.makedirs(TMP_ROOT, exist_ok=True)
TMP = tempfile.mkdtemp(dir=TMP_ROOT)


def workbook(name, cells, arrays=(), iterate=None):
    wb = openpyxl.Workbook()
    ws = wb.active
    ws.title = 'S'
    for addr, value in cells.items():
        ws[addr] = value
    for ref, formula in arrays:
        from openpyxl.worksheet.formula import ArrayFormula
        ws[ref.split(':')[0]] = ArrayFormula(ref, formula)
    if iterate:
        wb.calculation.iterate = True
        wb.calculation.iterateCount, wb.calculation.iterateDelta = iterate
    path = os.path.join(TMP, name)
    wb.save(path)
    return path


def attempt(func):
    try:
        return func()
    except Exception as exc:
        return f'{type(exc).__name__}: {str(exc).strip().splitlines()[-1][:120]}'


path = workbook('inf.xlsx', {'A1': 1, 'B1': '=ISNUMBER(A1)'})
for value in (float('inf'), float('nan')):
    model = ExcelCompiler(path)
    model.evaluate('S!B1')
    model.set_value('S!A1', value)
    print(f'expected (original) A1, B1: {model.evaluate("S!A1")!r}, {model.evaluate("S!B1")!r}')
    for ext in ('yml', 'json', 'pkl'):
        model.to_file(path, file_types=ext)
        loaded = ExcelCompiler.from_file(f'{path}.{ext}')
        print(f'{ext:5} loaded        A1, B1: {loaded.evaluate("S!A1")!r}, {loaded.evaluate("S!B1")!r}')
