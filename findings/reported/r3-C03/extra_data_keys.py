"""User extra_data does not always survive: keys named like the ones to_file adds
(cycles, filename, excel_hash, cell_map) are overwritten / removed, json turns
int keys into str, and a model without extra_data comes back with
extra_data == {'filename': ...}.  to_file also adds its keys to the user's dict.
"""
import logging
import os
import sys
import tempfile

import openpyxl

from pycel import ExcelCompiler

logging.disable(logging.CRITICAL)
TMP_ROOT = os.path.join(os.path.dirname(os.path.dirname(os.path.dirname(
    os.path.abspath(__file__)))), 'tmp')
os.makedirs(TMP_ROOT, exist_ok=True)
TMP = tempfile.mkdtemp(dir=TMP_ROOT)


def workbook(name, cells, arrays=(), iterate=None):
    wb = openpyxl.Workbook()
    ws = wb.active
    ws.title = 'S'
    for addr, value in cells.items():
        ws[addr] = value
    for ref, formula in arrays:
        from openpyxl.worksheet.formula import ArrayFormula
        ws[ref.split(':')[0]] = ArrayFormula(ref, formula)
    if iterate:
        wb.calculation.iterate = True
        wb.calculation.iterateCount, wb.calculation.iterateDelta = iterate
    path = os.path.join(TMP, name)
    wb.save(path)
    return path


def attempt(func):
    try:
        return func()
    except Exception as exc:
        return f'{type(exc).__name__}: {str(exc).strip().splitlines()[-1][:120]}'


path = workbook('extra.xlsx', {'A1': 1, 'B1': '=A1+1'})
user = {1: 3, 'cycles': 'mine', 'filename': 'mine', 'note': [1, 2.5, None]}
print('expected extra_data after the trip:', user)
for ext in ('yml', 'json', 'pkl'):
    model = ExcelCompiler(path)
    model.evaluate('S!B1')
    model.extra_data = dict(user)
    model.to_file(path, file_types=ext)
    loaded = ExcelCompiler.from_file(f'{path}.{ext}')
    print(f'{ext:5} loaded                      :', loaded.extra_data)
model = ExcelCompiler(path)
model.evaluate('S!B1')
model.to_file(path, file_types='yml')
print('no extra_data: expected None, got :', ExcelCompiler.from_file(path + '.yml').extra_data)
