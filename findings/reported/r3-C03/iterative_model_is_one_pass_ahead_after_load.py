"""Iterative model whose cycle runs through cells of a range: the range (and so
the cycle) is calculated once while the file is loaded, outside of any
evaluate().  When the iteration limit ends the calculation (not the tolerance)
the loaded model has done one pass more than a model compiled from the workbook
that is asked the same.
"""
import logging
import os
import sys
import tempfile

import openpyxl

from pycel import ExcelCompiler

logging.disable(logging.CRITICAL)
TMP_ROOT = os.path.join(os.path.dirname(os.path.dirname(os.path.dirname(
    os.path.abspath(__file__)))), 'tmp')
os.makedirs(TMP_ROOT, exist_ok=True)
TMP = tempfile.mkdtemp(dir=TMP_ROOT)


def workbook(name, cells, arrays=(), iterate=None):
    wb = openpyxl.Workbook()
    ws = wb.active
    ws.title = 'S'
    for addr, value in cells.items():
        ws[addr] = value
    for ref, formula in arrays:
        from openpyxl.worksheet.formula import ArrayFormula
        ws[ref.split(':')[0]] = ArrayFormula(ref, formula)
    if iterate:
        wb.calculation.iterate = True
        wb.calculation.iterateCount, wb.calculation.iterateDelta = iterate
    path = os.path.join(TMP, name)
    wb.save(path)
    return path


def attempt(func):
    try:
        return func()
    except Exception as exc:
        return f'{type(exc).__name__}: {str(exc).strip().splitlines()[-1][:120]}'


path = workbook('iter.xlsx', {'A1': '=B1*0.5+C1', 'B1': '=A1', 'C1': 1, 'D1': '=SUM(A1:B1)'},
                iterate=(3, 1e-9))
model = ExcelCompiler(path)
model.evaluate('S!D1')
print('settings:', model.cycles)
print('expected (model compiled from the workbook, first evaluate) D1:',
      ExcelCompiler(path).evaluate('S!D1'))
for ext in ('yml', 'json', 'pkl'):
    model.to_file(path, file_types=ext)
    loaded = ExcelCompiler.from_file(f'{path}.{ext}')
    print(f'{ext:5} loaded, first evaluate                                   D1:',
          loaded.evaluate('S!D1'))
