"""A file name that merely ends in the letters of an extension (no dot) is
taken to have that extension by to_file(), which writes the text under exactly
that name, while from_file() -> _from_text() then adds the dotted extension and
does not find the file."""
import os
import sys

import openpyxl

sys.path.insert(0, os.path.dirname(os.path.abspath(__file__)))
from _common import tmpdir  # noqa: E402
from pycel import ExcelCompiler  # noqa: E402

tmp = tmpdir()
wb = openpyxl.Workbook()
ws = wb.active
ws.title = 'S'
ws['A1'] = 1
ws['B1'] = '=A1+1'
path = os.path.join(tmp, 'book.xlsx')
wb.save(path)

original = ExcelCompiler(path)
expected = original.evaluate('S!B1')
for name in ('plan-pkl-yml', 'export_json', 'map.geojson'):
    name = os.path.join(tmp, name)
    original.to_file(name)
    print(os.path.basename(name), '-> files written:',
          sorted(f for f in os.listdir(tmp)
                 if f.startswith(os.path.basename(name))))
    try:
        print(f'   expected {expected}, loaded:',
              ExcelCompiler.from_file(name).evaluate('S!B1'))
    except Exception as exc:
        print(f'   expected {expected}, from_file raises '
              f'{type(exc).__name__}: {exc}')
