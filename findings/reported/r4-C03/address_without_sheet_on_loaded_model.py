"""evaluate('B1') (no sheet: the active sheet) works on the compiled model and
raises AttributeError on the model read back from any format."""
import os
import sys

import openpyxl

sys.path.insert(0, os.path.dirname(os.path.abspath(__file__)))
from _common import tmpdir  # noqa: E402
from pycel import ExcelCompiler  # noqa: E402

tmp = tmpdir()
wb = openpyxl.Workbook()
ws = wb.active
ws.title = 'S'
ws['A1'] = 1
ws['B1'] = '=A1+1'
path = os.path.join(tmp, 'book.xlsx')
wb.save(path)

original = ExcelCompiler(path)
expected = original.evaluate('B1')
for ext in ('yml', 'json', 'pkl'):
    name = os.path.join(tmp, 'saved.' + ext)
    original.to_file(name)
    loaded = ExcelCompiler.from_file(name)
    try:
        print(f"evaluate('B1'): expected {expected}, read from {ext}: "
              f"{loaded.evaluate('B1')}")
    except Exception as exc:
        print(f"evaluate('B1'): expected {expected}, read from {ext} raises "
              f"{type(exc).__name__}: {exc}")
