import logging
import os
import tempfile

logging.disable(logging.CRITICAL)

HERE = os.path.dirname(os.path.abspath(__file__))
TMP_ROOT = os.path.join(os.path.dirname(os.path.dirname(HERE)), 'tmp')
os.makedirs(TMP_ROOT, exist_ok=True)


def tmpdir():
    return tempfile.mkdtemp(dir=TMP_ROOT)
