"""from_file(name, plugins=...) is ignored by a model read from yml/json as soon
as the model holds a formula inside a range: _from_text() calculates the ranges
while loading, which builds (and caches) the evaluator before from_file() has
stored the plugins.  A plugin only function then is unknown, a plugin function
that stands in for a library function is silently not used.  The pickle of such
a model cannot even be written (its ranges are calculated without plugins)."""
import os
import sys

import openpyxl

sys.path.insert(0, os.path.dirname(os.path.abspath(__file__)))
from _common import tmpdir  # noqa: E402
from pycel import ExcelCompiler  # noqa: E402

tmp = tmpdir()
PLUGINS = ('baseline_plugin', )


def build(formula, in_range='=A1+1'):
    wb = openpyxl.Workbook()
    ws = wb.active
    ws.title = 'S'
    ws['A1'] = 2
    ws['A2'] = in_range          # a formula inside the range A1:A2
    ws['B1'] = '=SUM(A1:A2)'
    ws['C1'] = formula
    path = os.path.join(tmp, 'book.xlsx')
    wb.save(path)
    model = ExcelCompiler(path, plugins=PLUGINS)
    model.evaluate(['S!B1', 'S!C1'])
    return model


for formula in ('=TRIPLE(A1)', '=POWER(A1,3)'):
    original = build(formula)
    print(f'C1 {formula}: the compiled model returns', original.evaluate('S!C1'))
    for ext in ('yml', 'json', 'pkl'):
        name = os.path.join(tmp, 'saved.' + ext)
        try:
            original.to_file(name)
        except Exception as exc:
            print(f'   {ext}: expected the model to be saved, to_file raises '
                  f'{type(exc).__name__}: {str(exc).strip().splitlines()[-1]}')
            continue
        try:
            loaded = ExcelCompiler.from_file(name, plugins=PLUGINS)
            print(f'   {ext}: expected {original.evaluate("S!C1")}, the loaded '
                  f'model returns {loaded.evaluate("S!C1")}')
        except Exception as exc:
            print(f'   {ext}: expected {original.evaluate("S!C1")}, the loaded '
                  f'model raises {type(exc).__name__}: '
                  f'{str(exc).strip().splitlines()[-1]}')

# and when the plugin function itself sits inside a range, nothing can be loaded
original = build('=A1', in_range='=TRIPLE(A1)')
print('B1 =SUM(A1:A2) with A2 =TRIPLE(A1): the compiled model returns',
      original.evaluate('S!B1'))
for ext in ('yml', 'json', 'pkl'):
    name = os.path.join(tmp, 'saved2.' + ext)
    try:
        original.to_file(name)
        loaded = ExcelCompiler.from_file(name, plugins=PLUGINS)
        print(f'   {ext}: expected {original.evaluate("S!B1")}, the loaded '
              f'model returns {loaded.evaluate("S!B1")}')
    except Exception as exc:
        print(f'   {ext}: expected {original.evaluate("S!B1")}, to_file/from_file '
              f'raises {type(exc).__name__}: '
              f'{str(exc).strip().splitlines()[-1]}')
