"""json: keys of extra_data that are not text come back as text, and the
floats inf / nan written with set_value() come back as the texts 'Infinity' /
'NaN'.  All formats: an extra_data key named like one of the keys to_file adds
(cycles, excel_hash, cell_map, filename) is dropped (and taken out of the
user's dict)."""
import os
import sys

import openpyxl

sys.path.insert(0, os.path.dirname(os.path.abspath(__file__)))
from _common import tmpdir  # noqa: E402
from pycel import ExcelCompiler  # noqa: E402

tmp = tmpdir()
wb = openpyxl.Workbook()
ws = wb.active
ws.title = 'S'
ws['A1'] = 1
ws['B1'] = '=A1+1'
path = os.path.join(tmp, 'book.xlsx')
wb.save(path)

original = ExcelCompiler(path)
original.evaluate('S!B1')
notes = {1: 'one', 2.5: 'two and a half', 'cycles': 'how often we meet'}
for ext in ('yml', 'json', 'pkl'):
    original.extra_data = dict(notes)
    name = os.path.join(tmp, 'notes.' + ext)
    original.to_file(name)
    loaded = ExcelCompiler.from_file(name)
    got = {k: v for k, v in loaded.extra_data.items() if k != 'filename'}
    print(f'extra_data: expected {notes}\n   read from {ext}: {got}')

for value in (float('inf'), float('nan')):
    original.set_value('S!A1', value)
    for ext in ('yml', 'json', 'pkl'):
        name = os.path.join(tmp, 'value.' + ext)
        original.to_file(name)
        loaded = ExcelCompiler.from_file(name)
        print(f'A1: expected {original.evaluate("S!A1")!r}, read from {ext}: '
              f'{loaded.evaluate("S!A1")!r}')
