"""plugin module used by plugins_ignored_by_text_models.py"""


def triple(x):
    return x * 3


def power(number, exponent):
    """stands in for the library's POWER(): one more than the real result"""
    return number ** exponent + 1
