"""Two things set_value() changes are not in the saved model: a value written
over a formula cell, and a value written onto a range node (set_as_range).  The
model that was saved keeps returning them, the loaded model does not."""
import os
import sys

import openpyxl

sys.path.insert(0, os.path.dirname(os.path.abspath(__file__)))
from _common import tmpdir  # noqa: E402
from pycel import ExcelCompiler  # noqa: E402

tmp = tmpdir()
wb = openpyxl.Workbook()
ws = wb.active
ws.title = 'S'
ws['A1'] = 1
ws['A2'] = 2
ws['D1'] = '=A1+1'
ws['D2'] = '=SUM(A1:A2)'
ws['D3'] = '=D1*2'
path = os.path.join(tmp, 'book.xlsx')
wb.save(path)

original = ExcelCompiler(path)
cells = ['S!D1', 'S!D2', 'S!D3']
print('compiled:', original.evaluate(cells))
original.set_value('S!D1', 100)                                   # over a formula
original.set_value('S!A1:A2', [10, 20], set_as_range=True)        # onto a range
expected = original.evaluate(cells)
for ext in ('yml', 'json', 'pkl'):
    name = os.path.join(tmp, 'saved.' + ext)
    original.to_file(name)
    got = ExcelCompiler.from_file(name).evaluate(cells)
    print(f'   expected {expected}, the model read from {ext} returns {got}')
