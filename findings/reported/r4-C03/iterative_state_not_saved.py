"""Iterative model: what a circular formula arrived at is the start of its next
calculation (A1 = A1 + B1 counts up).  The saved model holds the code only, so
the loaded model starts again from blank and every evaluate() after loading
differs from the model that was saved."""
import os
import sys

import openpyxl

sys.path.insert(0, os.path.dirname(os.path.abspath(__file__)))
from _common import tmpdir  # noqa: E402
from pycel import ExcelCompiler  # noqa: E402

tmp = tmpdir()
wb = openpyxl.Workbook()
ws = wb.active
ws.title = 'S'
ws['A1'] = '=A1+B1'
ws['B1'] = 1
wb.calculation.iterate = True
wb.calculation.iterateCount = 5
wb.calculation.iterateDelta = 0.001
path = os.path.join(tmp, 'count.xlsx')
wb.save(path)

original = ExcelCompiler(path)
print('before saving, evaluate(A1) twice:',
      original.evaluate('S!A1'), original.evaluate('S!A1'))
for ext in ('yml', 'json', 'pkl'):
    original.to_file(os.path.join(tmp, 'count.' + ext))
loaded = {ext: ExcelCompiler.from_file(os.path.join(tmp, 'count.' + ext))
          for ext in ('yml', 'json', 'pkl')}
expected = original.evaluate('S!A1'), original.evaluate('S!A1')
print('after saving, the saved model goes on with   ', expected)
for ext, model in loaded.items():
    got = model.evaluate('S!A1'), model.evaluate('S!A1')
    print(f'   expected {expected}, the model read from {ext} returns {got}')
