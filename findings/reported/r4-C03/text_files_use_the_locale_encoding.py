"""The text files are opened without an encoding, so they are written and read
in the encoding of the locale of the process.  A model with text outside ASCII
saved by a process in a UTF-8 locale cannot be read by a fresh process that
runs in the C locale (and cannot be saved there either)."""
import os
import subprocess
import sys

import openpyxl

sys.path.insert(0, os.path.dirname(os.path.abspath(__file__)))
from _common import tmpdir  # noqa: E402
from pycel import ExcelCompiler  # noqa: E402

if len(sys.argv) > 1:
    try:
        print('   fresh process reads', sys.argv[1].rsplit('.')[-1], '->',
              ascii(ExcelCompiler.from_file(sys.argv[1]).evaluate('S!B1')))
    except Exception as exc:
        print('   fresh process reads', sys.argv[1].rsplit('.')[-1],
              '-> raises', type(exc).__name__ + ':', exc)
    sys.exit()

tmp = tmpdir()
wb = openpyxl.Workbook()
ws = wb.active
ws.title = 'S'
ws['A1'] = 'caf\xe9'
ws['B1'] = '=A1&"!"'
path = os.path.join(tmp, 'book.xlsx')
wb.save(path)

original = ExcelCompiler(path)
print('expected', ascii(original.evaluate('S!B1')))
env = dict(os.environ, LC_ALL='C', PYTHONCOERCECLOCALE='0', PYTHONUTF8='0')
for ext in ('yml', 'json', 'pkl'):
    name = os.path.join(tmp, 'saved.' + ext)
    original.to_file(name)
    subprocess.run([sys.executable, '-X', 'utf8=0', __file__, name], env=env)
