"""The cells of the text file are sorted by (sheet, column, row) of where an
address starts, so an array formula range and its first cell (S!B1:B3 / S!B1)
tie, and the order the model happened to build them in decides.  The same
workbook evaluated in another order saves another file, and the file saved from
the loaded model is not the file it was loaded from (so its pickle is rebuilt)."""
import os
import sys

import openpyxl
from openpyxl.worksheet.formula import ArrayFormula

sys.path.insert(0, os.path.dirname(os.path.abspath(__file__)))
from _common import tmpdir  # noqa: E402
from pycel import ExcelCompiler  # noqa: E402

tmp = tmpdir()
wb = openpyxl.Workbook()
ws = wb.active
ws.title = 'S'
for row in (1, 2, 3):
    ws.cell(row, 1, row)
ws['B1'] = ArrayFormula('B1:B3', '=A1:A3*2')
ws['C1'] = '=SUM(B1:B3)+B1'
path = os.path.join(tmp, 'book.xlsx')
wb.save(path)


def cell_lines(name):
    with open(name) as f:
        return [line.strip() for line in f if line.startswith('  S!B1')]


one = ExcelCompiler(path)
one.evaluate('S!C1')
one.to_file(os.path.join(tmp, 'one.yml'))

other = ExcelCompiler(path)
other.evaluate('S!B1')
other.evaluate('S!C1')
other.to_file(os.path.join(tmp, 'other.yml'))

loaded = ExcelCompiler.from_file(os.path.join(tmp, 'one.yml'))
loaded.to_file(os.path.join(tmp, 'one-again.yml'))

print('expected the three files to be the same file')
for name in ('one.yml', 'other.yml', 'one-again.yml'):
    print(f'   {name}: {cell_lines(os.path.join(tmp, name))}')
same = len({open(os.path.join(tmp, n)).read()
            for n in ('one.yml', 'other.yml', 'one-again.yml')}) == 1
print('   byte-identical:', same)
