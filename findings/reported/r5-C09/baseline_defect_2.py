"""Baseline observation (unmodified tree), property C09, plain mode - debatable.

"retrying it or a dependant fails again with one of pycel's own errors"

C1 = ROW(A1:A3) has a written reference to the range A1:A3 which holds the
failing cell A2, so in the dependency graph it is a dependant of A2 (and
set_value() on A2 resets it), but its value does not need A2.  Evaluating C1
raises UnknownFunction the first time (the range is calculated while the
graph is built), raises again the second time (the cell gets its value and
then the reference-only range is calculated, excelcompiler.py:1007-1015),
and from the third time on returns 1: the same evaluate() call on an
unchanged model first fails twice and then succeeds.  Whether 1 or the error
is right depends on whether C1 counts as a dependant, but the answer should
not change between retries.
"""
import logging
import sys

from openpyxl import Workbook

from pycel import ExcelCompiler

logging.disable(logging.CRITICAL)

wb = Workbook()
ws = wb.active
ws.title = 'S'
ws['A1'] = 1
ws['A2'] = '=NOPE(A1)'
ws['A3'] = 3
ws['C1'] = '=ROW(A1:A3)'
m = ExcelCompiler(excel=wb)

outcomes = []
for i in range(4):
    try:
        outcomes.append(m.evaluate('S!C1'))
    except Exception as exc:
        outcomes.append(type(exc).__name__)
print(outcomes)
if len(set(map(str, outcomes))) != 1:
    sys.exit('retries of the same evaluation do not agree')
