"""Baseline defect (unmodified tree), property C09, iterative mode.

"once the failing cell is overwritten with a constant its dependants evaluate
as in a fresh model. This holds in plain and iterative mode"

In iterative mode set_value() on a formula cell only stores the value: the
cell keeps its formula and every evaluate() calculates all formulas again, so
the overwritten failing cell is calculated again, fails again, and the
dependant can never be evaluated (in plain mode the same history gives 6).
The value set with set_value() is lost the same way for a formula cell that
does not fail (it is silently calculated over).
"""
import logging
import sys

from openpyxl import Workbook

from pycel import ExcelCompiler

logging.disable(logging.CRITICAL)


def model(cycles):
    wb = Workbook()
    ws = wb.active
    ws.title = 'S'
    ws['A1'] = 1
    ws['B1'] = '=NOPE(A1)'
    ws['C1'] = '=B1+1'
    return ExcelCompiler(excel=wb, cycles=cycles)


results = {}
for cycles in (False, True):
    m = model(cycles)
    try:
        m.evaluate('S!C1')
        raise AssertionError('expected to fail')
    except Exception as exc:
        assert type(exc).__name__ in ('FormulaEvalError', 'UnknownFunction')
    m.set_value('S!B1', 5)
    try:
        results[cycles] = m.evaluate('S!C1')
    except Exception as exc:
        results[cycles] = type(exc).__name__
    print('cycles' if cycles else 'plain ', '-> C1 =', results[cycles])

if results[False] != 6 or results[True] != 6:
    sys.exit('dependant of the overwritten cell does not evaluate to 6')
