"""Baseline (unmodified tree): two workbooks loaded at the same time on two
threads - ExcelOpxWrapper.load() (and get_range(), which every first
evaluation of an xlsx backed compiler goes through) swaps the module global
openpyxl.worksheet._reader.from_excel with unittest.mock.patch and swaps it
back afterwards.  Saving/restoring a process wide global is only right when
the users nest; when two loads overlap the second one saves the patched
function as "the original", the first one puts the real from_excel back while
the second one is still reading, and the second one finally leaves the patch
installed for good.

NOT at cell-evaluation granularity: the preemption has to fall inside load()
(between its two load_workbook() calls).  To force that deterministically the
reproducer wraps the name `load_workbook` in pycel.excelwrapper with a function
that only adds a pause - no pycel behaviour is changed.

Expected (and what each load gives alone): a date formatted cell holding
45000 is read as the number 45000, B1 = A1 + 1 evaluates to 45001.
"""
import logging
import os
import sys
import tempfile
import threading

import openpyxl
from openpyxl import Workbook

import pycel.excelwrapper
from pycel import ExcelCompiler

logging.getLogger('pycel').addHandler(logging.NullHandler())
logging.getLogger('pycel').propagate = False

HERE = os.path.dirname(os.path.abspath(__file__))
TMP_ROOT = os.path.join(os.path.dirname(os.path.dirname(HERE)), 'tmp')
os.makedirs(TMP_ROOT, exist_ok=True)
TMP = tempfile.mkdtemp(dir=TMP_ROOT)
WAIT = 60


def make(name):
    wb = Workbook()
    ws = wb.active
    ws.title = 'S'
    ws['A1'] = 45000
    ws['A1'].number_format = 'yyyy-mm-dd'
    ws['B1'] = '=A1+1'
    path = os.path.join(TMP, name)
    wb.save(path)
    return path


def outcome(fn):
    try:
        return fn()
    except BaseException as exc:  # noqa
        return f'{type(exc).__name__}: ' + (
            str(exc).strip().splitlines() or [''])[-1][:120]


def load_and_eval(path):
    compiler = ExcelCompiler(path)
    return (repr(compiler.evaluate('S!A1')),
            outcome(lambda: compiler.evaluate('S!B1')))


# ---- instrumentation: pause a thread between the two load_workbook() calls
real_load_workbook = pycel.excelwrapper.load_workbook
paused = {}
resume = {}


def pausing_load_workbook(filename, *args, **kwargs):
    result = real_load_workbook(filename, *args, **kwargs)
    name = threading.current_thread().name
    if name in paused and not kwargs.get('data_only'):
        paused[name].set()
        assert resume[name].wait(WAIT)
    return result


def main():
    reader_from_excel = openpyxl.worksheet._reader.from_excel
    path_a, path_b = make('a.xlsx'), make('b.xlsx')

    alone = load_and_eval(path_a)
    print('alone              :', alone)

    pycel.excelwrapper.load_workbook = pausing_load_workbook
    results = {}
    threads = {}
    for name, path in (('A', path_a), ('B', path_b)):
        paused[name] = threading.Event()
        resume[name] = threading.Event()
        threads[name] = threading.Thread(
            name=name, target=lambda n=name, p=path: results.__setitem__(
                n, outcome(lambda: load_and_eval(p))))

    threads['A'].start()                 # A: patch installed, first read done
    assert paused['A'].wait(WAIT)
    threads['B'].start()                 # B: saves A's patch as the original
    assert paused['B'].wait(WAIT)
    resume['A'].set()                    # A finishes, the real one is back
    threads['A'].join(WAIT)
    resume['B'].set()                    # B reads the values without the patch
    threads['B'].join(WAIT)
    pycel.excelwrapper.load_workbook = real_load_workbook

    print('thread A (expected', alone, '):', results.get('A'))
    print('thread B (expected', alone, '):', results.get('B'))
    left_patched = openpyxl.worksheet._reader.from_excel is not reader_from_excel
    print('openpyxl.worksheet._reader.from_excel still replaced afterwards:',
          left_patched, '(expected False)')

    if results.get('A') == alone and results.get('B') == alone and not left_patched:
        print('PASS')
        return 0
    print('FAIL')
    return 1


if __name__ == '__main__':
    sys.exit(main())
