"""set_value() on a formula cell (override) is not persisted: the loaded model
computes the formula again.  yml, json and pkl."""
import os, tempfile
from openpyxl import Workbook
from pycel import ExcelCompiler


def _tmpdir():
    import atexit, shutil, tempfile
    path = tempfile.mkdtemp(prefix='c03-baseline-')
    atexit.register(shutil.rmtree, path, True)
    return path

wb = Workbook(); ws = wb.active; ws.title = 'S'
ws['A1'] = 1; ws['B1'] = '=A1+1'; ws['C1'] = '=B1*2'
model = ExcelCompiler(excel=wb)
model.evaluate('S!C1')
model.set_value('S!B1', 10)          # legal: overrides the formula result
expected = model.evaluate('S!B1'), model.evaluate('S!C1')
tmp = _tmpdir()
for ext in ('yml', 'json', 'pkl'):
    name = os.path.join(tmp, 'm.' + ext)
    model.to_file(name)
    loaded = ExcelCompiler.from_file(name)
    got = loaded.evaluate('S!B1'), loaded.evaluate('S!C1')
    print(f'{ext}: expected (B1, C1) = {expected}, loaded model returns {got}',
          'OK' if got == expected else 'VIOLATION')
