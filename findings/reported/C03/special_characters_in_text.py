"""Text with NEL / LS / PS comes back with a blank instead (yml, json, pkl);
a json file holding DEL, a C1 control, U+FFFE or U+FFFF cannot be loaded at
all; json turns inf/nan into the texts 'Infinity'/'NaN'."""
import math, os, tempfile
from openpyxl import Workbook
from pycel import ExcelCompiler


def _tmpdir():
    import atexit, shutil, tempfile
    path = tempfile.mkdtemp(prefix='c03-baseline-')
    atexit.register(shutil.rmtree, path, True)
    return path

tmp = _tmpdir()
values = ['x\x85y', 'x\u2028y', 'x\u2029y', 'x\x7fy', 'x\x9fy', 'x\ufffey', 'x\uffffy',
          float('inf'), float('nan')]
for value in values:
    for ext in ('yml', 'json', 'pkl'):
        wb = Workbook(); ws = wb.active; ws.title = 'S'
        ws['A1'] = 0; ws['B1'] = '=A1'
        model = ExcelCompiler(excel=wb)
        model.evaluate('S!B1')
        model.set_value('S!A1', value)
        name = os.path.join(tmp, 'm.' + ext)
        try:
            model.to_file(name)
            got = ExcelCompiler.from_file(name).evaluate('S!A1')
        except Exception as exc:
            got = f'raised {type(exc).__name__}'
        same = type(got) is type(value) and (
            got == value or isinstance(value, float) and math.isnan(value) and math.isnan(got))
        if not same:
            print(f'{ext}: expected {value!r}, loaded model returns {got!r}  VIOLATION')
