from pycel.excelutil import flatten  # noqa: F401


def triple(x):
    return x * 3
