"""OFFSET/INDIRECT: (a) the original keeps the cached result when the target of
the reference changes, the loaded model (nothing cached) sees the change;
(b) cells that were never touched before saving are blank in the loaded
model, the original reads them from the workbook."""
import os, tempfile
from openpyxl import Workbook
from pycel import ExcelCompiler


def _tmpdir():
    import atexit, shutil, tempfile
    path = tempfile.mkdtemp(prefix='c03-baseline-')
    atexit.register(shutil.rmtree, path, True)
    return path

wb = Workbook(); ws = wb.active; ws.title = 'S'
for r in range(1, 6):
    ws.cell(row=r, column=1, value=r * 10)
ws['B1'] = 1
ws['C1'] = '=OFFSET(A1,B1,0)'
ws['C2'] = '=INDIRECT("A"&B1)'
model = ExcelCompiler(excel=wb)
model.evaluate('S!C1'); model.evaluate('S!C2')
name = os.path.join(_tmpdir(), 'm.yml')
model.to_file(name)
loaded = ExcelCompiler.from_file(name)
for m in (model, loaded):
    m.set_value('S!A2', 99)          # A2 is what OFFSET(A1,1,0) points at
a = model.evaluate('S!C1'), loaded.evaluate('S!C1')
print(f'(a) after set_value(A2, 99): original C1 = {a[0]}, loaded C1 = {a[1]}',
      'OK' if a[0] == a[1] else 'VIOLATION (excel: 99)')
for m in (model, loaded):
    m.set_value('S!B1', 4)           # now A5 / A4, not in the saved cell map
b = (model.evaluate('S!C1'), model.evaluate('S!C2')), (loaded.evaluate('S!C1'), loaded.evaluate('S!C2'))
print(f'(b) after set_value(B1, 4): original (C1, C2) = {b[0]}, loaded (C1, C2) = {b[1]}',
      'OK' if b[0] == b[1] else 'VIOLATION')
