"""set_value(range, values, set_as_range=True) changes the range node only,
the cells keep their values and those are what is saved."""
import os, tempfile
from openpyxl import Workbook
from pycel import ExcelCompiler


def _tmpdir():
    import atexit, shutil, tempfile
    path = tempfile.mkdtemp(prefix='c03-baseline-')
    atexit.register(shutil.rmtree, path, True)
    return path

wb = Workbook(); ws = wb.active; ws.title = 'S'
ws['A1'] = 10; ws['A2'] = 20; ws['B1'] = '=SUM(A1:A2)'
model = ExcelCompiler(excel=wb)
model.evaluate('S!B1')
model.set_value('S!A1:A2', [[1], [2]], set_as_range=True)
expected = model.evaluate('S!B1')
tmp = _tmpdir()
for ext in ('yml', 'json', 'pkl'):
    name = os.path.join(tmp, 'm.' + ext)
    model.to_file(name)
    got = ExcelCompiler.from_file(name).evaluate('S!B1')
    print(f'{ext}: expected B1 = {expected}, loaded model returns {got}',
          'OK' if got == expected else 'VIOLATION')
