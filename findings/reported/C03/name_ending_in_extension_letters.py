"""The extension test is endswith('json') without the dot: to_file('budget_json')
writes json into 'budget_json', from_file('budget_json') looks for
'budget_json.json'."""
import os, tempfile
from openpyxl import Workbook
from pycel import ExcelCompiler


def _tmpdir():
    import atexit, shutil, tempfile
    path = tempfile.mkdtemp(prefix='c03-baseline-')
    atexit.register(shutil.rmtree, path, True)
    return path

wb = Workbook(); ws = wb.active; ws.title = 'S'
ws['A1'] = 1; ws['B1'] = '=A1+1'
model = ExcelCompiler(excel=wb)
expected = model.evaluate('S!B1')
tmp = _tmpdir()
for base in ('budget_json', 'family'):
    name = os.path.join(tmp, base)
    model.to_file(name)
    try:
        got = ExcelCompiler.from_file(name).evaluate('S!B1')
    except Exception as exc:
        got = f'from_file raised {type(exc).__name__}'
    print(f'{base}: files written {sorted(f for f in os.listdir(tmp) if f.startswith(base))}, '
          f'expected B1 = {expected}, got {got}', 'OK' if got == expected else 'VIOLATION')
