"""extra_data: json turns non text keys into text, every format turns tuples
into lists, and the user keys filename / cycles / excel_hash / cell_map are
overwritten or dropped."""
import os, tempfile
from openpyxl import Workbook
from pycel import ExcelCompiler


def _tmpdir():
    import atexit, shutil, tempfile
    path = tempfile.mkdtemp(prefix='c03-baseline-')
    atexit.register(shutil.rmtree, path, True)
    return path

tmp = _tmpdir()
for ext in ('yml', 'json', 'pkl'):
    wb = Workbook(); ws = wb.active; ws.title = 'S'
    ws['A1'] = 1; ws['B1'] = '=A1+1'
    model = ExcelCompiler(excel=wb)
    model.evaluate('S!B1')
    user = {1: 'one', 'shape': (2, 3), 'filename': 'mine.txt', 'cell_map': 'legend'}
    model.extra_data = dict(user)
    name = os.path.join(tmp, 'm.' + ext)
    model.to_file(name)
    got = ExcelCompiler.from_file(name).extra_data
    for key, value in user.items():
        back = got.get(key, '<missing>')
        if back != value or type(back) is not type(value):
            print(f'{ext}: extra_data[{key!r}] expected {value!r}, loaded model has {back!r}  VIOLATION')
