"""A text constant that starts with '=' is read back as compiled python code
(and executed), '=' alone comes back as blank."""
import logging, os, tempfile
from openpyxl import Workbook
from pycel import ExcelCompiler


def _tmpdir():
    import atexit, shutil, tempfile
    path = tempfile.mkdtemp(prefix='c03-baseline-')
    atexit.register(shutil.rmtree, path, True)
    return path

logging.getLogger('pycel').setLevel(logging.CRITICAL)
tmp = _tmpdir()
marker = os.path.join(tmp, 'executed')
for text in ('=1+1', '=', '=A1', f'=open({marker!r}, "w").close()'):
    wb = Workbook(); ws = wb.active; ws.title = 'S'
    ws['A1'] = 'x'; ws['B1'] = '=A1'
    model = ExcelCompiler(excel=wb)
    model.evaluate('S!B1')
    model.set_value('S!A1', text)
    expected = model.evaluate('S!A1'), model.evaluate('S!B1')
    for ext in ('yml', 'json', 'pkl'):
        name = os.path.join(tmp, 'm.' + ext)
        try:
            model.to_file(name)
            loaded = ExcelCompiler.from_file(name)
            got = loaded.evaluate('S!A1'), loaded.evaluate('S!B1')
        except Exception as exc:
            got = f'{type(exc).__name__}: {str(exc)[:60]!r}'
        print(f'{ext}: text {text[:20]!r}: expected {expected!r:.60}, got {got!r:.80}',
              'OK' if got == expected else 'VIOLATION')
print('code from a text cell was executed on load/evaluate:', os.path.exists(marker))
