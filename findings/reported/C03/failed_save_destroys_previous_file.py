"""The text file is opened for writing before the data is known to be
representable: a to_file() that raises leaves an empty (yml) or cut off (json)
file where the previous good model was."""
import os, tempfile
import numpy as np
from openpyxl import Workbook
from pycel import ExcelCompiler


def _tmpdir():
    import atexit, shutil, tempfile
    path = tempfile.mkdtemp(prefix='c03-baseline-')
    atexit.register(shutil.rmtree, path, True)
    return path

tmp = _tmpdir()
for ext in ('yml', 'json'):
    wb = Workbook(); ws = wb.active; ws.title = 'S'
    ws['A1'] = 1; ws['A2'] = 2; ws['B1'] = '=A1+A2'
    model = ExcelCompiler(excel=wb)
    model.evaluate('S!B1')
    name = os.path.join(tmp, 'm.' + ext)
    model.to_file(name)
    size = os.path.getsize(name)
    model.set_value('S!A2', np.int64(5))   # numpy integers can not be written
    try:
        model.to_file(name)
        outcome = 'saved'
    except Exception as exc:
        outcome = f'to_file raised {type(exc).__name__}'
    try:
        got = ExcelCompiler.from_file(name).evaluate('S!B1')
    except Exception as exc:
        got = f'from_file raised {type(exc).__name__}'
    print(f'{ext}: {outcome}; expected the file to hold the previous model (B1 = 3, {size} bytes)'
          f' or the new one (B1 = 6), file has {os.path.getsize(name)} bytes, loading gives: {got}',
          'OK' if got in (3, 6) else 'VIOLATION')
