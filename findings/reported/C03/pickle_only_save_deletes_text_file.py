"""to_file(name, file_types='pkl') writes its intermediate text to name.yml and
removes it afterwards - also when name.yml is a model file saved earlier."""
import os, tempfile
from openpyxl import Workbook
from pycel import ExcelCompiler


def _tmpdir():
    import atexit, shutil, tempfile
    path = tempfile.mkdtemp(prefix='c03-baseline-')
    atexit.register(shutil.rmtree, path, True)
    return path

wb = Workbook(); ws = wb.active; ws.title = 'S'
ws['A1'] = 1; ws['B1'] = '=A1+1'
model = ExcelCompiler(excel=wb)
model.evaluate('S!B1')
tmp = _tmpdir()
name = os.path.join(tmp, 'model')
model.to_file(name, file_types='yml')
before = sorted(os.listdir(tmp))
model.to_file(name, file_types='pkl')
after = sorted(os.listdir(tmp))
print(f'before the pkl save: {before}, expected afterwards [model.pkl, model.yml], found {after}',
      'OK' if 'model.yml' in after else 'VIOLATION')
try:
    ExcelCompiler.from_file(name + '.yml')
except Exception as exc:
    print(f'from_file(model.yml) raised {type(exc).__name__}')
