"""The text files are opened with the encoding of the locale: in a process
with a non UTF-8 locale a model with non ascii text can not be saved (and the
file is left empty)."""
import os, subprocess, sys, tempfile


def _tmpdir():
    import atexit, shutil, tempfile
    path = tempfile.mkdtemp(prefix='c03-baseline-')
    atexit.register(shutil.rmtree, path, True)
    return path

CHILD = '''
import os, sys
from openpyxl import Workbook
from pycel import ExcelCompiler

wb = Workbook(); ws = wb.active; ws.title = 'S'
ws['A1'] = 'caf\\u00e9'; ws['B1'] = '=A1&"!"'
model = ExcelCompiler(excel=wb)
expected = model.evaluate('S!B1')
for ext in ('yml', 'json'):
    name = os.path.join(sys.argv[1], 'm.' + ext)
    try:
        model.to_file(name)
        got = ExcelCompiler.from_file(name).evaluate('S!B1')
    except Exception as exc:
        got = 'raised ' + type(exc).__name__
    print(ext, 'expected', ascii(expected), 'got', ascii(got), 'OK' if got == expected else 'VIOLATION')
'''
tmp = _tmpdir()
for label, extra in (('utf-8 process', {'PYTHONUTF8': '1'}),
                     ('C locale process', {'LC_ALL': 'C', 'LANG': 'C', 'PYTHONUTF8': '0',
                                           'PYTHONCOERCECLOCALE': '0'})):
    env = dict(os.environ, **extra)
    out = subprocess.run([sys.executable, '-c', CHILD, tmp], env=env, capture_output=True, text=True)
    print(label + ':'); print('   ' + out.stdout.strip().replace('\n', '\n   '))
