"""A model whose plugin function sits in a cell that is part of a range can
not be loaded from yml/json (the ranges are evaluated while loading, before
from_file() hands over the plugins) and can not be saved as pkl at all."""
import logging, os, sys, tempfile
sys.path.insert(0, os.path.dirname(os.path.abspath(__file__)))
from openpyxl import Workbook
from pycel import ExcelCompiler


def _tmpdir():
    import atexit, shutil, tempfile
    path = tempfile.mkdtemp(prefix='c03-baseline-')
    atexit.register(shutil.rmtree, path, True)
    return path

logging.getLogger('pycel').setLevel(logging.CRITICAL)
plugins = ('c03_baseline_plugin', )
wb = Workbook(); ws = wb.active; ws.title = 'S'
ws['A1'] = 1; ws['A2'] = '=TRIPLE(A1)'; ws['B1'] = '=SUM(A1:A2)'
model = ExcelCompiler(excel=wb, plugins=plugins)
expected = model.evaluate('S!B1')
tmp = _tmpdir()
for ext in ('yml', 'json', 'pkl'):
    name = os.path.join(tmp, 'm.' + ext)
    try:
        model.to_file(name)
    except Exception as exc:
        print(f'{ext}: expected B1 = {expected}, to_file raised {type(exc).__name__}  VIOLATION')
        continue
    try:
        got = ExcelCompiler.from_file(name, plugins=plugins).evaluate('S!B1')
        print(f'{ext}: expected B1 = {expected}, loaded model returns {got}')
    except Exception as exc:
        print(f'{ext}: expected B1 = {expected}, from_file raised {type(exc).__name__}  VIOLATION')
