"""Only numpy.float64 constants are converted when saving, other numpy scalars
(set_value from numpy/pandas data) make to_file raise for every format."""
import os, tempfile
import numpy as np
from openpyxl import Workbook
from pycel import ExcelCompiler


def _tmpdir():
    import atexit, shutil, tempfile
    path = tempfile.mkdtemp(prefix='c03-baseline-')
    atexit.register(shutil.rmtree, path, True)
    return path

tmp = _tmpdir()
for value in (np.float64(2.5), np.int64(3), np.float32(1.5), np.bool_(True)):
    for ext in ('yml', 'json', 'pkl'):
        wb = Workbook(); ws = wb.active; ws.title = 'S'
        ws['A1'] = 1; ws['B1'] = '=A1*2'
        model = ExcelCompiler(excel=wb)
        model.evaluate('S!B1')
        model.set_value('S!A1', value)
        expected = model.evaluate('S!B1')
        name = os.path.join(tmp, 'm.' + ext)
        try:
            model.to_file(name)
            got = ExcelCompiler.from_file(name).evaluate('S!B1')
        except Exception as exc:
            got = f'raised {type(exc).__name__}'
        print(f'{ext}: A1 = {value!r}: expected B1 = {expected!r}, got {got!r}',
              'OK' if got == expected else 'VIOLATION')
