"""from_file(name) without extension takes the pickle first and does not look
at the digest that to_file wrote behind it: after a text only save (or a save
that died between writing the text and the pickle) it returns the old model."""
import os, tempfile
from openpyxl import Workbook
from pycel import ExcelCompiler


def _tmpdir():
    import atexit, shutil, tempfile
    path = tempfile.mkdtemp(prefix='c03-baseline-')
    atexit.register(shutil.rmtree, path, True)
    return path

wb = Workbook(); ws = wb.active; ws.title = 'S'
ws['A1'] = 1; ws['A2'] = 2; ws['B1'] = '=A1+A2'
model = ExcelCompiler(excel=wb)
model.evaluate('S!B1')
name = os.path.join(_tmpdir(), 'model')
model.to_file(name)                        # model.pkl + model.yml
model.set_value('S!A1', 100)
model.to_file(name, file_types='yml')      # the latest save
expected = model.evaluate('S!B1')
got = ExcelCompiler.from_file(name).evaluate('S!B1')
print(f'expected B1 = {expected} (the model saved last), from_file(name) returns {got}',
      'OK' if got == expected else 'VIOLATION')
