"""A cell and an array formula range that start at the same address (D1 and
D1:E3) have the same sort key, their order in the file follows the order in
which they were built: saving the loaded model does not reproduce the file."""
import os, tempfile
from openpyxl import Workbook
from openpyxl.worksheet.formula import ArrayFormula
from pycel import ExcelCompiler


def _tmpdir():
    import atexit, shutil, tempfile
    path = tempfile.mkdtemp(prefix='c03-baseline-')
    atexit.register(shutil.rmtree, path, True)
    return path

wb = Workbook(); ws = wb.active; ws.title = 'S'
for r in range(1, 4):
    ws.cell(row=r, column=1, value=r); ws.cell(row=r, column=2, value=r * 10)
ws['D1'] = ArrayFormula('D1:E3', '=A1:B3*2')
ws['G1'] = '=SUM(D1:E3)'
ws['G2'] = '=D1+E3'
model = ExcelCompiler(excel=wb)
model.evaluate('S!G1')
model.evaluate('S!G2')
tmp = _tmpdir()
for ext in ('yml', 'json'):
    first, second = (os.path.join(tmp, f'{n}.{ext}') for n in ('first', 'second'))
    model.to_file(first)
    ExcelCompiler.from_file(first).to_file(second)
    a, b = open(first).read(), open(second).read()
    print(f'{ext}: expected identical files, identical = {a == b}', 'OK' if a == b else 'VIOLATION')
    if a != b:
        for la, lb in zip(a.splitlines(), b.splitlines()):
            if la != lb:
                print('   first :', la.strip()); print('   second:', lb.strip())
