"""In an iterative model the results of the formula cells are the state of the
iteration, they are not saved: the loaded model starts from blank again."""
import os, tempfile
from openpyxl import Workbook
from openpyxl.workbook.properties import CalcProperties
from pycel import ExcelCompiler


def _tmpdir():
    import atexit, shutil, tempfile
    path = tempfile.mkdtemp(prefix='c03-baseline-')
    atexit.register(shutil.rmtree, path, True)
    return path

wb = Workbook(); ws = wb.active; ws.title = 'S'
ws['A1'] = 100; ws['A2'] = 0.1
ws['B1'] = '=A1-B2'; ws['B2'] = '=B1*A2'      # converging cycle
ws['B3'] = '=B3+1'                            # counter
wb.calculation = CalcProperties(iterate=True, iterateCount=50, iterateDelta=0.0001)
model = ExcelCompiler(excel=wb)
model.evaluate('S!B1'); model.evaluate('S!B3')
tmp = _tmpdir()
for ext in ('yml', 'json', 'pkl'):
    model.to_file(os.path.join(tmp, 'm.' + ext))
expected = model.evaluate('S!B3'), model.evaluate('S!B1')
for ext in ('yml', 'json', 'pkl'):
    loaded = ExcelCompiler.from_file(os.path.join(tmp, 'm.' + ext))
    got = loaded.evaluate('S!B3'), loaded.evaluate('S!B1')
    print(f'{ext}: expected (B3, B1) = {expected}, loaded model returns {got}',
          'OK' if got == expected else 'VIOLATION')
