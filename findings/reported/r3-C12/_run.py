"""helper for the reproducers: build a workbook file, run validate_calcs"""
import contextlib
import io
import logging
import os
import shutil
import sys
import tempfile

HERE = os.path.dirname(os.path.abspath(__file__))
sys.path.insert(0, HERE)
from mkxlsx import write_xlsx  # noqa: E402

from pycel import ExcelCompiler  # noqa: E402

logging.disable(logging.CRITICAL)
TMP_ROOT = os.path.join(HERE, '..', '..', 'tmp')


def validate(sheets, *calls, evaluate_first=None):
    """calls: (output_addrs, kwargs) for successive validate_calcs() calls on
    the same compiler, returns the list of reports"""
    if not isinstance(next(iter(sheets.values())), dict):
        sheets = {'Sheet1': sheets}
    os.makedirs(TMP_ROOT, exist_ok=True)
    tmp = tempfile.mkdtemp(dir=TMP_ROOT)
    try:
        path = write_xlsx(os.path.join(tmp, 'book.xlsx'), sheets)
        compiler = ExcelCompiler(filename=path)
        reports = []
        with contextlib.redirect_stdout(io.StringIO()):
            for outputs, kwargs in calls or ((None, {}), ):
                reports.append(compiler.validate_calcs(outputs, **kwargs))
        return reports
    finally:
        shutil.rmtree(tmp, ignore_errors=True)


def short(report):
    """report without the long tracebacks"""
    out = {}
    for kind, entries in report.items():
        if kind == 'mismatch':
            out[kind] = {k: tuple(v) for k, v in entries.items()}
        else:
            out[kind] = {k: [e[:2] for e in v] for k, v in entries.items()}
    return out
