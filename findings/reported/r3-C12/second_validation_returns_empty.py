"""validate_calcs replaces the stored results in the model by what it
calculated, so on the same compiler a second check no longer sees a wrong
stored result of the workbook file.

B1 =A1*2 stored 5 (wrong), C1 =B1+1 stored 5, D1 =B1+2 stored 6.
validate_calcs(['Sheet1!C1']) names B1.  validate_calcs(['Sheet1!D1']) on the
same compiler: B1 is reachable from D1 and its stored result in the file is
still wrong, but the report is {}.
"""
from _run import short, validate

sheet = {'A1': 2, 'B1': ('=A1*2', 5), 'C1': ('=B1+1', 5), 'D1': ('=B1+2', 6)}
first, second = validate(sheet, (['Sheet1!C1'], {}), (['Sheet1!D1'], {}))
print("1st call expected: mismatch 'Sheet1!B1' (5, 4) [+ C1]")
print('         pycel   :', short(first))
print("2nd call expected: mismatch 'Sheet1!B1' (5, 4)")
print('         pycel   :', short(second))
print('PROPERTY HOLDS' if 'Sheet1!B1' in second.get('mismatch', {})
      else 'PROPERTY VIOLATED')
