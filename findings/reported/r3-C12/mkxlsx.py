"""Write a minimal xlsx by hand, with stored results for formula cells.

sheets: {sheet_name: {coordinate: spec}}  where spec is one of
   value                      (number / str / bool constant)
   ('=FORMULA', stored)       formula with stored result (number/str/bool,
                              '#DIV/0!'-like error text, or None for none)
   ('=FORMULA', stored, ref)  first cell of an array (CSE) formula entered in
                              the range ref, the other cells of ref are given
                              as (None, stored): a stored result only
"""
import zipfile
from xml.sax.saxutils import escape

ERRORS = {'#NULL!', '#DIV/0!', '#VALUE!', '#REF!', '#NAME?', '#NUM!', '#N/A'}


def _col_row(coord):
    col = ''.join(c for c in coord if c.isalpha())
    row = int(''.join(c for c in coord if c.isdigit()))
    n = 0
    for c in col:
        n = n * 26 + ord(c.upper()) - 64
    return row, n


def _value_xml(value):
    if value is None:
        return '', ''
    if isinstance(value, bool):
        return ' t="b"', f'<v>{int(value)}</v>'
    if isinstance(value, (int, float)):
        return '', f'<v>{value!r}</v>'
    if value in ERRORS:
        return ' t="e"', f'<v>{escape(value)}</v>'
    return ' t="str"', f'<v>{escape(value)}</v>'


def _cell_xml(coord, spec):
    if isinstance(spec, tuple):
        formula, stored, *ref = spec
        t, v = _value_xml(stored)
        if formula is None:
            return f'<c r="{coord}"{t}>{v}</c>'
        attrs = f' t="array" ref="{ref[0]}"' if ref else ''
        formula = escape(formula.lstrip('='))
        return f'<c r="{coord}"{t}><f{attrs}>{formula}</f>{v}</c>'
    if isinstance(spec, str):
        return (f'<c r="{coord}" t="inlineStr"><is><t>{escape(spec)}</t></is>'
                f'</c>')
    t, v = _value_xml(spec)
    return f'<c r="{coord}"{t}>{v}</c>'


def write_xlsx(path, sheets, iterate=False):
    names = list(sheets)
    with zipfile.ZipFile(path, 'w', zipfile.ZIP_DEFLATED) as z:
        z.writestr('[Content_Types].xml', (
            '<?xml version="1.0" encoding="UTF-8" standalone="yes"?>'
            '<Types xmlns="http://schemas.openxmlformats.org/package/2006/'
            'content-types">'
            '<Default Extension="rels" ContentType="application/vnd.'
            'openxmlformats-package.relationships+xml"/>'
            '<Default Extension="xml" ContentType="application/xml"/>'
            '<Override PartName="/xl/workbook.xml" ContentType="application/'
            'vnd.openxmlformats-officedocument.spreadsheetml.sheet.main+xml"/>'
            + ''.join(
                f'<Override PartName="/xl/worksheets/sheet{i}.xml" '
                'ContentType="application/vnd.openxmlformats-officedocument.'
                'spreadsheetml.worksheet+xml"/>'
                for i in range(1, len(names) + 1)) + '</Types>'))
        z.writestr('_rels/.rels', (
            '<?xml version="1.0" encoding="UTF-8" standalone="yes"?>'
            '<Relationships xmlns="http://schemas.openxmlformats.org/package/'
            '2006/relationships"><Relationship Id="rId1" Type="http://schemas.'
            'openxmlformats.org/officeDocument/2006/relationships/'
            'officeDocument" Target="xl/workbook.xml"/></Relationships>'))
        calc = ('<calcPr calcId="1" iterate="1" iterateCount="100" '
                'iterateDelta="0.001"/>' if iterate else '<calcPr calcId="1"/>')
        z.writestr('xl/workbook.xml', (
            '<?xml version="1.0" encoding="UTF-8" standalone="yes"?>'
            '<workbook xmlns="http://schemas.openxmlformats.org/spreadsheetml/'
            '2006/main" xmlns:r="http://schemas.openxmlformats.org/'
            'officeDocument/2006/relationships"><sheets>' + ''.join(
                f'<sheet name="{escape(n)}" sheetId="{i}" r:id="rId{i}"/>'
                for i, n in enumerate(names, 1)) + f'</sheets>{calc}</workbook>'))
        z.writestr('xl/_rels/workbook.xml.rels', (
            '<?xml version="1.0" encoding="UTF-8" standalone="yes"?>'
            '<Relationships xmlns="http://schemas.openxmlformats.org/package/'
            '2006/relationships">' + ''.join(
                f'<Relationship Id="rId{i}" Type="http://schemas.'
                'openxmlformats.org/officeDocument/2006/relationships/'
                f'worksheet" Target="worksheets/sheet{i}.xml"/>'
                for i in range(1, len(names) + 1)) + '</Relationships>'))
        for i, name in enumerate(names, 1):
            rows = {}
            for coord, spec in sheets[name].items():
                row, col = _col_row(coord)
                rows.setdefault(row, []).append((col, coord, spec))
            body = ''.join(
                f'<row r="{r}">' + ''.join(
                    _cell_xml(coord, spec) for _, coord, spec in sorted(
                        cells, key=lambda c: c[0])) + '</row>'
                for r, cells in sorted(rows.items()))
            z.writestr(f'xl/worksheets/sheet{i}.xml', (
                '<?xml version="1.0" encoding="UTF-8" standalone="yes"?>'
                '<worksheet xmlns="http://schemas.openxmlformats.org/'
                f'spreadsheetml/2006/main"><sheetData>{body}</sheetData>'
                '</worksheet>'))
    return path
