"""A wrong stored result reached through INDIRECT()/OFFSET() is not named.

B1 =A1*2 (stored 5 instead of 4), C1 =INDIRECT("B1") resp. =OFFSET(A1,0,1)
stored 4.  B1 is reachable from the checked output C1 and it is the altered
cell, so the report has to name B1 (and may name C1, which depends on it).
pycel names only C1 - the correct cell - because the cells a formula reaches at
run time are not in needed_addresses and so are never queued.
"""
from _run import short, validate

ok = True
for formula in ('=INDIRECT("B1")', '=OFFSET(A1,0,1)'):
    report, = validate({'A1': 2, 'B1': ('=A1*2', 5), 'C1': (formula, 4)},
                       (['Sheet1!C1'], {}))
    print(f"C1 {formula}: expected mismatch 'Sheet1!B1' (5, 4) [+ C1]")
    print('   pycel   :', short(report))
    ok = ok and 'Sheet1!B1' in report.get('mismatch', {})
print('PROPERTY HOLDS' if ok else 'PROPERTY VIOLATED')
