"""Altered stored results which the comparison does not see.

 a) a text result altered to the empty text: openpyxl reads an empty <v/> as
    None, which validate_calcs takes for 'no stored result'
 b) a logical result TRUE altered to the number 1 (and 1 altered to TRUE):
    bool is a Number and True == 1
 c) with tolerance=1 a result altered by 1.000005: close_enough() accepts
    differences below (1 + 1e-5) * tolerance
"""
from _run import short, validate

ok = True
for label, sheet, kwargs in (
        ('a) B1 =A1&"x" is "2x", stored ""',
         {'A1': 2, 'B1': ('=A1&"x"', '')}, {}),
        ('b) B1 =A1>1 is TRUE, stored 1',
         {'A1': 2, 'B1': ('=A1>1', 1)}, {}),
        ('b) B1 =A1-1 is 1, stored TRUE',
         {'A1': 2, 'B1': ('=A1-1', True)}, {}),
        ('c) B1 =A1*2 is 4, stored 5.000005, tolerance=1',
         {'A1': 2, 'B1': ('=A1*2', 5.000005)}, dict(tolerance=1)),
):
    report, = validate(sheet, (None, kwargs))
    print(f"{label}, expected: mismatch 'Sheet1!B1'")
    print('   pycel   :', short(report))
    ok = ok and 'Sheet1!B1' in report.get('mismatch', {})
print('PROPERTY HOLDS' if ok else 'PROPERTY VIOLATED')
