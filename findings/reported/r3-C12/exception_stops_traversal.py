"""validate_calcs does not follow the precedents of a cell it cannot evaluate.

C1 =FOOBAR(B1) cannot be evaluated (unknown function).  B1 =A1*2 is reachable
from the checked output C1.
 a) stored result of B1 altered (5 instead of 4): the report has to name B1
 b) B1 =FOOBAR2(A1) cannot be evaluated either: it has to be reported too
In both cases only C1 is in the report: the exception handler is entered before
the precedents are queued, so everything behind C1 is silently skipped.
"""
from _run import short, validate

a, = validate({'A1': 2, 'B1': ('=A1*2', 5), 'C1': ('=FOOBAR(B1)', 4)},
              (['Sheet1!C1'], {}))
print("a) expected: C1 under not-implemented AND mismatch 'Sheet1!B1' (5, 4)")
print('   pycel   :', short(a))

b, = validate({'A1': 2, 'B1': ('=FOOBAR2(A1)', 4), 'C1': ('=FOOBAR(B1)', 4)},
              (['Sheet1!C1'], {}))
print('b) expected: C1 and B1 under not-implemented')
print('   pycel   :', short(b))

ok = ('Sheet1!B1' in a.get('mismatch', {}) and
      'FOOBAR2' in b.get('not-implemented', {}))
print('PROPERTY HOLDS' if ok else 'PROPERTY VIOLATED')
