"""=SUM(OFFSET(A1,0,0,3,1)) over 1,2,3 is 6 in Excel, pycel calculates 0 (the
same for SUM(INDIRECT("A1:A3")) and MAX(OFFSET(..))): a consistent workbook is
reported.  (A function gap which shows through the first clause of C12.)
"""
from _run import short, validate

ok = True
for formula, stored in (('=SUM(OFFSET(A1,0,0,3,1))', 6),
                        ('=SUM(INDIRECT("A1:A3"))', 6),
                        ('=MAX(OFFSET(A1,0,0,2,1))', 2)):
    report, = validate({'A1': 1, 'A2': 2, 'A3': 3, 'B1': (formula, stored)})
    print(f'B1 {formula} stored {stored}, expected: {{}}')
    print('   pycel   :', short(report))
    ok = ok and report == {}
print('PROPERTY HOLDS' if ok else 'PROPERTY VIOLATED')
