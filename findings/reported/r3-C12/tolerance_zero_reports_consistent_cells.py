"""validate_calcs(tolerance=0) reports every numeric cell of a consistent
workbook: close_enough() tests abs(difference) < (1 + rel) * 0, never true.
"""
from _run import short, validate

report, = validate({'A1': 2, 'B1': ('=A1*2', 4), 'C1': ('=B1+1', 5)},
                   (None, dict(tolerance=0)))
print('expected: {} (stored results are exactly what the formulas produce)')
print('pycel   :', short(report))
print('PROPERTY HOLDS' if report == {} else 'PROPERTY VIOLATED')
