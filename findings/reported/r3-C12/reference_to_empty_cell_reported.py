"""A formula whose result is a reference to an empty cell: Excel shows and
stores 0, pycel's recomputed value is None, so a consistent workbook is
reported (the mismatch is 0 -> None).  =A2, =INDEX(A1:A3,2), =IF(TRUE,A2) do
give 0, the OFFSET()/INDIRECT() forms do not.
"""
from _run import short, validate

ok = True
for formula in ('=OFFSET(A1,1,0)', '=INDIRECT("A2")'):
    report, = validate({'A1': 2, 'A3': 3, 'C1': (formula, 0)})
    print(f'C1 {formula} (A2 is empty, stored result 0), expected: {{}}')
    print('   pycel   :', short(report))
    ok = ok and report == {}
print('PROPERTY HOLDS' if ok else 'PROPERTY VIOLATED')
