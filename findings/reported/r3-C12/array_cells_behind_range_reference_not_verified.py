"""Cells of an array (CSE) formula reached through a reference to the whole
array are never verified.

A2:C2 {=A1:C1*2} results 2 4 6, stored result of A2 altered to 3.
D2 =SUM(A2:C2) stored 12 is the checked output, A2 is reachable from it.
The range A2:C2 is the array, its needed_addresses are the precedents of the
array formula (A1:C1), not its own cells, so A2, B2, C2 are never queued.
"""
from _run import short, validate

sheet = {
    'A1': 1, 'B1': 2, 'C1': 3,
    'A2': ('=A1:C1*2', 3, 'A2:C2'), 'B2': (None, 4), 'C2': (None, 6),
    'D2': ('=SUM(A2:C2)', 12),
}
report, = validate(sheet, (['Sheet1!D2'], {}))
print("expected: mismatch 'Sheet1!A2' (3, 2)")
print('pycel   :', short(report))
print('PROPERTY HOLDS' if 'Sheet1!A2' in report.get('mismatch', {})
      else 'PROPERTY VIOLATED')
