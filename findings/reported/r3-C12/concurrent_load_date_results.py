"""Two threads each compile their own workbook file at the same time.

ExcelOpxWrapper.load() switches openpyxl's date conversion off with a process
wide mock.patch around its two load_workbook() calls.  When thread A leaves its
patch while thread B is still loading, B reads the stored results of its date
formatted formula cells as datetime objects, and validate_calcs reports these
cells of a consistent workbook (datetime -> number).

The schedule is forced by wrapping pycel.excelwrapper.load_workbook:
  A enters load(), B enters load(), A finishes load(), B loads its workbook.

B1 =A1+1 with A1 = 45000, both cells date formatted, stored result 45001.
"""
import contextlib
import io
import logging
import os
import shutil
import sys
import tempfile
import threading
import warnings
import zipfile

HERE = os.path.dirname(os.path.abspath(__file__))
sys.path.insert(0, HERE)

import pycel.excelwrapper as excelwrapper  # noqa: E402
from pycel import ExcelCompiler  # noqa: E402

logging.disable(logging.CRITICAL)
warnings.simplefilter('ignore')
TMP_ROOT = os.path.join(HERE, '..', '..', 'tmp')
NS = 'http://schemas.openxmlformats.org/spreadsheetml/2006/main'
PKG = 'http://schemas.openxmlformats.org/package/2006'
DOC = 'http://schemas.openxmlformats.org/officeDocument/2006/relationships'
CT = 'application/vnd.openxmlformats-officedocument.spreadsheetml'


def write_book(path):
    with zipfile.ZipFile(path, 'w') as z:
        z.writestr('[Content_Types].xml', (
            f'<Types xmlns="{PKG}/content-types">'
            '<Default Extension="rels" ContentType="application/vnd.'
            'openxmlformats-package.relationships+xml"/>'
            '<Default Extension="xml" ContentType="application/xml"/>'
            f'<Override PartName="/xl/workbook.xml" ContentType="{CT}.sheet.'
            'main+xml"/><Override PartName="/xl/worksheets/sheet1.xml" '
            f'ContentType="{CT}.worksheet+xml"/><Override PartName="/xl/'
            f'styles.xml" ContentType="{CT}.styles+xml"/></Types>'))
        z.writestr('_rels/.rels', (
            f'<Relationships xmlns="{PKG}/relationships"><Relationship '
            f'Id="rId1" Type="{DOC}/officeDocument" Target="xl/workbook.xml"/>'
            '</Relationships>'))
        z.writestr('xl/workbook.xml', (
            f'<workbook xmlns="{NS}" xmlns:r="{DOC}"><sheets><sheet '
            'name="Sheet1" sheetId="1" r:id="rId1"/></sheets>'
            '<calcPr calcId="1"/></workbook>'))
        z.writestr('xl/_rels/workbook.xml.rels', (
            f'<Relationships xmlns="{PKG}/relationships">'
            f'<Relationship Id="rId1" Type="{DOC}/worksheet" '
            'Target="worksheets/sheet1.xml"/>'
            f'<Relationship Id="rId2" Type="{DOC}/styles" '
            'Target="styles.xml"/></Relationships>'))
        z.writestr('xl/styles.xml', (
            f'<styleSheet xmlns="{NS}"><fonts count="1"><font/></fonts>'
            '<fills count="1"><fill><patternFill patternType="none"/></fill></fills><borders count="1"><border/>'
            '</borders><cellStyleXfs count="1"><xf/></cellStyleXfs>'
            '<cellXfs count="2"><xf numFmtId="0" fontId="0" fillId="0" '
            'borderId="0" xfId="0"/><xf numFmtId="14" fontId="0" fillId="0" '
            'borderId="0" xfId="0" applyNumberFormat="1"/></cellXfs>'
            '</styleSheet>'))
        z.writestr('xl/worksheets/sheet1.xml', (
            f'<worksheet xmlns="{NS}"><sheetData><row r="1">'
            '<c r="A1" s="1"><v>45000</v></c>'
            '<c r="B1" s="1"><f>A1+1</f><v>45001</v></c>'
            '</row></sheetData></worksheet>'))
    return path


def validate(compiler):
    with contextlib.redirect_stdout(io.StringIO()):
        return compiler.validate_calcs()


def main():
    os.makedirs(TMP_ROOT, exist_ok=True)
    tmp = tempfile.mkdtemp(dir=TMP_ROOT)
    try:
        path_a = write_book(os.path.join(tmp, 'a.xlsx'))
        path_b = write_book(os.path.join(tmp, 'b.xlsx'))

        alone = validate(ExcelCompiler(filename=path_a))
        print('one thread    expected: {}   pycel:', alone)

        a_in_load, b_in_load, a_done = (threading.Event() for _ in range(3))
        real_load_workbook = excelwrapper.load_workbook
        calls = {'a': 0, 'b': 0}

        def load_workbook(filename, *args, **kwargs):
            who = 'a' if filename.endswith('a.xlsx') else 'b'
            calls[who] += 1
            if calls[who] == 1:
                if who == 'a':
                    a_in_load.set()
                    b_in_load.wait(30)
                else:
                    b_in_load.set()
                    a_done.wait(30)
            return real_load_workbook(filename, *args, **kwargs)

        compilers = {}

        def thread_a():
            compilers['a'] = ExcelCompiler(filename=path_a)
            a_done.set()

        def thread_b():
            a_in_load.wait(30)
            compilers['b'] = ExcelCompiler(filename=path_b)

        excelwrapper.load_workbook = load_workbook
        try:
            threads = [threading.Thread(target=t) for t in (thread_a, thread_b)]
            for t in threads:
                t.start()
            for t in threads:
                t.join(60)
        finally:
            excelwrapper.load_workbook = real_load_workbook

        report_a = validate(compilers['a'])
        report_b = validate(compilers['b'])
        print('thread A      expected: {}   pycel:', report_a)
        print('thread B      expected: {}   pycel:', report_b)
        ok = alone == report_a == report_b == {}
        print('PROPERTY HOLDS' if ok else 'PROPERTY VIOLATED')
    finally:
        shutil.rmtree(tmp, ignore_errors=True)


if __name__ == '__main__':
    main()
