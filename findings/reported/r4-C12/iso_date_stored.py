"""A stored result written as an ISO 8601 date cell (t="d", strict OOXML) is
read as a datetime, the consistent workbook gets a mismatch"""
from _xlsx import validate

rows = ['<row r="1"><c r="A1"><v>43831</v></c>'
        '<c r="B1" t="d"><f>A1</f><v>2020-01-01T00:00:00</v></c></row>']
print('A1 = 43831 (2020-01-01), B1 = A1 stored as <c t="d"><v>2020-01-01T00:00:00</v>')
print('expected: {}')
print('pycel   :', validate(rows))
