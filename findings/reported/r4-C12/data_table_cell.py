"""The cells of a what-if data table (<f t="dataTable" .../>) are formula cells
pycel cannot evaluate, they are taken for constants: not compared, not named
under exceptions / not-implemented"""
from _xlsx import validate

rows = ['<row r="1"><c r="A1"><v>2</v></c><c r="B1"><f>A1+1</f><v>3</v></c></row>',
        '<row r="2"><c r="A2"><v>5</v></c>'
        '<c r="B2"><f t="dataTable" ref="B2:B3" dt2D="0" dtr="0" r1="A1"/><v>600</v></c>'
        '<c r="C2"><f>B2*2</f><v>1200</v></c></row>',
        '<row r="3"><c r="A3"><v>6</v></c><c r="B3"><v>7</v></c></row>']
print('B2:B3 is a data table over B1 with row input A1 (B2 should be 6, '
      'stored 600), C2 = B2*2')
print('expected: Sheet1!B2 named, as a mismatch or as a cell that cannot be evaluated')
print('pycel   :', validate(rows))
