"""helper for the reproducers: hand written xlsx with stored formula results"""
import contextlib
import io
import os
import shutil
import tempfile
import zipfile

_CT = '''<?xml version="1.0" encoding="UTF-8" standalone="yes"?>
<Types xmlns="http://schemas.openxmlformats.org/package/2006/content-types">
<Default Extension="rels" ContentType="application/vnd.openxmlformats-package.relationships+xml"/>
<Default Extension="xml" ContentType="application/xml"/>
<Override PartName="/xl/workbook.xml" ContentType="application/vnd.openxmlformats-officedocument.spreadsheetml.sheet.main+xml"/>
<Override PartName="/xl/worksheets/sheet1.xml" ContentType="application/vnd.openxmlformats-officedocument.spreadsheetml.worksheet+xml"/>
</Types>'''
_RELS = '''<?xml version="1.0" encoding="UTF-8" standalone="yes"?>
<Relationships xmlns="http://schemas.openxmlformats.org/package/2006/relationships">
<Relationship Id="rId1" Type="http://schemas.openxmlformats.org/officeDocument/2006/relationships/officeDocument" Target="xl/workbook.xml"/>
</Relationships>'''
_WB = '''<?xml version="1.0" encoding="UTF-8" standalone="yes"?>
<workbook xmlns="http://schemas.openxmlformats.org/spreadsheetml/2006/main" xmlns:r="http://schemas.openxmlformats.org/officeDocument/2006/relationships">
<sheets><sheet name="Sheet1" sheetId="1" r:id="rId1"/></sheets><calcPr calcId="1"/>
</workbook>'''
_WBRELS = '''<?xml version="1.0" encoding="UTF-8" standalone="yes"?>
<Relationships xmlns="http://schemas.openxmlformats.org/package/2006/relationships">
<Relationship Id="rId1" Type="http://schemas.openxmlformats.org/officeDocument/2006/relationships/worksheet" Target="worksheets/sheet1.xml"/>
</Relationships>'''
_SHEET = '''<?xml version="1.0" encoding="UTF-8" standalone="yes"?>
<worksheet xmlns="http://schemas.openxmlformats.org/spreadsheetml/2006/main"><sheetData>
%s
</sheetData></worksheet>'''


def validate(rows, output_addrs=None, **kwargs):
    """write Sheet1 from the '<row ..>' strings, return validate_calcs()"""
    from pycel import ExcelCompiler

    here = os.path.dirname(os.path.abspath(__file__))
    base = os.path.normpath(os.path.join(here, '..', '..', 'tmp'))
    os.makedirs(base, exist_ok=True)
    tmp = tempfile.mkdtemp(dir=base)
    try:
        path = os.path.join(tmp, 'book.xlsx')
        with zipfile.ZipFile(path, 'w') as z:
            z.writestr('[Content_Types].xml', _CT)
            z.writestr('_rels/.rels', _RELS)
            z.writestr('xl/workbook.xml', _WB)
            z.writestr('xl/_rels/workbook.xml.rels', _WBRELS)
            z.writestr('xl/worksheets/sheet1.xml', _SHEET % '\n'.join(rows))
        compiler = ExcelCompiler(filename=path)
        with contextlib.redirect_stdout(io.StringIO()):
            return compiler.validate_calcs(output_addrs, **kwargs)
    finally:
        shutil.rmtree(tmp, ignore_errors=True)
