"""tolerance=0 (or a negative one): every numeric formula cell of a consistent
workbook is reported as a mismatch (abs(diff) < (1 + rel) * 0 is never true)"""
from _xlsx import validate

rows = ['<row r="1"><c r="A1"><v>2</v></c><c r="B1"><f>A1+1</f><v>3</v></c>'
        '<c r="C1"><f>B1*2</f><v>6</v></c></row>']
print('consistent workbook, validate_calcs(tolerance=0)')
print('expected: {}')
print('pycel   :', validate(rows, tolerance=0))
