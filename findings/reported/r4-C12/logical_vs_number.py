"""A stored logical result altered to the number 1 / 0 (or the other way
round) is not reported: close_enough() takes bool for a Number"""
from _xlsx import validate

rows = ['<row r="1"><c r="A1"><v>2</v></c>'
        '<c r="B1"><f>A1&gt;1</f><v>1</v></c>'           # TRUE stored as number 1
        '<c r="C1" t="b"><f>A1-2</f><v>0</v></c>'        # 0 stored as FALSE
        '<c r="D1" t="b"><f>A1-0.99999</f><v>1</v></c>'  # 1.00001 stored as TRUE
        '</row>']
print('B1 = A1>1 stored as number 1, C1 = A1-2 stored as FALSE, '
      'D1 = A1-0.99999 stored as TRUE')
print('expected: mismatches for B1 (1 -> True), C1 (False -> 0), D1 (True -> 1.00001)')
print('pycel   :', validate(rows))
