"""A stored text result that reads like the formula of the cell is taken for
'no stored data': the cell is silently not compared (and, because of the
'continue', the walk to its precedents stops there as well)"""
from _xlsx import validate

rows = ['<row r="1"><c r="A1"><v>2</v></c>'
        '<c r="B1"><f>A1+1</f><v>3</v></c>'
        '<c r="C1" t="str"><f>B1&amp;""</f><v>=B1&amp;""</v></c></row>']
print('C1 = B1&"" has the stored text \'=B1&""\' (should be "3")')
print("expected: mismatch for Sheet1!C1 ('=B1&\"\"' -> '3')")
print('pycel   :', validate(rows))
