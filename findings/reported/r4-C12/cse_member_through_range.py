"""The cells of a CSE array formula which an output reads through a range
reference are never compared: the walk goes from C1 to the array B1:B3 and
from there to what the array formula needs (A1:A3), not to B1, B2, B3"""
from _xlsx import validate

rows = ['<row r="1"><c r="A1"><v>1</v></c><c r="B1"><f t="array" ref="B1:B3">A1:A3*2</f><v>2</v></c>'
        '<c r="C1"><f>SUM(B1:B3)</f><v>12</v></c></row>',
        '<row r="2"><c r="A2"><v>2</v></c><c r="B2"><v>5</v></c></row>',
        '<row r="3"><c r="A3"><v>3</v></c><c r="B3"><v>6</v></c></row>']
print('{=A1:A3*2} in B1:B3, stored result of B2 is 5 (should be 4), '
      'output C1 = SUM(B1:B3)')
print('expected: mismatch for Sheet1!B2 (5 -> 4)')
print('pycel   :', validate(rows, ['Sheet1!C1']))
print('all formula cells as outputs:', validate(rows))
