"""An output address without a sheet (evaluate() takes it for the active
sheet) is reported as a KeyError on a consistent workbook, and the wrong
stored result behind it is not found"""
from _xlsx import validate

good = ['<row r="1"><c r="A1"><v>2</v></c><c r="B1"><f>A1+1</f><v>3</v></c></row>']
bad = ['<row r="1"><c r="A1"><v>2</v></c><c r="B1"><f>A1+1</f><v>4</v></c></row>']
print("consistent workbook, validate_calcs('B1')")
print('expected: {}')
print('pycel   :', validate(good, 'B1'))
print("B1 stored as 4, validate_calcs('B1')")
print('expected: mismatch for B1 (4 -> 3)')
print('pycel   :', validate(bad, 'B1'))
