"""Two CSE arrays side by side, the text of the first formula is the start of
the text of the second (A1:A3*2 and A1:A3*20): a range over both is taken for
ONE array with the first formula, the consistent workbook gets a mismatch"""
from _xlsx import validate

rows = ['<row r="1"><c r="A1"><v>1</v></c>'
        '<c r="B1"><f t="array" ref="B1:B3">A1:A3*2</f><v>2</v></c>'
        '<c r="C1"><f t="array" ref="C1:C3">A1:A3*20</f><v>20</v></c>'
        '<c r="D1"><f>SUM(B1:C3)</f><v>132</v></c></row>',
        '<row r="2"><c r="A2"><v>2</v></c><c r="B2"><v>4</v></c><c r="C2"><v>40</v></c></row>',
        '<row r="3"><c r="A3"><v>3</v></c><c r="B3"><v>6</v></c><c r="C3"><v>60</v></c></row>']
print('{=A1:A3*2} in B1:B3, {=A1:A3*20} in C1:C3, D1 = SUM(B1:C3) = 132')
print('expected: {}')
print('pycel   :', validate(rows))
