"""validate_calcs(sheet=...) with a sheet name that is not in the workbook (or
written in another case) verifies nothing and returns the empty report"""
from _xlsx import validate

bad = ['<row r="1"><c r="A1"><v>2</v></c><c r="B1"><f>A1+1</f><v>99</v></c></row>']
print("B1 = A1+1 stored as 99, validate_calcs(sheet='sheet1') (the sheet is 'Sheet1')")
print('expected: mismatch for Sheet1!B1, or an error for the unknown sheet')
print('pycel   :', validate(bad, sheet='sheet1'))
