"""A stored text result altered to the empty string is read as 'no stored
result' (openpyxl gives None for <v></v>), the cell is silently not compared"""
from _xlsx import validate

rows = ['<row r="1"><c r="A1"><v>2</v></c>'
        '<c r="B1" t="str"><f>"abc"</f><v></v></c>'
        '<c r="C1" t="str"><f>B1&amp;"d"</f><v>abcd</v></c></row>']
print('B1 = "abc" with the stored result "" ')
print("expected: mismatch for Sheet1!B1 ('' -> 'abc')")
print('pycel   :', validate(rows))
