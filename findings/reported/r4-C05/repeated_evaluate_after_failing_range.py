"""Baseline defect (C05, repeating evaluate): exception, exception, value.

B1 is =ROW(A1:A3)+10, it needs the reference only.  The range is calculated
anyway when it is compiled and again once B1 has its value, and A3 can not be
calculated (unknown function).  The second failure comes after B1 was given
its value, so the third evaluate('S!B1') returns 11.

expected: every evaluate('S!B1') does the same (11, or the same exception)
"""
import logging

import openpyxl

from pycel import ExcelCompiler

logging.disable(logging.CRITICAL)

wb = openpyxl.Workbook()
ws = wb.active
ws.title = 'S'
ws['A1'], ws['A2'], ws['A3'] = 1, 2, '=FOOBAR(1)'
ws['B1'] = '=ROW(A1:A3)+10'

model = ExcelCompiler(excel=wb)
for attempt in (1, 2, 3, 4):
    try:
        print(f'evaluate #{attempt}:', model.evaluate('S!B1'))
    except Exception as exc:
        print(f'evaluate #{attempt}: raises', type(exc).__name__)
