"""Baseline defect (C05): A:A / 1:1 without a sheet name.

A sheet-less address is completed with the active sheet, but
AddressRange(address, sheet=...) rebuilds an unbounded range from the
coordinates of its corners ('A', '1'), which are not valid addresses.

expected: evaluate('A:A') == evaluate('S!A:A') == (1, 2, 3) with S active
"""
import logging

import openpyxl

from pycel import ExcelCompiler
from pycel.excelutil import AddressRange

logging.disable(logging.CRITICAL)

wb = openpyxl.Workbook()
ws = wb.active
ws.title = 'S'
for row in (1, 2, 3):
    ws.cell(row, 1, row)
    ws.cell(row, 2, row * 10)

model = ExcelCompiler(excel=wb)
print('S!A:A :', model.evaluate('S!A:A'))
print('A1:A3 :', model.evaluate('A1:A3'))
for address in ('A:A', '1:1', AddressRange('A:B')):
    try:
        print(f'{str(address):6}:', model.evaluate(address))
    except Exception as exc:
        print(f'{str(address):6}: raises {type(exc).__name__}: {exc}')
