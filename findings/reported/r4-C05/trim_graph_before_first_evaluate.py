"""Baseline defect (marginal to C05): trim_graph() before anything was calculated.

trim_graph() turns the formulas that do not depend on the inputs into
constants, with the value they have at that moment.  In a model built from an
openpyxl workbook (no stored results) a formula that was never evaluated has
no value: it is frozen as a blank.  The value of B1 then depends on whether
evaluate() came before or after trim_graph().

expected: B1 == 1 + 2*3 == 7 in both orders
"""
import logging

import openpyxl

from pycel import ExcelCompiler

logging.disable(logging.CRITICAL)


def workbook():
    wb = openpyxl.Workbook()
    ws = wb.active
    ws.title = 'S'
    ws['A1'] = 1
    ws['C1'] = '=2*3'
    ws['B1'] = '=A1+C1'
    return wb


model = ExcelCompiler(excel=workbook())
model.evaluate('S!B1')
model.trim_graph(['S!A1'], ['S!B1'])
print('evaluate, trim, evaluate :', model.evaluate('S!B1'), model.evaluate('S!C1'))

model = ExcelCompiler(excel=workbook())
model.trim_graph(['S!A1'], ['S!B1'])
print('trim, evaluate           :', model.evaluate('S!B1'), model.evaluate('S!C1'),
      ' expected 7 6')
