"""Baseline defect (marginal to C05): CELL("contents", <reference>) and a second model.

cell() (and index() for an array of references) take the function to read a
cell from `excel_func_meta['name_space']`, which belongs to the lib function
and not to the model: it is the name space of the formula that was loaded last,
in whatever ExcelCompiler.  Once another model has loaded a CELL() formula, the
first model reads the cells of that other workbook.

expected: after set_value('S!A1', 99) in model one, its B1 is 99
"""
import logging

import openpyxl

from pycel import ExcelCompiler

logging.disable(logging.CRITICAL)


def workbook(value):
    wb = openpyxl.Workbook()
    ws = wb.active
    ws.title = 'S'
    ws['A1'] = value
    ws['B1'] = '=CELL("contents",OFFSET(A1,0,0))'
    return wb


one = ExcelCompiler(excel=workbook(10))
two = ExcelCompiler(excel=workbook(20))
print('one B1:', one.evaluate('S!B1'))
print('two B1:', two.evaluate('S!B1'))
one.set_value('S!A1', 99)
print('one A1:', one.evaluate('S!A1'))
print('one B1:', one.evaluate('S!B1'), ' expected 99')
