"""Baseline defect (C05): two array formulas with the same text, one below the other.

_OpxRange takes a requested range for ONE array formula when it starts at the
top left of an array formula and every cell of it holds an array formula with
the same text.  A1:A2 and A3:A4 both hold {=$C$1:$C$2*2}: S!A1:A4 is then
calculated as a single 4x1 array formula and rows 3 and 4 are filled with #N/A.

expected: evaluate('S!A1:A4') == (2, 4, 2, 4), as the four cells on their own
"""
import logging

import openpyxl
from openpyxl.worksheet.formula import ArrayFormula

from pycel import ExcelCompiler

logging.disable(logging.CRITICAL)


def workbook():
    wb = openpyxl.Workbook()
    ws = wb.active
    ws.title = 'S'
    ws['C1'], ws['C2'] = 1, 2
    ws['A1'] = ArrayFormula('A1:A2', '=$C$1:$C$2*2')
    ws['A3'] = ArrayFormula('A3:A4', '=$C$1:$C$2*2')
    ws['D1'] = '=SUM(A1:A4)'
    return wb


model = ExcelCompiler(excel=workbook())
print('cells     :', [model.evaluate(f'S!A{row}') for row in (1, 2, 3, 4)])
print('S!A1:A4   :', model.evaluate('S!A1:A4'), ' expected (2, 4, 2, 4)')
print('S!A:A     :', model.evaluate('S!A:A'))
print('SUM(A1:A4):', model.evaluate('S!D1'), ' expected 12')
