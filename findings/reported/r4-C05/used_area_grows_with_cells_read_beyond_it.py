"""Baseline defect (C05): what A:A is clipped to depends on what was read before.

openpyxl creates the cells it is asked for, and ExcelOpxWrapper.max_col_row()
measures the sheet the first time an unbounded range is clipped.  A bounded
range that reaches below the rows in use (=SUM(B1:B100)), or a reference made
at run time that points below them (=OFFSET(A1,5,0)), makes the sheet longer
when it is compiled BEFORE the first unbounded range.

expected: S!A:A is (1, 2, 3) and S!D2 is the same value in both orders
"""
import logging

import openpyxl

from pycel import ExcelCompiler

logging.disable(logging.CRITICAL)


def workbook(far_formula):
    wb = openpyxl.Workbook()
    ws = wb.active
    ws.title = 'S'
    for row in (1, 2, 3):
        ws.cell(row, 1, row)
    ws['C1'] = far_formula
    ws['D2'] = '=INDEX(A:A,5)'
    ws['D3'] = '=MATCH(0,A:A,0)'
    return wb


for far_formula in ('=SUM(B1:B100)', '=OFFSET(A1,5,0)'):
    print(f'--- C1 is {far_formula}')
    model = ExcelCompiler(excel=workbook(far_formula))
    column = model.evaluate('S!A:A')
    model.evaluate('S!C1')
    print('A:A first :', column, '| D2 =', model.evaluate('S!D2'),
          '| D3 =', model.evaluate('S!D3'))

    model = ExcelCompiler(excel=workbook(far_formula))
    model.evaluate('S!C1')
    column = model.evaluate('S!A:A')
    print('C1 first  :', column[:5], f'... {len(column)} values',
          '| D2 =', model.evaluate('S!D2'), '| D3 =', model.evaluate('S!D3'))
