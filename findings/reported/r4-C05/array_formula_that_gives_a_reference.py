"""Baseline defect (C05): an array formula whose result is a reference.

{=OFFSET(C1,0,0,2,1)} or {=INDIRECT("C1:C2")} entered in A1:A2.  The cells on
their own are index(<array>, r, c), which follows the reference, but the range
of the array formula holds the reference itself: evaluate() of the range (and
of any formula reading it) sees AddressRange objects instead of the numbers.

expected: evaluate('S!A1:A2') == (1, 2), SUM(A1:A2) == 3
"""
import logging

import openpyxl
from openpyxl.worksheet.formula import ArrayFormula

from pycel import ExcelCompiler

logging.disable(logging.CRITICAL)


def workbook(formula):
    wb = openpyxl.Workbook()
    ws = wb.active
    ws.title = 'S'
    ws['C1'], ws['C2'] = 1, 2
    ws['A1'] = ArrayFormula('A1:A2', formula)
    ws['D1'] = '=SUM(A1:A2)'
    return wb


for formula in ('=OFFSET(C1,0,0,2,1)', '=INDIRECT("C1:C2")'):
    print('--- A1:A2 is {%s}' % formula)
    model = ExcelCompiler(excel=workbook(formula))
    print('cells      :', model.evaluate(['S!A1', 'S!A2']), ' expected [1, 2]')
    print('S!A1:A2    :', tuple(map(repr, model.evaluate('S!A1:A2'))))
    print('S!A:A      :', tuple(map(str, model.evaluate('S!A:A'))))
    print('SUM(A1:A2) :', model.evaluate('S!D1'), ' expected 3')
