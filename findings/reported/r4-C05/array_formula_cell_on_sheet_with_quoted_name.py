"""Baseline defect (C05): a cell of an array formula on a sheet named a-b.

The cells of an array formula are compiled as =index(<sheet>!<range>,r,c), and
AddressMixin.quote_sheet() quotes the sheet name only when it holds a blank.
For a name like a-b, a+b or it's the formula text does not parse as meant:
the cell can not be evaluated (or gives #NAME? when a sheet named b exists),
while the range of the array formula evaluates fine.

expected: evaluate("'a-b'!A1") == 2 == evaluate("'a-b'!A1:A2")[0]
"""
import logging

import openpyxl
from openpyxl.worksheet.formula import ArrayFormula

from pycel import ExcelCompiler

logging.disable(logging.CRITICAL)


def workbook(with_sheet_b):
    wb = openpyxl.Workbook()
    ws = wb.active
    ws.title = 'a-b'
    ws['C1'], ws['C2'] = 1, 2
    ws['A1'] = ArrayFormula('A1:A2', '=C1:C2*2')
    if with_sheet_b:
        wb.create_sheet('b')['A1'] = 100
    return wb


for with_sheet_b in (False, True):
    print('--- a sheet named b exists:', with_sheet_b)
    model = ExcelCompiler(excel=workbook(with_sheet_b))
    print("'a-b'!A1:A2 :", model.evaluate("'a-b'!A1:A2"), ' expected (2, 4)')
    model = ExcelCompiler(excel=workbook(with_sheet_b))
    try:
        print("'a-b'!A1    :", model.evaluate("'a-b'!A1"), ' expected 2')
    except Exception as exc:
        print("'a-b'!A1    : raises", type(exc).__name__,
              str(exc).strip().splitlines()[-1][:80], ' expected 2')
