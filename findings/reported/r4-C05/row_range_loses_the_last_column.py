"""Baseline defect (C05): an unbounded range is clipped one short of XFD / row 1048576.

AddressMixin._union_instersection() takes an unbounded row range to span
columns 0..16383, so the intersection with a used area that reaches the last
column (XFD, 16384) stops at XFC.  (The same holds for A:A and row 1048576.)

expected: the last element of evaluate('S!1:1') is S!XFD1 (7), SUM(1:1) is 8
"""
import logging

import openpyxl

from pycel import ExcelCompiler

logging.disable(logging.CRITICAL)

wb = openpyxl.Workbook()
ws = wb.active
ws.title = 'S'
ws['A1'] = 1
ws['XFD1'] = 7
ws['A2'] = '=SUM(1:1)'

model = ExcelCompiler(excel=wb)
row = model.evaluate('S!1:1')
print('S!XFD1          :', model.evaluate('S!XFD1'))
print('len(S!1:1)      :', len(row), ' expected 16384')
print('last of S!1:1   :', row[-1], ' expected 7')
print('A2 = SUM(1:1)   :', model.evaluate('S!A2'), ' expected 8')
