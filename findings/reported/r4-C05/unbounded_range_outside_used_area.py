"""Baseline defect (C05, minor): an unbounded range that misses the used area.

The used area is A1:C3.  D:D and 4:4 do not intersect it, the intersection is
the text '#NULL!' and ExcelOpxWrapper.get_range() goes on to use it as an
address.  C:D, which overlaps the used area, is clipped to C1:C3.

expected: blanks (or one blank), not an AttributeError
"""
import logging

import openpyxl

from pycel import ExcelCompiler

logging.disable(logging.CRITICAL)

wb = openpyxl.Workbook()
ws = wb.active
ws.title = 'S'
for row in (1, 2, 3):
    for col in (1, 2, 3):
        ws.cell(row, col, row * 10 + col)

model = ExcelCompiler(excel=wb)
for address in ('S!C:D', 'S!D:D', 'S!4:4'):
    try:
        print(address, ':', model.evaluate(address))
    except Exception as exc:
        print(address, ': raises', type(exc).__name__, exc)
