"""A formula that only refers to a range (ROW, COLUMN, an intersection) gets
its value before the range is calculated for set_value()'s sake; when a cell
of the range fails evaluate() raises, but the cell has its value: the retry
returns it.  The value is right (it does not depend on the failing cell), the
defect is that the same request first fails and then succeeds."""
from _common import ExcelCompiler, PLUGINS, Workbook, attempt, plugin

for cycles in (False, True):
    wb = Workbook()
    ws = wb.active
    ws['A1'], ws['A2'] = 1, 2
    ws['B1'] = '=BOOM("b",A1)'
    ws['B2'] = 4
    ws['G1'] = '=COLUMN(B1:B2)+A1'
    m = ExcelCompiler(excel=wb, plugins=PLUGINS, cycles=cycles)
    plugin.FAIL.clear()
    plugin.FAIL.add('b')
    answers = [attempt(m, 'Sheet!G1') for _ in range(3)]
    print(f'cycles={cycles}: G1 asked three times: {answers};'
          f'  expected: the same answer every time')
    print('DEFECT' if len(set(answers)) > 1 else 'ok')
