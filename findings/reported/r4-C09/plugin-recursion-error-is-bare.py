"""An error inside a plugin function is reported as FormulaEvalError, except a
RecursionError: that one leaves evaluate() as a builtin RecursionError with
the text 'Do you need to use cycles=True ?' (plain and iterative mode)."""
from _common import ExcelCompiler, PLUGINS, Workbook, attempt, plugin

for cycles in (False, True):
    wb = Workbook()
    ws = wb.active
    ws['A1'] = 1
    ws['B1'] = '=BOOM("b",A1)'
    ws['C1'] = '=B1*2'
    m = ExcelCompiler(excel=wb, plugins=PLUGINS, cycles=cycles)
    plugin.FAIL.add('b')
    plugin.EXC['b'] = RecursionError
    got = attempt(m, 'Sheet!C1')
    print(f'cycles={cycles}: C1 {got};  expected: one of pycel\'s own errors')
    print('DEFECT' if not got[1].startswith('pycel.') else 'ok')
