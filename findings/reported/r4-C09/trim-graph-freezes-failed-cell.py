"""plain mode: after a failed evaluation the failing cell has no value;
trim_graph() turns every cell that is not between the inputs and the outputs
into a constant, also this one: it becomes a blank, and its dependant
evaluates to A1 + 0 instead of failing again (or giving 7 once the plugin
function works)."""
from _common import ExcelCompiler, PLUGINS, Workbook, attempt, plugin

wb = Workbook()
ws = wb.active
ws['A1'] = 2
ws['B1'] = '=BOOM("b",5)'
ws['C1'] = '=A1+B1'
m = ExcelCompiler(excel=wb, plugins=PLUGINS)
plugin.FAIL.add('b')
print('C1 while B1 fails      :', attempt(m, 'Sheet!C1'), ' expected: raises a pycel error')
m.trim_graph(['Sheet!A1'], ['Sheet!C1'])
got = attempt(m, 'Sheet!C1')
print('C1 after trim_graph    :', got, ' expected: raises a pycel error')
plugin.FAIL.clear()
got2 = attempt(m, 'Sheet!C1')
print('C1 plugin works again  :', got2, ' expected 7')
print('DEFECT' if got[0] == 'value' or got2 != ('value', 7) else 'ok')
