"""(the failure is a formula that cannot be parsed, FormulaParserError, not an
unknown function or an error inside a function)  The parser runs while the
graph is wired; its error leaves _process_gen_graph() with cells still queued
and nothing builds afterwards: E1 = A1*3, which has nothing to do with the bad
cell C1, is never connected to A1 and keeps its value after set_value()."""
from _common import ExcelCompiler, Workbook, attempt

wb = Workbook()
ws = wb.active
ws['A1'] = 1
ws['B1'] = '=A1+1'
ws['C1'] = '=SUM(A1'
ws['E1'] = '=A1*3'
ws['D1'] = '=E1+C1+B1'
m = ExcelCompiler(excel=wb)
print('D1                     :', attempt(m, 'Sheet!D1'), ' (C1 cannot be parsed)')
print('E1                     :', attempt(m, 'Sheet!E1'), ' expected 3')
m.set_value('Sheet!A1', 5)
got = attempt(m, 'Sheet!E1')
print('E1 after A1=5          :', got, ' expected 15')
print('DEFECT' if got != ('value', 15) else 'ok')
