"""Plugin function for the baseline reproducers: raises on demand"""
from pycel.lib.function_helpers import excel_helper

FAIL = set()
EXC = {}


@excel_helper()
def boom(key, value=0):
    if key in FAIL:
        raise EXC.get(key, RuntimeError)(f'boom {key}')
    return value
