"""iterative mode: X1 = INDIRECT("D"&A3) evaluates to a reference to D3, a
cell that is not in the model yet.  Building D3 = SUM(B1:B2) calculates the
range B1:B2 at once, B1 fails, and this happens outside of the code that
takes the 'in progress' mark off X1 again: X1 answers None from then on, and
Y1 = X1+1 answers 1, also after the plugin function works again."""
from _common import ExcelCompiler, PLUGINS, Workbook, attempt, plugin


def model():
    wb = Workbook()
    ws = wb.active
    ws['A1'], ws['A3'] = 1, 3
    ws['B1'] = '=BOOM("b",A1)'
    ws['B2'] = 5
    ws['D3'] = '=SUM(B1:B2)'
    ws['X1'] = '=INDIRECT("D"&A3)'
    ws['Y1'] = '=X1+1'
    return ExcelCompiler(excel=wb, plugins=PLUGINS,
                         cycles=dict(iterations=100, tolerance=0.001))


plugin.FAIL.add('b')
m = model()
print('Y1 while B1 fails      :', attempt(m, 'Sheet!Y1'), ' expected: raises a pycel error')
print('Y1 retried             :', attempt(m, 'Sheet!Y1'), ' expected: raises a pycel error')
print('X1 retried             :', attempt(m, 'Sheet!X1'), ' expected: raises a pycel error')
plugin.FAIL.clear()
got = attempt(m, 'Sheet!Y1'), attempt(m, 'Sheet!X1')
fresh = model()
want = attempt(fresh, 'Sheet!Y1'), attempt(fresh, 'Sheet!X1')
print('Y1, X1 plugin works    :', got, ' fresh model:', want)
print('DEFECT' if got != want else 'ok')
