"""validate_calcs(raise_exceptions=True) on a failing cell leaves it without a
value while its dependants keep theirs: a later set_value() on a precedent
stops at the valueless cell and the dependants stay stale (plain mode).
(with raise_exceptions=False the cell gets its value back, fix 9fc1092)"""
from _common import ExcelCompiler, PLUGINS, Workbook, attempt, plugin

wb = Workbook()
ws = wb.active
ws['A1'] = 1
ws['B1'] = '=BOOM("b",A1)'
ws['C1'] = '=B1+1'
m = ExcelCompiler(excel=wb, plugins=PLUGINS)
print('C1 at first            :', attempt(m, 'Sheet!C1'), ' expected 2')
plugin.FAIL.add('b')
try:
    m.validate_calcs(output_addrs=['Sheet!B1'], raise_exceptions=True)
except Exception as exc:
    print('validate_calcs raised  :', type(exc).__name__)
print('B1.value afterwards    :', m.cell_map['Sheet!B1'].value)
plugin.FAIL.clear()
m.set_value('Sheet!A1', 5)
got = attempt(m, 'Sheet!C1')
print('C1 after A1=5          :', got, ' expected by the property: 6 (fresh model)')
print('DEFECT' if got != ('value', 6) else 'ok')
