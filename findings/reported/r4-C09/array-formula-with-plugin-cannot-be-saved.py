"""(side issue, persistence) Loading a saved model calculates its array
formulas at once, before from_file() has handed over the plugins: a model with
an array formula that uses a plugin function cannot be loaded from yml/json,
and to_file() with a pickle (which loads the text again) raises
UnknownFunction."""
import os
import tempfile

from _common import ExcelCompiler, PLUGINS, Workbook, attempt

tmp_root = os.path.join(os.path.dirname(os.path.abspath(__file__)), '..', '..', 'tmp')
os.makedirs(tmp_root, exist_ok=True)
tmp = tempfile.mkdtemp(dir=tmp_root)
wb = Workbook()
ws = wb.active
ws['A1'], ws['A2'], ws['A3'] = 1, 2, 3
ws['B1'] = '=BOOM("g",A1:A3)*2'
ws.formula_attributes['B1'] = {'t': 'array', 'ref': 'B1:B3'}
ws['C1'] = '=SUM(B1:B3)'
m = ExcelCompiler(excel=wb, plugins=PLUGINS)
print('C1                     :', attempt(m, 'Sheet!C1'), ' expected 12')
defect = False
for ext in ('yml', 'pkl'):
    name = os.path.join(tmp, 'model.' + ext)
    try:
        m.to_file(name)
        loaded = ExcelCompiler.from_file(name, plugins=PLUGINS)
        print(ext, 'loaded, C1         :', attempt(loaded, 'Sheet!C1'))
    except Exception as exc:
        defect = True
        print(ext, 'to_file/from_file raised', type(exc).__name__, ' expected: loads, C1 = 12')
print('DEFECT' if defect else 'ok')
