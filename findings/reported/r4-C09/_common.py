import logging
import os
import sys

sys.path.insert(0, os.path.dirname(os.path.abspath(__file__)))
logging.getLogger('pycel').setLevel(logging.CRITICAL)

import c09_baseline_plugin as plugin  # noqa: E402,F401
from openpyxl import Workbook  # noqa: E402,F401
from pycel import ExcelCompiler  # noqa: E402,F401

PLUGINS = ('c09_baseline_plugin',)


def attempt(compiler, addr):
    try:
        return 'value', compiler.evaluate(addr)
    except BaseException as exc:
        return 'raised', f'{type(exc).__module__}.{type(exc).__name__}'
