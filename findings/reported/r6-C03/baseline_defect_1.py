"""Baseline defect (unmodified tree): a saved model can not be loaded when one
of its cells refers to another workbook.

Evaluating Sheet1!A1 (`=[1]Other!A1+1`) raises NotImplementedError('Linked
SheetNames') in the original, but the cell stays in the model (cells next to
something that can not be built are kept and wired) and the rest of the model
works.  to_file() writes the cell, and _from_text() -> _process_gen_graph()
raises the same NotImplementedError for the whole file: from_file() of the
yml / json fails, and to_file() of a pkl (which reads the text back) raises.
So none of the saved cells (Sheet1!B1 = 8 in the original) can be read back.
"""
import os
import shutil
import tempfile

from openpyxl import Workbook

from pycel import ExcelCompiler

tmp = tempfile.mkdtemp()
problems = []
try:
    wb = Workbook()
    ws = wb.active
    ws.title = 'Sheet1'
    ws['A1'] = '=[1]Other!A1+1'
    ws['C1'] = 4
    ws['B1'] = '=C1*2'
    xlsx = os.path.join(tmp, 'w.xlsx')
    wb.save(xlsx)

    model = ExcelCompiler(filename=xlsx)
    assert model.evaluate('Sheet1!B1') == 8
    try:
        model.evaluate('Sheet1!A1')
    except NotImplementedError:
        pass
    assert model.evaluate('Sheet1!B1') == 8

    for ext in ('yml', 'json', 'pkl'):
        saved = os.path.join(tmp, 'm.' + ext)
        try:
            model.to_file(saved)
            loaded = ExcelCompiler.from_file(saved)
            assert loaded.evaluate('Sheet1!B1') == 8
        except Exception as exc:
            problems.append(f'{ext}: {type(exc).__name__}: {exc}')
finally:
    shutil.rmtree(tmp)

print('\n'.join(problems))
assert not problems
