"""Baseline defect (unmodified tree): evaluate() of an address without a sheet
works in the original (the active sheet is used) and raises AttributeError in
a loaded model: '_CompiledImporter' object has no attribute
'get_active_sheet_name'.  The active sheet is not part of the saved model.
"""
import os
import shutil
import tempfile

from openpyxl import Workbook

from pycel import ExcelCompiler

tmp = tempfile.mkdtemp()
try:
    wb = Workbook()
    ws = wb.active
    ws.title = 'Sheet1'
    ws['A1'], ws['A2'] = 1, 2
    ws['A3'] = '=A1+A2'
    xlsx = os.path.join(tmp, 'w.xlsx')
    wb.save(xlsx)

    model = ExcelCompiler(filename=xlsx)
    assert model.evaluate('A3') == 3
    saved = os.path.join(tmp, 'm.yml')
    model.to_file(saved)
    loaded = ExcelCompiler.from_file(saved)
    assert loaded.evaluate('Sheet1!A3') == 3
    try:
        result = loaded.evaluate('A3')
    except Exception as exc:
        result = f'{type(exc).__name__}: {exc}'
finally:
    shutil.rmtree(tmp)

print('original: 3  loaded:', result)
assert result == 3
