"""Baseline defect (unmodified tree): a value given to a range as a whole
(set_value(..., set_as_range=True)) is not saved.

The value is kept on the range node only, formulas that read the range see it
(Sheet1!E1 = SUM(D1:D3) is 60 in the original), but ranges without a formula
are not written to the file and the member cells still hold 1, 2, 3: the
loaded model says 6.  (The original is not consistent with itself here either,
Sheet1!D1 is still 1, so this may count as a known weak spot of set_as_range.)
"""
import os
import shutil
import tempfile

from openpyxl import Workbook

from pycel import ExcelCompiler

tmp = tempfile.mkdtemp()
try:
    wb = Workbook()
    ws = wb.active
    ws.title = 'Sheet1'
    ws['D1'], ws['D2'], ws['D3'] = 1, 2, 3
    ws['E1'] = '=SUM(D1:D3)'
    xlsx = os.path.join(tmp, 'w.xlsx')
    wb.save(xlsx)

    model = ExcelCompiler(filename=xlsx)
    assert model.evaluate('Sheet1!E1') == 6
    model.set_value('Sheet1!D1:D3', [[10], [20], [30]], set_as_range=True)
    original = model.evaluate('Sheet1!E1')
    saved = os.path.join(tmp, 'm.yml')
    model.to_file(saved)
    loaded = ExcelCompiler.from_file(saved).evaluate('Sheet1!E1')
finally:
    shutil.rmtree(tmp)

print('original:', original, ' loaded:', loaded)
assert original == loaded
