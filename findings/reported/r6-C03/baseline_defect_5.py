"""Baseline defect (unmodified tree, most likely known): a text constant that
begins with '=' is written to the file as it is and read back as python code.

set_value('Sheet1!A1', '=B1*2') stores a text (in Excel: '=B1*2 typed with a
leading apostrophe).  The original returns the text, a model loaded from yml,
json or pkl tries to run `B1*2` and raises UnknownFunction.
"""
import os
import shutil
import tempfile

from openpyxl import Workbook

from pycel import ExcelCompiler

tmp = tempfile.mkdtemp()
problems = []
try:
    wb = Workbook()
    ws = wb.active
    ws.title = 'Sheet1'
    ws['A1'] = 'text'
    ws['A2'] = '=A1&"!"'
    xlsx = os.path.join(tmp, 'w.xlsx')
    wb.save(xlsx)

    model = ExcelCompiler(filename=xlsx)
    assert model.evaluate('Sheet1!A2') == 'text!'
    model.set_value('Sheet1!A1', '=B1*2')
    assert model.evaluate('Sheet1!A2') == '=B1*2!'
    for ext in ('yml', 'json', 'pkl'):
        saved = os.path.join(tmp, 'm.' + ext)
        try:
            model.to_file(saved)
            loaded = ExcelCompiler.from_file(saved)
            assert loaded.evaluate('Sheet1!A1') == '=B1*2'
            assert loaded.evaluate('Sheet1!A2') == '=B1*2!'
        except Exception as exc:
            problems.append(f'{ext}: {type(exc).__name__}')
finally:
    shutil.rmtree(tmp)

print('\n'.join(problems))
assert not problems
