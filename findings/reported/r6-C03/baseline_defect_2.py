"""Baseline defect (unmodified tree): a formula that refers to a sheet the
workbook does not have raises in the original and gives a number in the
loaded model.

Sheet1!A2 is `=Missing!A1+C1`.  In the original every evaluate('Sheet1!A2')
raises (KeyError('Worksheet Missing does not exist.') while the graph is built,
FormulaEvalError from then on).  The cell is in the model
and is saved; the loader (_CompiledImporter) makes an empty cell for every
address it does not find, also on a sheet nobody has, so the loaded model
returns 4 (0 + C1).  Same history, different reaction.
"""
import os
import shutil
import tempfile

from openpyxl import Workbook

from pycel import ExcelCompiler


def reaction(model):
    try:
        return model.evaluate('Sheet1!A2')
    except Exception:
        return 'raises'


tmp = tempfile.mkdtemp()
try:
    wb = Workbook()
    ws = wb.active
    ws.title = 'Sheet1'
    ws['C1'] = 4
    ws['A2'] = '=Missing!A1+C1'
    xlsx = os.path.join(tmp, 'w.xlsx')
    wb.save(xlsx)

    model = ExcelCompiler(filename=xlsx)
    original = reaction(model)
    saved = os.path.join(tmp, 'm.yml')
    model.to_file(saved)
    loaded = reaction(ExcelCompiler.from_file(saved))
    again = reaction(model)
finally:
    shutil.rmtree(tmp)

print('original:', original, again, ' loaded:', loaded)
assert original == again == loaded
