"""ExcelOpxWrapper.load() swaps openpyxl.worksheet._reader.from_excel (a module
global of openpyxl) with mock.patch for the duration of the load, so that date
cells are read as serial numbers.  mock.patch is a save/restore of a process
global: when two threads load two workbooks and the loads overlap as

    T1 enters the patch (saves the real function)
    T2 enters the patch (saves the replacement of T1 as 'the original')
    T1 leaves the patch (puts the real function back)
    T2 goes on loading                <- openpyxl converts dates again
    T2 leaves the patch (puts the replacement back, for the rest of the process)

T2 gets a different model than when it loads alone: date cells are datetime
objects and not numbers.  sys.settrace is only used here as a scheduler, to
park each thread at its second call of openpyxl's load_workbook().
"""
import datetime
import os
import sys
import tempfile
import threading

import openpyxl
from openpyxl import Workbook
from pycel import ExcelCompiler


def make_workbook(path, day):
    wb = Workbook()
    ws = wb.active
    ws['A1'] = day
    ws['B1'] = '=A1+1'
    wb.save(path)


class Parker:
    """Parks the thread at the start of its n-th load_workbook() call"""

    def __init__(self, nth):
        self.nth = nth
        self.calls = 0
        self.parked = threading.Event()
        self.go = threading.Event()

    def __call__(self, frame, event, arg):
        if event == 'call' and frame.f_code.co_name == 'load_workbook':
            self.calls += 1
            if self.calls == self.nth:
                self.parked.set()
                assert self.go.wait(timeout=60)
        return None  # no line tracing


def load_and_eval(path, out, key, parker=None):
    if parker is not None:
        sys.settrace(parker)
    try:
        model = ExcelCompiler(filename=path)
    finally:
        sys.settrace(None)
    out[key] = (model.evaluate('Sheet!A1'), model.evaluate('Sheet!B1'))


def main():
    tmp = tempfile.mkdtemp()
    path1 = os.path.join(tmp, 'one.xlsx')
    path2 = os.path.join(tmp, 'two.xlsx')
    make_workbook(path1, datetime.date(2020, 1, 1))
    make_workbook(path2, datetime.date(2021, 1, 1))
    real_from_excel = openpyxl.worksheet._reader.from_excel

    out = {}
    # T2's workbook loaded alone, on a thread of its own
    t = threading.Thread(target=load_and_eval, args=(path2, out, 'alone'))
    t.start()
    t.join()

    p1, p2 = Parker(2), Parker(2)
    t1 = threading.Thread(target=load_and_eval, args=(path1, out, 't1', p1))
    t2 = threading.Thread(target=load_and_eval, args=(path2, out, 't2', p2))
    t1.start()
    assert p1.parked.wait(timeout=60)   # T1 is inside the patch
    t2.start()
    assert p2.parked.wait(timeout=60)   # T2 is inside the patch as well
    p1.go.set()
    t1.join()                           # T1 left the patch
    p2.go.set()
    t2.join()

    print('expected (workbook two loaded alone):', out['alone'])
    print('pycel returned (loads overlapping)  :', out.get('t2'))
    leaked = openpyxl.worksheet._reader.from_excel is not real_from_excel
    print('openpyxl.worksheet._reader.from_excel still replaced after both'
          ' loads are over:', leaked)
    ok = out.get('t2') == out['alone'] and not leaked
    print('PASS' if ok else 'FAIL')
    return 0 if ok else 1


if __name__ == '__main__':
    sys.exit(main())
