"""CELL("contents", <reference>) reads the referenced cell through
`cell.excel_func_meta['name_space']['_C_']`.  excel_func_meta is ONE dict on
the library function (pycel.lib.information.cell), apply_meta() overwrites its
'name_space' entry each time any formula of any compiler that uses CELL() is
loaded.  So CELL() evaluates the reference in the workbook of whichever
compiler loaded a CELL() formula last (lookup.index() has the same code for an
array of references).

Schedule (whole evaluations, no preemption needed):
    thread A: A.evaluate(A1)        loads A's CELL() formula      -> 1
    thread B: B.evaluate(A1)        loads B's CELL() formula      -> 2
    thread A: A.set_value(C1, 1); A.evaluate(A1)
              expected 10 (B2 of workbook A), pycel returns 20 (B2 of B)
"""
import sys
import threading

from openpyxl import Workbook
from pycel import ExcelCompiler

FORMULA = '=CELL("contents",OFFSET(B1,C1,0))'


def build(column_b):
    wb = Workbook()
    ws = wb.active
    for row, value in enumerate(column_b, start=1):
        ws[f'B{row}'] = value
    ws['C1'] = 0
    ws['A1'] = FORMULA
    return ExcelCompiler(excel=wb)


def on_thread(func):
    t = threading.Thread(target=func)
    t.start()
    t.join()


def main():
    out = {}

    # workbook A alone
    alone = build((1, 10, 100))

    def a_alone():
        out['alone_1'] = alone.evaluate('Sheet!A1')
        alone.set_value('Sheet!C1', 1)
        out['alone_2'] = alone.evaluate('Sheet!A1')
    on_thread(a_alone)

    model_a = build((1, 10, 100))
    model_b = build((2, 20, 200))

    def a_first():
        out['a_1'] = model_a.evaluate('Sheet!A1')

    def b_whole():
        out['b'] = model_b.evaluate('Sheet!A1')

    def a_second():
        model_a.set_value('Sheet!C1', 1)
        out['a_2'] = model_a.evaluate('Sheet!A1')

    for step in (a_first, b_whole, a_second):
        on_thread(step)

    print('formula:', FORMULA)
    print('expected (workbook A alone):', (out['alone_1'], out['alone_2']))
    print('pycel returned for A       :', (out['a_1'], out['a_2']),
          ' (workbook B evaluated in between, B column is 2, 20, 200)')
    ok = (out['a_1'], out['a_2']) == (out['alone_1'], out['alone_2'])
    print('PASS' if ok else 'FAIL')
    return 0 if ok else 1


if __name__ == '__main__':
    sys.exit(main())
