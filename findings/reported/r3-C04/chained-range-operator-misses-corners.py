"""Baseline defect (unmodified code): a chained range operator reads cells that
are neither declared precedents nor connected in dep_graph

    E1 = SUM(A1:(B2):C3)        (legal: a reference may be put in parentheses)

compiles to
    sum_(_R_(str((_REF_(str(_REF_("Sheet1!A1") ** (_REF_("Sheet1!B2"))))) ** _REF_("Sheet1!C3"))))
and reads the whole rectangle A1:C3 at run time.  ExcelFormula.needed_addresses
only pairs each `**` with the two written references next to it, so it declares
A1, B2, A1:B2, C3, B2:C3: the corners C1 and A3 of the rectangle are read but
are no precedents, there is no path from them to E1 in dep_graph, set_value()
on them leaves E1 stale (and trim_graph would drop them).
"""
import networkx as nx
from openpyxl import Workbook

from pycel import ExcelCompiler

wb = Workbook()
ws = wb.active
ws.title = 'Sheet1'
for row in range(1, 4):
    for col in 'ABC':
        ws[f'{col}{row}'] = 1
ws['E1'] = '=SUM(A1:(B2):C3)'

model = ExcelCompiler(excel=wb)
print('E1 =', model.evaluate('Sheet1!E1'), '(expected 9: all of A1:C3 is read)')

e1 = model.cell_map['Sheet1!E1']
print('python code       :', e1.formula.python_code)
print('declared precedents:', [a.address for a in e1.formula.needed_addresses])

ancestors = {n.address.address for n in nx.ancestors(model.dep_graph, e1)}
read = {f'Sheet1!{col}{row}' for row in range(1, 4) for col in 'ABC'}
missing = sorted(read - ancestors)
print('cells read that are no ancestors of E1 in dep_graph:', missing,
      '(expected by C04: [])')

model.set_value('Sheet1!C1', 100)
got = model.evaluate('Sheet1!E1')
print('after set_value(C1, 100): E1 =', got, '(expected 108)')
model.set_value('Sheet1!A3', 100)
got2 = model.evaluate('Sheet1!E1')
print('after set_value(A3, 100): E1 =', got2, '(expected 207)')

print('DEFECT REPRODUCED' if missing or (got, got2) != (108, 207)
      else 'not reproduced')
