"""Baseline defect (unmodified tree) for C12.

validate_calcs() queues the precedents of a cell only after the cell itself
was evaluated without an exception (the loop over cell.needed_addresses is the
last statement of the `try` block).  A checked output that can not be
evaluated (here: it calls a function pycel does not implement) is reported
under 'not-implemented', but none of its precedents is ever visited.  A wrong
stored result in a formula cell that is reachable from the checked outputs
only through such a cell is therefore not reported: the property asks for
"the report names that cell as a mismatch" for every formula cell reachable
from the checked outputs.

    Sheet1!A1 = 1
    Sheet1!B1 = A1+1            stored 2, altered to 7
    Sheet1!C1 = CUBEVALUE(B1)   stored 5   (not implemented in pycel)

    validate_calcs(output_addrs=['Sheet1!C1'])
       -> {'not-implemented': {'CUBEVALUE': [('Sheet1!C1', ...)]}}
       no 'mismatch' for Sheet1!B1, even though it is a written precedent
       of the checked output and validate_calcs(output_addrs=['Sheet1!B1'])
       does report it.

Exits non-zero on the unmodified tree.
"""
import io
import os
import re
import shutil
import sys
import tempfile
import zipfile
from contextlib import redirect_stdout

import openpyxl

from pycel import ExcelCompiler


def write_xlsx(path, sheets, stored):
    """sheets: {sheet: {coord: value or '=formula'}}
       stored: {(sheet, coord): stored result of that formula}"""
    wb = openpyxl.Workbook()
    wb.remove(wb.active)
    for name, cells in sheets.items():
        ws = wb.create_sheet(name)
        for coord, value in cells.items():
            ws[coord] = value
    bio = io.BytesIO()
    wb.save(bio)

    def cell_xml(sheet_name):
        def repl(match):
            coord, formula = match.group(1), match.group(2)
            value = stored.get((sheet_name, coord))
            if value is None:
                return match.group(0)
            if isinstance(value, bool):
                t, v = ' t="b"', str(int(value))
            elif isinstance(value, (int, float)):
                t, v = '', repr(value)
            elif value.startswith('#'):
                t, v = ' t="e"', value
            else:
                t, v = ' t="str"', value
            return f'<c r="{coord}"{t}><f>{formula}</f><v>{v}</v></c>'
        return repl

    src = zipfile.ZipFile(bio)
    with zipfile.ZipFile(path, 'w', zipfile.ZIP_DEFLATED) as dst:
        for item in src.infolist():
            data = src.read(item.filename)
            m = re.match(r'xl/worksheets/sheet(\d+)\.xml', item.filename)
            if m:
                sheet_name = list(sheets)[int(m.group(1)) - 1]
                data = re.sub(
                    r'<c r="([A-Z]+\d+)"[^>]*><f>(.*?)</f><v ?/></c>',
                    cell_xml(sheet_name), data.decode()).encode()
            dst.writestr(item, data)


def main():
    tmp = tempfile.mkdtemp()
    try:
        sheets = {'Sheet1': {'A1': 1, 'B1': '=A1+1', 'C1': '=CUBEVALUE(B1)'}}
        path = os.path.join(tmp, 'book.xlsx')

        # consistent (as far as pycel can tell): only the not-implemented cell
        write_xlsx(path, sheets, {('Sheet1', 'B1'): 2, ('Sheet1', 'C1'): 5})
        with redirect_stdout(io.StringIO()):
            report = ExcelCompiler(path).validate_calcs(
                output_addrs=['Sheet1!C1'])
        assert set(report) == {'not-implemented'}, report

        # B1 altered
        write_xlsx(path, sheets, {('Sheet1', 'B1'): 7, ('Sheet1', 'C1'): 5})
        with redirect_stdout(io.StringIO()):
            direct = ExcelCompiler(path).validate_calcs(
                output_addrs=['Sheet1!B1'])
        assert 'Sheet1!B1' in direct.get('mismatch', {}), direct

        with redirect_stdout(io.StringIO()):
            report = ExcelCompiler(path).validate_calcs(
                output_addrs=['Sheet1!C1'])
        assert 'Sheet1!B1' in report.get('mismatch', {}), (
            f'B1 is a precedent of the checked output C1, its stored result '
            f'is wrong, and the report does not name it: {report}')
    finally:
        shutil.rmtree(tmp)


if __name__ == '__main__':
    main()
    sys.exit(0)
