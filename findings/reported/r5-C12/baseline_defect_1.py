"""Baseline defect 1 (unmodified tree): in a workbook which has iterative
calculation enabled (File > Options > Formulas > 'Enable iterative calculation',
workbook.calculation.iterate, no circular reference needed) validate_calcs()
never reports an altered stored result.

In cycles mode every evaluate() starts a new iteration in which all of the
formula cells it reaches are calculated again, so verifying the first cell
already replaces the stored results of its precedents by calculated values, and
when those cells are verified themselves, original_value = cell.value is the
calculated value.  Here B1 is stored as 7 while its formula gives 4: the
report is {} for all outputs and for output C1.  (With the dependant
verified after the altered cell the cell is named, so it depends on the order.)
"""
import contextlib
import io
import logging
import os
import re
import shutil
import tempfile
import zipfile
from xml.sax.saxutils import escape

import openpyxl

from pycel import ExcelCompiler

logging.disable(logging.CRITICAL)


def as_xml(value):
    if isinstance(value, bool):
        return 'b', str(int(value))
    if isinstance(value, (int, float)):
        return 'n', repr(value)
    if value.startswith('#'):
        return 'e', escape(value)
    return 'str', escape(value)


def save_with_stored_results(wb, path, stored):
    """openpyxl writes formulas without results: put them into the xml of
    the (only) sheet.  stored: {coordinate: stored result}"""
    buf = io.BytesIO()
    wb.save(buf)
    cell_re = re.compile(r'<c r="([A-Z]+\d+)"><f>(.*?)</f><v ?/></c>')

    def with_value(match):
        coord, formula = match.groups()
        kind, text = as_xml(stored[coord])
        return f'<c r="{coord}" t="{kind}"><f>{formula}</f><v>{text}</v></c>'

    with zipfile.ZipFile(buf) as zin, zipfile.ZipFile(
            path, 'w', zipfile.ZIP_DEFLATED) as zout:
        for item in zin.infolist():
            data = zin.read(item.filename)
            if item.filename == 'xl/worksheets/sheet1.xml':
                data, n = cell_re.subn(with_value, data.decode())
                assert n == len(stored), (n, len(stored))
                data = data.encode()
            zout.writestr(item, data)


def validate(path, **kwargs):
    with contextlib.redirect_stdout(io.StringIO()):
        return ExcelCompiler(path).validate_calcs(**kwargs)


def chain_workbook():
    """A1 = 2, B1 = A1*2 (4), C1 = B1+1 (5)"""
    wb = openpyxl.Workbook()
    ws = wb.active
    ws.title = 'Sheet'
    ws['A1'] = 2
    ws['B1'] = '=A1*2'
    ws['C1'] = '=B1+1'
    return wb, {'B1': 4, 'C1': 5}


def main():
    tmp_dir = tempfile.mkdtemp()
    try:
        wb, results = chain_workbook()
        wb.calculation.iterate = True
        path = os.path.join(tmp_dir, "iterate.xlsx")
        save_with_stored_results(wb, path, results)
        assert validate(path) == {}

        save_with_stored_results(wb, path, dict(results, B1=7))
        for kwargs in ({}, {"output_addrs": "Sheet!C1"}):
            report = validate(path, **kwargs)
            print(kwargs, report)
            assert "Sheet!B1" in report.get("mismatch", {}), (
                f"B1 stored as 7, formula gives 4, validate_calcs({kwargs}) = {report}")
    finally:
        shutil.rmtree(tmp_dir, ignore_errors=True)


if __name__ == "__main__":
    main()
