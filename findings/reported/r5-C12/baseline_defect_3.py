"""Baseline defect 3 (unmodified tree): with chosen outputs, the precedents of a cell
that can not be evaluated are never looked at, so an altered stored result
that is reachable from the checked output only through such a cell is not named.

In validate_calcs() the precedents are queued after the cell was calculated,
inside the try block; when the calculation raises (here BAHTTEXT, a function
which is not implemented) the handler files the cell under not-implemented and
the loop goes on without queueing cell.needed_addresses.  D1 = BAHTTEXT(C1),
C1 = B1+1, B1 = A1*2 stored as 7 instead of 4: validate_calcs('Sheet!D1') only
has the not-implemented entry of D1, neither B1 nor C1 are verified.
(With output_addrs=None every formula cell is a seed and B1 is named.)
"""
import contextlib
import io
import logging
import os
import re
import shutil
import tempfile
import zipfile
from xml.sax.saxutils import escape

import openpyxl

from pycel import ExcelCompiler

logging.disable(logging.CRITICAL)


def as_xml(value):
    if isinstance(value, bool):
        return 'b', str(int(value))
    if isinstance(value, (int, float)):
        return 'n', repr(value)
    if value.startswith('#'):
        return 'e', escape(value)
    return 'str', escape(value)


def save_with_stored_results(wb, path, stored):
    """openpyxl writes formulas without results: put them into the xml of
    the (only) sheet.  stored: {coordinate: stored result}"""
    buf = io.BytesIO()
    wb.save(buf)
    cell_re = re.compile(r'<c r="([A-Z]+\d+)"><f>(.*?)</f><v ?/></c>')

    def with_value(match):
        coord, formula = match.groups()
        kind, text = as_xml(stored[coord])
        return f'<c r="{coord}" t="{kind}"><f>{formula}</f><v>{text}</v></c>'

    with zipfile.ZipFile(buf) as zin, zipfile.ZipFile(
            path, 'w', zipfile.ZIP_DEFLATED) as zout:
        for item in zin.infolist():
            data = zin.read(item.filename)
            if item.filename == 'xl/worksheets/sheet1.xml':
                data, n = cell_re.subn(with_value, data.decode())
                assert n == len(stored), (n, len(stored))
                data = data.encode()
            zout.writestr(item, data)


def validate(path, **kwargs):
    with contextlib.redirect_stdout(io.StringIO()):
        return ExcelCompiler(path).validate_calcs(**kwargs)


def chain_workbook():
    """A1 = 2, B1 = A1*2 (4), C1 = B1+1 (5)"""
    wb = openpyxl.Workbook()
    ws = wb.active
    ws.title = 'Sheet'
    ws['A1'] = 2
    ws['B1'] = '=A1*2'
    ws['C1'] = '=B1+1'
    return wb, {'B1': 4, 'C1': 5}


def main():
    tmp_dir = tempfile.mkdtemp()
    try:
        wb, results = chain_workbook()
        wb.active["D1"] = "=BAHTTEXT(C1)"
        results["D1"] = "five baht"   # whatever Excel gives, pycel can not tell
        path = os.path.join(tmp_dir, "blocked.xlsx")
        save_with_stored_results(wb, path, dict(results, B1=7))

        report = validate(path)
        assert "Sheet!B1" in report.get("mismatch", {}), report
        assert "BAHTTEXT" in report.get("not-implemented", {}), report

        report = validate(path, output_addrs="Sheet!D1")
        print({k: (v if k == "mismatch" else list(v)) for k, v in report.items()})
        assert "BAHTTEXT" in report.get("not-implemented", {}), report
        assert "Sheet!B1" in report.get("mismatch", {}), (
            "B1 stored as 7, formula gives 4, reachable from D1: not named")
    finally:
        shutil.rmtree(tmp_dir, ignore_errors=True)


if __name__ == "__main__":
    main()
