"""Baseline defect 2 (unmodified tree): validate_calcs(tolerance=0) reports every
numeric formula cell of a workbook with consistent stored results as a mismatch.

_CellBase.close_enough() tests abs(value - self.value) < (1 + rel) * tol, which
is 0 < 0 for equal values and a tolerance of 0.  'tolerance settings' are
quantified over in C12, and a tolerance of 0 (exact agreement) is a legal one.
"""
import contextlib
import io
import logging
import os
import re
import shutil
import tempfile
import zipfile
from xml.sax.saxutils import escape

import openpyxl

from pycel import ExcelCompiler

logging.disable(logging.CRITICAL)


def as_xml(value):
    if isinstance(value, bool):
        return 'b', str(int(value))
    if isinstance(value, (int, float)):
        return 'n', repr(value)
    if value.startswith('#'):
        return 'e', escape(value)
    return 'str', escape(value)


def save_with_stored_results(wb, path, stored):
    """openpyxl writes formulas without results: put them into the xml of
    the (only) sheet.  stored: {coordinate: stored result}"""
    buf = io.BytesIO()
    wb.save(buf)
    cell_re = re.compile(r'<c r="([A-Z]+\d+)"><f>(.*?)</f><v ?/></c>')

    def with_value(match):
        coord, formula = match.groups()
        kind, text = as_xml(stored[coord])
        return f'<c r="{coord}" t="{kind}"><f>{formula}</f><v>{text}</v></c>'

    with zipfile.ZipFile(buf) as zin, zipfile.ZipFile(
            path, 'w', zipfile.ZIP_DEFLATED) as zout:
        for item in zin.infolist():
            data = zin.read(item.filename)
            if item.filename == 'xl/worksheets/sheet1.xml':
                data, n = cell_re.subn(with_value, data.decode())
                assert n == len(stored), (n, len(stored))
                data = data.encode()
            zout.writestr(item, data)


def validate(path, **kwargs):
    with contextlib.redirect_stdout(io.StringIO()):
        return ExcelCompiler(path).validate_calcs(**kwargs)


def chain_workbook():
    """A1 = 2, B1 = A1*2 (4), C1 = B1+1 (5)"""
    wb = openpyxl.Workbook()
    ws = wb.active
    ws.title = 'Sheet'
    ws['A1'] = 2
    ws['B1'] = '=A1*2'
    ws['C1'] = '=B1+1'
    return wb, {'B1': 4, 'C1': 5}


def main():
    tmp_dir = tempfile.mkdtemp()
    try:
        wb, results = chain_workbook()
        path = os.path.join(tmp_dir, "consistent.xlsx")
        save_with_stored_results(wb, path, results)
        assert validate(path) == {}
        report = validate(path, tolerance=0)
        print(report)
        assert report == {}, f"consistent workbook, tolerance=0: {report}"
    finally:
        shutil.rmtree(tmp_dir, ignore_errors=True)


if __name__ == "__main__":
    main()
