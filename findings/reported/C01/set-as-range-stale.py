"""Baseline defect (unmodified tree): set_value(range, values, set_as_range=True).

1. 'value unchanged' is decided by comparing the nested tuples, for which
   ((True,), (2,)) == ((1,), (2,)): a logical written over an equal number
   (the recon defect repaired for single cells) is still dropped in this form.
2. Only the range node gets the values, its cells keep theirs: formulas that
   read the cells directly disagree with formulas that read the range, and the
   next set_value of any cell of the range rebuilds the range from the cells,
   silently losing what was written.
"""
import logging

from openpyxl import Workbook

from pycel import ExcelCompiler

logging.getLogger('pycel').setLevel(logging.CRITICAL)


def build(a1, a2):
    wb = Workbook()
    ws = wb.active
    ws.title = 'S'
    ws['A1'] = a1
    ws['A2'] = a2
    ws['B1'] = '=COUNT(A1:A2)'   # logicals in a range are not counted
    ws['B2'] = '=A1+A2'
    ws['B3'] = '=SUM(A1:A2)'
    return wb


def fresh(a1, a2, addr):
    return ExcelCompiler(excel=build(a1, a2)).evaluate(addr)


defects = 0
model = ExcelCompiler(excel=build(1, 2))
print('COUNT(A1:A2) ->', model.evaluate('S!B1'),
      ' A1+A2 ->', model.evaluate('S!B2'), ' SUM ->', model.evaluate('S!B3'))

model.set_value('S!A1:A2', ((True,), (2,)), set_as_range=True)
got, expected = model.evaluate('S!B1'), fresh(True, 2, 'S!B1')
print(f'1. TRUE written over 1: COUNT(A1:A2) expected {expected}, pycel {got}')
defects += got != expected

model.set_value('S!A1:A2', ((5,), (2,)), set_as_range=True)
got = model.evaluate('S!B3'), model.evaluate('S!B2')
expected = fresh(5, 2, 'S!B3'), fresh(5, 2, 'S!B2')
print(f'2. 5 written to A1 via the range: (SUM(A1:A2), A1+A2) expected '
      f'{expected}, pycel {got}')
defects += got != expected

model.set_value('S!A2', 7)
got, expected = model.evaluate('S!B3'), fresh(5, 7, 'S!B3')
print(f'   then set_value(A2, 7): SUM(A1:A2) expected {expected}, pycel {got}')
defects += got != expected
print('DEFECT REPRODUCED' if defects else 'not reproduced')
