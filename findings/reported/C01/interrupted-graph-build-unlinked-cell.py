"""Baseline defect (unmodified tree): an interrupted graph build.

evaluate(D1) fails while the graph is built (D1 refers to a linked workbook,
NotImplementedError('Linked SheetNames'); a reference to a missing sheet or a
formula that does not parse does the same).  At that point the precedent B1 of
D1 has been made and put in cell_map, but it is still waiting in graph_todos:
it has no edge from ITS precedent A1.  As B1 is in cell_map, evaluate(B1) does
not build anything, calculates B1 and caches the value.  set_value(A1, ...)
then does not reach B1: B1 is stale (until some later evaluate of a new
address happens to finish the pending graph work, and A1 is written again).
"""
import logging

from openpyxl import Workbook

from pycel import ExcelCompiler

logging.getLogger('pycel').setLevel(logging.CRITICAL)


def build(a1):
    wb = Workbook()
    ws = wb.active
    ws.title = 'S'
    ws['A1'] = a1
    ws['E1'] = '=A1+1'
    ws['B1'] = '=A1*2'
    ws['D1'] = '=B1+[1]Other!X1'
    return wb


model = ExcelCompiler(excel=build(1))
print('evaluate(E1) ->', model.evaluate('S!E1'))            # A1 is built here
try:
    model.evaluate('S!D1')
except Exception as exc:
    print('evaluate(D1) raised', type(exc).__name__, str(exc)[:40])
print('evaluate(B1) ->', model.evaluate('S!B1'))
model.set_value('S!A1', 10)
got = model.evaluate('S!B1')
expected = ExcelCompiler(excel=build(10)).evaluate('S!B1')
print('set_value(A1, 10); evaluate(E1) ->', model.evaluate('S!E1'))
print(f'expected by the property: B1 = {expected}   pycel returns: {got}')
print('DEFECT REPRODUCED' if got != expected else 'not reproduced')
