"""Baseline defect (unmodified tree): set_value over a long dependency chain.

_reset() recurses once per dependant.  With a chain of a few thousand cells
(A1 -> A2 -> ... -> An, every cell calculated) set_value(A1, v) raises
RecursionError in the middle of the invalidation and leaves a torn model:
  * the written input A1 is left at None (neither the old nor the new value),
  * the first ~1000 dependants are reset, the rest keep the OLD values,
  * a second set_value(A1, v) 'succeeds' silently (A1 is None so _reset stops
    at once) and the tail of the chain stays stale for good.
The chain itself can be evaluated without deep recursion (bottom up in steps).
"""
import logging

from openpyxl import Workbook

from pycel import ExcelCompiler

logging.getLogger('pycel').setLevel(logging.CRITICAL)

N = 3000
wb = Workbook()
ws = wb.active
ws.title = 'S'
ws['A1'] = 1
for i in range(2, N + 1):
    ws[f'A{i}'] = f'=A{i - 1}+1'

model = ExcelCompiler(excel=wb)


def evaluate_all():
    for i in range(100, N + 1, 100):   # in steps, no deep recursion needed
        model.evaluate(f'S!A{i}')
    return model.evaluate(f'S!A{N}')


print(f'A1=1            A{N} ->', evaluate_all())

try:
    model.set_value('S!A1', 10)
    print('set_value(A1, 10) returned normally')
except RecursionError as exc:
    print('set_value(A1, 10) raised RecursionError:', str(exc)[:50])

print('after the failed set_value: A1 ->', model.evaluate('S!A1'),
      ' A2 ->', model.evaluate('S!A2'), f' A{N} ->', model.evaluate(f'S!A{N}'))

model.set_value('S!A1', 10)
print('second set_value(A1, 10) returned normally')
got = evaluate_all()
expected = 10 + N - 1
print(f'expected by the property: A{N} = {expected}   pycel returns: {got}')
print('DEFECT REPRODUCED' if got != expected else 'not reproduced')
