"""_from_text calculates the ranges while loading, before from_file has set
the plugins: a model with a plugin function in a cell of a range can not be
loaded from yml/json (and not be saved as pkl, to_file loads the text)."""
import os
import sys

sys.path.insert(0, os.path.dirname(os.path.abspath(__file__)))

from _common import compiled, save_load  # noqa: E402

cells = {'A1': 1, 'A2': '=TRIPLE(A1)', 'A3': 5, 'B1': '=SUM(A1:A3)', 'C1': '=B1+1'}
plugins = ('baseline_plugin', )
reference = compiled(cells, 'S!C1', plugins=plugins)
trimmed = compiled(cells, 'S!C1', plugins=plugins)
trimmed.trim_graph(['S!A1'], ['S!C1'])
reference.set_value('S!A1', 2)
for ext in ('yml', 'json', 'pkl'):
    try:
        loaded = save_load(trimmed, ext, plugins=plugins)
        loaded.set_value('S!A1', 2)
        print(f'{ext}: expected {reference.evaluate("S!C1")!r} got {loaded.evaluate("S!C1")!r}')
    except Exception as exc:
        print(f'{ext}: expected C1 = {reference.evaluate("S!C1")!r}, got '
              f'{type(exc).__name__}: {str(exc).splitlines()[-1][:90]}')
