"""The outputs are evaluated once, then a cell that is not an input gets a new
value and trim_graph is called without another evaluate: the not yet
calculated dependants of that cell are frozen to None (a blank), not to their
value."""
from _common import compiled, save_load

cells = {'A1': 1, 'A2': 3, 'B1': '=A2*2', 'C1': '=B1+A1'}
reference = compiled(cells, 'S!C1')
trimmed = compiled(cells, 'S!C1')
for m in (reference, trimmed):
    m.set_value('S!A2', 4)
trimmed.trim_graph(['S!A1'], ['S!C1'])
loaded = save_load(trimmed, 'yml')
for value in (1, 5):
    for m in (reference, trimmed, loaded):
        m.set_value('S!A1', value)
    print(f'A1={value}: expected (untrimmed) {reference.evaluate("S!C1")!r}  '
          f'trimmed {trimmed.evaluate("S!C1")!r}  '
          f'trimmed+saved+loaded {loaded.evaluate("S!C1")!r}')
