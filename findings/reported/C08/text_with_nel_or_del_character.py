"""Text holding U+0085 (NEL) comes back from yml/json/pkl with a blank in its
place; text holding U+007F or U+FFFE makes the json file unloadable."""
from _common import compiled, save_load

for ch in ('\x85', '\x7f', '￾'):
    cells = {'A1': 1, 'D1': 'a' + ch + 'b', 'B1': '=D1&"!"', 'C1': '=B1&A1'}
    reference = compiled(cells, 'S!C1')
    trimmed = compiled(cells, 'S!C1')
    trimmed.trim_graph(['S!A1'], ['S!C1'])
    for ext in ('yml', 'json', 'pkl'):
        try:
            got = repr(save_load(trimmed, ext).evaluate('S!C1'))
        except Exception as exc:
            got = f'{type(exc).__name__}: {str(exc).splitlines()[0][:70]}'
        print(f'{ch!r} {ext}: expected {reference.evaluate("S!C1")!r}  trimmed '
              f'{trimmed.evaluate("S!C1")!r}  trimmed+saved+loaded {got}')
