"""A value given to an input range with set_value(..., set_as_range=True)
lives only in the range node, which is not written by to_file: the loaded
trimmed model builds the range from its (unchanged) cells again."""
from _common import compiled, save_load

cells = {'A1': 1, 'A2': 2, 'B1': '=SUM(A1:A2)', 'B2': '=7*6', 'C1': '=B1+B2'}
reference = compiled(cells, 'S!C1')
trimmed = compiled(cells, 'S!C1')
for m in (reference, trimmed):
    m.set_value('S!A1:A2', [5, 6], set_as_range=True)
    m.evaluate('S!C1')
trimmed.trim_graph(['S!A1:A2'], ['S!C1'])
loaded = save_load(trimmed, 'yml')
print(f'after set_value(A1:A2, [5, 6], set_as_range=True): expected (untrimmed) '
      f'{reference.evaluate("S!C1")!r}  trimmed {trimmed.evaluate("S!C1")!r}  '
      f'trimmed+saved+loaded {loaded.evaluate("S!C1")!r}')
