"""A cell frozen to a numpy integer (result of SUMPRODUCT) makes to_file raise,
the trimmed model can not be saved at all (the untrimmed one can: formula
cells are written as formulas)."""
from _common import compiled, save_load

cells = {'A1': 1, 'E1': 1, 'E2': 2, 'F1': 3, 'F2': 4,
         'B1': '=SUMPRODUCT(E1:E2,F1:F2)', 'C1': '=B1+A1'}
reference = compiled(cells, 'S!C1')
save_load(reference, 'yml')
print('untrimmed model: saved and loaded, C1 =', reference.evaluate('S!C1'))
trimmed = compiled(cells, 'S!C1')
trimmed.trim_graph(['S!A1'], ['S!C1'])
print('frozen B1 is', repr(trimmed.cell_map['S!B1'].value))
for ext in ('yml', 'json', 'pkl'):
    try:
        loaded = save_load(trimmed, ext)
        print(ext, 'expected', reference.evaluate('S!C1'), 'got', loaded.evaluate('S!C1'))
    except Exception as exc:
        print(f'{ext}: expected C1 = {reference.evaluate("S!C1")}, got '
              f'{type(exc).__name__}: {str(exc)[:80]}')
