"""A cell that trim_graph freezes to a text starting with '=' is written as is
and read back by from_file as a (python code) formula."""
from _common import compiled, save_load

cells = {'A1': 1, 'B1': '="="&"1+1"', 'C1': '=B1&" / "&A1'}
reference = compiled(cells, 'S!C1')
trimmed = compiled(cells, 'S!C1')
trimmed.trim_graph(['S!A1'], ['S!C1'])
for ext in ('yml', 'json', 'pkl'):
    loaded = save_load(trimmed, ext)
    for value in (1, 5):
        for m in (reference, trimmed, loaded):
            m.set_value('S!A1', value)
        print(f'{ext} A1={value}: expected (untrimmed) {reference.evaluate("S!C1")!r}  '
              f'trimmed {trimmed.evaluate("S!C1")!r}  '
              f'trimmed+saved+loaded {loaded.evaluate("S!C1")!r}')
