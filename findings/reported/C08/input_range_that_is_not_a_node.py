"""An input range that no formula uses as a range (its cells are read one by
one) is not in cell_map: trim_graph only warns, freezes the formulas reading
the cells and removes the cells, set_value then fails."""
from _common import compiled

cells = {'A1': 1, 'A2': 2, 'B1': '=A1+A2', 'C1': '=B1*2'}
reference = compiled(cells, 'S!C1')
trimmed = compiled(cells, 'S!C1')
trimmed.trim_graph(['S!A1:A2'], ['S!C1'])
reference.set_value('S!A1:A2', [5, 6])
print('expected (untrimmed) after set_value(A1:A2, [5, 6]):', reference.evaluate('S!C1'))
print('cells of the trimmed model:', sorted(trimmed.cell_map))
try:
    trimmed.set_value('S!A1:A2', [5, 6])
    print('trimmed:', trimmed.evaluate('S!C1'))
except AssertionError as exc:
    print('trimmed: set_value AssertionError:', str(exc)[:70], '...  C1 =', trimmed.evaluate('S!C1'))
