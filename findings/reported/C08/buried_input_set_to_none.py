"""A buried (formula) input that no other input reaches is frozen to a value.
set_value(input, None) makes the untrimmed model calculate the formula again,
the trimmed model returns a blank."""
from _common import compiled, save_load

cells = {'A1': 1, 'B1': '=A1*2', 'C1': '=B1+1'}
reference = compiled(cells, 'S!C1')
trimmed = compiled(cells, 'S!C1')
trimmed.trim_graph(['S!B1'], ['S!C1'])
loaded = save_load(trimmed, 'yml')
for value in (10, None, 7):
    for m in (reference, trimmed, loaded):
        m.set_value('S!B1', value)
    print(f'B1={value!r}: expected (untrimmed) {reference.evaluate("S!C1")!r}  '
          f'trimmed {trimmed.evaluate("S!C1")!r}  '
          f'trimmed+saved+loaded {loaded.evaluate("S!C1")!r}')
