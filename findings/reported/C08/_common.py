"""helpers shared by the reproducers in this directory"""
import logging
import os
import tempfile

from openpyxl import Workbook

from pycel import ExcelCompiler

logging.disable(logging.CRITICAL)


def workbook(cells, customize=None):
    wb = Workbook()
    ws = wb.active
    ws.title = 'S'
    for addr, value in cells.items():
        ws[addr] = value
    if customize:
        customize(wb)
    return wb


def compiled(cells, outputs, customize=None, **kwargs):
    model = ExcelCompiler(excel=workbook(cells, customize), **kwargs)
    model.evaluate(outputs)
    return model


def save_load(model, ext, **kwargs):
    name = os.path.join(tempfile.mkdtemp(), 'model.' + ext)
    model.to_file(name)
    return ExcelCompiler.from_file(name, **kwargs)
