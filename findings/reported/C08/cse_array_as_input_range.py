"""An input range that is a CSE array formula (a buried range input): its
cells are not built, trim_graph raises KeyError."""
from openpyxl.worksheet.formula import ArrayFormula

from _common import compiled


def array(wb):
    wb['S']['A2'] = ArrayFormula('A2:C2', '=A1:C1*2')


cells = {'A1': 1, 'B1': 2, 'C1': 3, 'D1': 1, 'A3': '=SUM(A2:C2)+D1'}
reference = compiled(cells, 'S!A3', array)
trimmed = compiled(cells, 'S!A3', array)
reference.set_value('S!A2:C2', [7, 8, 9], set_as_range=True)
print('expected (untrimmed) after set_value(A2:C2, [7, 8, 9]):', reference.evaluate('S!A3'))
try:
    trimmed.trim_graph(['S!A2:C2'], ['S!A3'])
    trimmed.set_value('S!A2:C2', [7, 8, 9], set_as_range=True)
    print('trimmed:', trimmed.evaluate('S!A3'))
except Exception as exc:
    print(f'trim_graph: {type(exc).__name__}: {exc}')
