"""Workbook with iterative calculation: the values of formula cells are the
state of the iteration, they are not written by to_file, so the loaded
trimmed model starts again from blanks (accumulator: large difference,
converging cycle: difference below the tolerance but not 'exactly')."""
from openpyxl.workbook.properties import CalcProperties

from _common import compiled, save_load


def iterate(wb):
    wb.calculation = CalcProperties(iterate=True, iterateCount=20, iterateDelta=0.001)


for title, cells, out in (
        ('accumulator', {'A1': 1, 'B1': '=B1+A1', 'C1': '=B1*1'}, 'S!C1'),
        ('converging', {'A1': 10, 'B1': '=(B2+A1)/2', 'B2': '=B1/2', 'C1': '=B1+B2'}, 'S!C1')):
    reference = compiled(cells, out, iterate)
    trimmed = compiled(cells, out, iterate)
    trimmed.trim_graph(['S!A1'], [out])
    loaded = save_load(trimmed, 'yml')
    print(f'{title} initial: expected (untrimmed) {reference.evaluate(out)!r}  '
          f'trimmed {trimmed.evaluate(out)!r}  trimmed+saved+loaded {loaded.evaluate(out)!r}')
    for value in (2, 3):
        for m in (reference, trimmed, loaded):
            m.set_value('S!A1', value)
        print(f'{title} A1={value}: expected (untrimmed) {reference.evaluate(out)!r}  '
              f'trimmed {trimmed.evaluate(out)!r}  trimmed+saved+loaded {loaded.evaluate(out)!r}')
