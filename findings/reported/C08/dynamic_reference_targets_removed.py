"""Cells that an output reaches only through OFFSET / INDIRECT are not
precedents in the graph: trim_graph removes them and the saved model reads
blanks. (The trimmed model itself still has the workbook to fall back on.)"""
from _common import compiled, save_load

for formula in ('=OFFSET(A1,B1,0)', '=INDIRECT("A"&(B1+1))'):
    cells = {'A1': 1, 'A2': 10, 'A3': 20, 'A4': 30, 'B1': 1, 'C1': formula}
    reference = compiled(cells, 'S!C1')
    trimmed = compiled(cells, 'S!C1')
    trimmed.trim_graph(['S!B1'], ['S!C1'])
    loaded = save_load(trimmed, 'yml')
    for value in (1, 2, 3):
        for m in (reference, trimmed, loaded):
            m.set_value('S!B1', value)
        print(f'{formula} B1={value}: expected (untrimmed) {reference.evaluate("S!C1")!r}  '
              f'trimmed {trimmed.evaluate("S!C1")!r}  '
              f'trimmed+saved+loaded {loaded.evaluate("S!C1")!r}')
