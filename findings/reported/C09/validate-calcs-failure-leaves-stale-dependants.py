"""BASELINE, plain mode: validate_calcs() sets cell.value = None and calculates
the cell; when that calculation raises (the exception is caught and reported
in the result) the cell stays unset while its dependants keep their values.
_reset() stops at cells without a value, so a later set_value() on a
precedent does not reach the dependants: they return the old value instead
of failing (or instead of the new value once the failure is over).
"""
import contextlib
import io

from common import ev
from openpyxl import Workbook

import baseline_plugin as plugin
from pycel import ExcelCompiler


def model():
    wb = Workbook()
    ws = wb.active
    ws['A1'] = 1
    ws['A2'] = '=boom(A1)+1'
    ws['A3'] = '=A2*2'
    return ExcelCompiler(excel=wb, plugins=('baseline_plugin',))


plugin.MODE[0] = 'ok'
m = model()
print('A3 =', ev(m, 'A3'))
plugin.MODE[0] = 'fail'
with contextlib.redirect_stdout(io.StringIO()):
    failed = m.validate_calcs(output_addrs=['Sheet!A2'])
print('validate_calcs(A2) reports', list(failed))
m.set_value('Sheet!A1', 100)
print('boom() still fails, A1 := 100')
print('  expected A3: pycel error (fresh model: %s)' % ev(model(), 'A3'))
print('  pycel    A3:', ev(m, 'A3'))
plugin.MODE[0] = 'ok'
print('boom() works again')
print('  expected A3: 202')
print('  pycel    A3:', ev(m, 'A3'), '  (A2 is', ev(m, 'A2'), ')')
