"""BASELINE (by design?), plain mode: set_value() over a failing FORMULA cell
keeps the formula.  The constant holds only until a precedent of the cell is
changed, recalculate() is called or the model is saved and loaded: then the
formula is calculated (and fails) again, unlike a fresh model in which the
cell is that constant.  (For iterative mode this is the known behaviour.)
"""
import os
import shutil
import tempfile

from common import ev
from openpyxl import Workbook

import baseline_plugin as plugin
from pycel import ExcelCompiler


def model(a2='=boom(A1)+1'):
    wb = Workbook()
    ws = wb.active
    ws['A1'] = 1
    ws['A2'] = a2
    ws['A3'] = '=A2*2'
    return ExcelCompiler(excel=wb, plugins=('baseline_plugin',))


plugin.MODE[0] = 'fail'
m = model()
print('A3 =', ev(m, 'A3'))
m.set_value('Sheet!A2', 5)
print('A2 := 5, A3 =', ev(m, 'A3'), '(expected 10)')

tmp = tempfile.mkdtemp(dir=os.path.dirname(os.path.abspath(__file__)))
fn = os.path.join(tmp, 'model.yml')
m.to_file(fn)
loaded = ExcelCompiler.from_file(fn, plugins=('baseline_plugin',))
print('after to_file/from_file: expected A3 = 10, pycel:', ev(loaded, 'A3'))

m.set_value('Sheet!A1', 7)
fresh = model(a2=5)     # A2 is the constant 5, A3 does not depend on A1
print('A1 := 7: expected A3 =', ev(fresh, 'A3'), ', pycel:', ev(m, 'A3'))
shutil.rmtree(tmp)
