"""BASELINE, two threads on one compiler: the list of captured operator errors
(error_messages in ExcelFormula.build_eval_context) belongs to the compiler,
not to the thread.  Thread 1 evaluates A2, whose formula logged a #DIV/0!
(captured message); between `if error_messages:` and `error_messages.pop()`
thread 2 evaluates the failing cell B1, whose error path empties the list.
Thread 1 then dies with a bare IndexError although A2 does not depend on B1.
(The rendezvous is made deterministic with a str subclass whose __hash__
waits for the other thread.)
"""
import threading

from common import ev
from openpyxl import Workbook

import baseline_plugin as plugin
from pycel import ExcelCompiler

wb = Workbook()
ws = wb.active
ws['A1'] = 1
ws['A2'] = '=slowtext(IFERROR(1/0,A1))'
ws['B1'] = '=boom(A1)'
m = ExcelCompiler(excel=wb, plugins=('baseline_plugin',))
plugin.MODE[0] = 'fail'

result = {}
thread = threading.Thread(target=lambda: result.update(A2=ev(m, 'A2')))
thread.start()
plugin.reached.wait(10)
result['B1'] = ev(m, 'B1')
plugin.go_on.set()
thread.join()
print("expected: A2 = 'text 1', B1 = pycel error")
print('pycel   : A2 = %r, B1 = %r' % (result['A2'], result['B1']))
