"""BASELINE, iterative mode: a cell whose formula evaluates to a REFERENCE
(OFFSET / INDIRECT at the top of the formula) and whose target fails is left
'in progress' for ever.

ExcelCompiler.eval clears the wip flag only for exceptions raised inside
eval_ctx(); _evaluate() follows the returned reference with
self._evaluate(ref_addr) after eval() has returned, so an exception from the
target leaves cell.wip == True (start_calcs() set it, nobody clears it).
From then on the cell is never calculated again and answers None.
"""
from common import ev
from openpyxl import Workbook

import baseline_plugin as plugin
from pycel import ExcelCompiler


def model():
    wb = Workbook()
    ws = wb.active
    ws['A1'] = 1
    ws['A2'] = '=boom(A1)+1'
    ws['A3'] = '=OFFSET(A1,1,0)'        # a reference to A2
    ws['A4'] = '=A3*2'
    ws['A5'] = '=INDIRECT("A2")'
    return ExcelCompiler(excel=wb, plugins=('baseline_plugin',), cycles=True)


plugin.MODE[0] = 'fail'
m = model()
print('while boom() fails')
print('  expected (fresh model): A4, A3, A5 -> pycel error, each time')
print('  pycel, 1st try :', [ev(m, a) for a in ('A4', 'A3', 'A5')])
print('  pycel, 2nd try :', [ev(m, a) for a in ('A4', 'A3', 'A5')])
plugin.MODE[0] = 'ok'
print('after boom() works again')
print('  expected (fresh model): A2=2 A3=2 A4=4 A5=2 ->',
      [ev(model(), a) for a in ('A2', 'A3', 'A4', 'A5')])
print('  pycel                 :', [ev(m, a) for a in ('A2', 'A3', 'A4', 'A5')])

# the same window exists for the cell that stands in for an unbounded range:
# _evaluate_range() gets the used range from eval() and evaluates it afterwards
wb = Workbook()
ws = wb.active
ws['A1'], ws['B1'] = 1, 5
ws['B2'] = '=boom(A1)+1'
ws['C1'] = '=SUM(B:B)'
m = ExcelCompiler(excel=wb, plugins=('baseline_plugin',), cycles=True)
plugin.MODE[0] = 'fail'
print('unbounded range B:B with a failing member, while boom() fails')
print('  expected: C1, B:B, B:B -> pycel error')
print('  pycel   :', [ev(m, a) for a in ('C1', 'B:B', 'B:B')])
plugin.MODE[0] = 'ok'
print('after boom() works again: expected B:B = (5, 2), pycel:', ev(m, 'B:B'))
