"""Plugin functions for the baseline reproducers"""
import threading

from pycel.lib.function_helpers import excel_helper

MODE = ['ok']       # 'ok', 'fail' (RuntimeError), 'interrupt' (KeyboardInterrupt)


@excel_helper()
def boom(x):
    if MODE[0] == 'fail':
        raise RuntimeError('boom')
    if MODE[0] == 'interrupt':
        raise KeyboardInterrupt()
    return x


@excel_helper()
def kw(x, **kwargs):
    return x


reached = threading.Event()
go_on = threading.Event()


class SlowText(str):
    """a text whose hash() takes a while: rendezvous point for two threads"""

    def __hash__(self):
        reached.set()
        go_on.wait(10)
        return str.__hash__(self)

    def __eq__(self, other):
        return str.__eq__(self, other)


@excel_helper()
def slowtext(x):
    return SlowText('text %s' % x)
