"""BASELINE, iterative mode: the wip flags are cleared for `Exception` only.
A KeyboardInterrupt (Ctrl-C during a long evaluation; here raised by a plugin
function) or any other BaseException leaves every cell on the evaluation stack
'in progress' for ever: they are never calculated again and answer with their
previous value (None), so their dependants silently get wrong values.
In plain mode the same interruption does no harm.
"""
from common import ev
from openpyxl import Workbook

import baseline_plugin as plugin
from pycel import ExcelCompiler


def model(cycles):
    wb = Workbook()
    ws = wb.active
    ws['A1'] = 1
    ws['A2'] = '=boom(A1)+1'
    ws['A3'] = '=A2*2'
    ws['A4'] = '=SUM(A1:A3)'
    return ExcelCompiler(excel=wb, plugins=('baseline_plugin',), cycles=cycles)


for cycles in (False, True):
    m = model(cycles)
    plugin.MODE[0] = 'interrupt'
    first = ev(m, 'A4')
    plugin.MODE[0] = 'ok'
    print('cycles=%s: interrupted evaluate(A4): %s' % (cycles, first))
    print('   afterwards, expected A2=2 A3=4 A4=7, pycel:',
          [ev(m, a) for a in ('A2', 'A3', 'A4')])
