"""BASELINE (marginal): errors found while the formula is compiled / its
functions are loaded are raised outside the try block of eval_func, so the
cell itself fails with a bare ValueError / RuntimeError, while its dependants
fail with FormulaEvalError.
"""
from common import ev
from openpyxl import Workbook

from pycel import ExcelCompiler

wb = Workbook()
ws = wb.active
ws['A1'] = 1
ws['A2'] = '=kw(A1)+1'              # plugin function with **kwargs
ws['A3'] = '=A2*2'
ws['B3'] = '=SUBTOTAL(0,A1:A1)'     # invalid function number
ws['B4'] = '=B3+1'
m = ExcelCompiler(excel=wb, plugins=('baseline_plugin',))
print('expected: one of pycel\'s errors for each of A2, A3, B3, B4')
for addr in ('A2', 'A2', 'A3', 'B3', 'B3', 'B4'):
    print('  ', addr, ev(m, addr))
