import logging
import os
import sys

sys.path.insert(0, os.path.dirname(os.path.abspath(__file__)))
logging.disable(logging.CRITICAL)

from pycel.excelutil import PyCelException  # noqa: E402


def ev(model, addr):
    try:
        return model.evaluate('Sheet!' + addr)
    except PyCelException as exc:
        return 'pycel error ' + type(exc).__name__
    except BaseException as exc:
        return 'BARE %s: %s' % (type(exc).__name__, str(exc)[:70])
