"""BASELINE (adjacent to C09: a spurious UnknownFunction after save/load):
ExcelCompiler.from_file(name, plugins=...) sets _plugin_modules after the
model has been built from the yaml/json text.  Building evaluates unbounded
ranges and CSE array formulas, which creates (and caches) the evaluation
context WITHOUT the plugins.  Every plugin function is then an unknown
function in the loaded model.  The pickle format is not affected.
"""
import os
import shutil
import tempfile

from common import ev
from openpyxl import Workbook

import baseline_plugin as plugin
from pycel import ExcelCompiler

plugin.MODE[0] = 'ok'
tmp = tempfile.mkdtemp(dir=os.path.dirname(os.path.abspath(__file__)))
for variant in ('no range', 'unbounded range', 'CSE array'):
    wb = Workbook()
    ws = wb.active
    ws['A1'], ws['A2'] = 1, 2
    ws['B1'] = '=boom(A1)+1'
    if variant == 'unbounded range':
        ws['C1'] = '=SUM(A:A)'
    if variant == 'CSE array':
        ws['D1'] = '=A1:A2*2'
        ws.formula_attributes['D1'] = {'t': 'array', 'ref': 'D1:D2'}
    m = ExcelCompiler(excel=wb, plugins=('baseline_plugin',))
    print('%-16s original: B1 = %s' % (variant, ev(m, 'B1')), ev(m, 'C1'), ev(m, 'D2'))
    for ext in ('yml', 'json', 'pkl'):
        fn = os.path.join(tmp, variant.replace(' ', '_') + '.' + ext)
        m.to_file(fn)
        loaded = ExcelCompiler.from_file(fn, plugins=('baseline_plugin',))
        print('%-16s %-4s expected B1 = 2, pycel: %s' % (variant, ext, ev(loaded, 'B1')))
shutil.rmtree(tmp)
