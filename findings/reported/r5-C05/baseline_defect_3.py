"""Baseline defect 3 (present in the UNMODIFIED tree): two of the access paths
of an unbounded range raise instead of giving the clipped range.

 a) a sheet-less whole column / whole row ('A:A', '1:1') is not taken to the
    active sheet like a sheet-less 'A3' or 'A1:A3' is: AddressRange.create()
    raises ValueError('A is not a valid coordinate or range'), while
    'S!A:A' with S the active sheet works.
 b) an unbounded range which lies outside of the used area ('S!D:D' with
    A1:B3 used) raises AttributeError("'str' object has no attribute
    'coordinate'"): the intersection with the used area is the '#NULL!' string.
"""
import logging
import sys

from openpyxl import Workbook

from pycel import ExcelCompiler

logging.getLogger('pycel').setLevel(logging.CRITICAL)

wb = Workbook()
ws = wb.active
ws.title = 'S'
ws['A1'] = 1
ws['A2'] = 2
ws['A3'] = '=A1+A2'
ws['B1'] = '=SUM(A:A)'
model = ExcelCompiler(excel=wb)

ok = True
print("S!A:A ->", model.evaluate('S!A:A'), "  A3 ->", model.evaluate('A3'),
      "  A1:A3 ->", model.evaluate('A1:A3'))
for address in ('A:A', '1:1', 'S!D:D', 'S!5:5'):
    try:
        print(address, '->', model.evaluate(address))
    except Exception as exc:
        ok = False
        print(address, '->', type(exc).__name__, exc)
sys.exit(0 if ok else 1)
