"""Baseline defect 2 (present in the UNMODIFIED tree): whether a cell can be
evaluated at all depends on the order of first evaluation.

Cells are calculated by recursion through their precedents, a handful of
python frames per cell.  A plain acyclic chain A2=A1+1, A3=A2+1, ... of a few
hundred cells evaluated from its end first fails with a FormulaEvalError
('maximum recursion depth exceeded', default recursion limit of 1000), while
the same model gives the value when a cell half way was evaluated before.
And repeating is not stable either: after the failure, evaluating the middle
and then the end again succeeds.
"""
import logging
import sys

from openpyxl import Workbook

from pycel import ExcelCompiler

logging.getLogger('pycel').setLevel(logging.CRITICAL)
N = 400


def model():
    wb = Workbook()
    ws = wb.active
    ws.title = 'S'
    ws['A1'] = 1
    for i in range(2, N + 1):
        ws[f'A{i}'] = f'=A{i - 1}+1'
    return ExcelCompiler(excel=wb)


bottom_up = model()
for i in range(100, N + 1, 100):
    value = bottom_up.evaluate(f'S!A{i}')
print('in steps of 100:', value)

top_first = model()
try:
    print('end of the chain first:', top_first.evaluate(f'S!A{N}'))
    ok = True
except Exception as exc:
    print('end of the chain first:', type(exc).__name__,
          str(exc).strip().splitlines()[-1][:100])
    ok = False
sys.exit(0 if ok else 1)
