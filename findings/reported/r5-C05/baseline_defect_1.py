"""Baseline defect 1 (present in the UNMODIFIED tree): the used area an unbounded
range is clipped to depends on what was compiled before.

ExcelOpxWrapper.get_range() reads cells with worksheet[coordinate], and openpyxl
creates the cells it is asked for.  Reading a cell or a range that reaches
beyond the used area (evaluate('S!D10'), or a formula =SUM(A1:A20)) therefore
grows worksheet.max_row / max_column.  max_col_row() is taken (and cached) when
the first unbounded range of the sheet is compiled, so:

    evaluate('S!A:A') first              -> (1, 2, 3)
    evaluate('S!B1') [=SUM(A1:A20)] first -> (1, 2, 3, None, ... ) 20 long

The elements which exist in both agree, but A:A / 1:1 'clipped to the used
area' is not one value: it depends on the order of first evaluation.
"""
import logging
import sys

from openpyxl import Workbook

from pycel import ExcelCompiler

logging.getLogger('pycel').setLevel(logging.CRITICAL)


def model():
    wb = Workbook()
    ws = wb.active
    ws.title = 'S'
    ws['A1'] = 1
    ws['A2'] = 2
    ws['A3'] = '=A1+A2'
    ws['B1'] = '=SUM(A1:A20)'
    return ExcelCompiler(excel=wb)


one = model()
column_first = one.evaluate('S!A:A')
one.evaluate('S!B1')

two = model()
two.evaluate('S!B1')
column_last = two.evaluate('S!A:A')

three = model()
three.evaluate('S!D10')     # an empty cell outside of the used area
column_after_cell = three.evaluate('S!A:A')
row_after_cell = three.evaluate('S!1:1')

print('A:A evaluated first          :', column_first)
print('A:A after =SUM(A1:A20)       :', column_last)
print('A:A after evaluate("S!D10")  :', column_after_cell)
print('1:1 after evaluate("S!D10")  :', row_after_cell)
ok = column_first == column_last == column_after_cell and row_after_cell == (1, 6)
sys.exit(0 if ok else 1)
