"""Baseline defect (unmodified tree): a text constant that begins with '='
(put into the model with set_value) is written to yml/json/pkl as it is, and
read back as python code: the loaded model raises where the saved model
returns the text.  Exits non-zero on the unmodified tree.
"""
import logging, os, shutil, tempfile
from openpyxl import Workbook
from pycel import ExcelCompiler
logging.getLogger('pycel').setLevel(logging.CRITICAL)

tmp = tempfile.mkdtemp()
try:
    wb = Workbook(); ws = wb.active; ws.title = 'Sheet1'
    ws['A1'] = 1; ws['A3'] = 'txt'; ws['B3'] = '=LEN(A3)'
    xlsx = os.path.join(tmp, 'w.xlsx'); wb.save(xlsx)
    model = ExcelCompiler(xlsx)
    model.evaluate('Sheet1!B3')
    model.set_value('Sheet1!A3', '=A1*2')
    expected = [model.evaluate('Sheet1!A3'), model.evaluate('Sheet1!B3')]
    assert expected == ['=A1*2', 5]
    for ext in ('yml', 'json', 'pkl'):
        name = os.path.join(tmp, 'm.' + ext)
        model.to_file(name)
        loaded = ExcelCompiler.from_file(name)
        got = [loaded.evaluate('Sheet1!A3'), loaded.evaluate('Sheet1!B3')]
        assert got == expected, (ext, got, expected)
finally:
    shutil.rmtree(tmp, ignore_errors=True)
print('ok')
