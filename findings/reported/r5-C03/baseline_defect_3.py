"""Baseline defect (unmodified tree): to_file/from_file take a name for one
with an extension when it merely ENDS in the letters of one (endswith('yml'),
no dot): to_file('.../myyml') writes yaml into the file 'myyml', from_file of
the same name then looks for 'myyml.yml' and raises FileNotFoundError.
Exits non-zero on the unmodified tree.
"""
import logging, os, shutil, tempfile
from openpyxl import Workbook
from pycel import ExcelCompiler
logging.getLogger('pycel').setLevel(logging.CRITICAL)

tmp = tempfile.mkdtemp()
try:
    wb = Workbook(); ws = wb.active; ws.title = 'Sheet1'
    ws['A1'] = 1; ws['B1'] = '=A1+1'
    xlsx = os.path.join(tmp, 'w.xlsx'); wb.save(xlsx)
    model = ExcelCompiler(xlsx)
    assert model.evaluate('Sheet1!B1') == 2
    name = os.path.join(tmp, 'myyml')
    model.to_file(name)
    loaded = ExcelCompiler.from_file(name)
    assert loaded.evaluate('Sheet1!B1') == 2
finally:
    shutil.rmtree(tmp, ignore_errors=True)
print('ok')
