"""Baseline defect (unmodified tree), two histories whose state is not saved:

 a) set_value() on a formula cell: the model that is saved returns the value
    that was set (and its dependants are calculated from it), the text file
    holds the formula only, the loaded model returns the formula's result.
 b) iterative models: the values the iteration had reached are not saved, the
    loaded model starts the iteration again from blank cells, so the next
    evaluate() of the saved model and of the loaded model differ.

Exits non-zero on the unmodified tree.
"""
import logging, os, shutil, tempfile
from openpyxl import Workbook
from openpyxl.workbook.properties import CalcProperties
from pycel import ExcelCompiler
logging.getLogger('pycel').setLevel(logging.CRITICAL)

tmp = tempfile.mkdtemp()
failures = []
try:
    wb = Workbook(); ws = wb.active; ws.title = 'Sheet1'
    ws['A1'] = 1; ws['A2'] = 2; ws['C2'] = '=A1+A2'; ws['C3'] = '=C2*2'
    xlsx = os.path.join(tmp, 'w.xlsx'); wb.save(xlsx)
    model = ExcelCompiler(xlsx)
    model.evaluate('Sheet1!C3')
    model.set_value('Sheet1!C2', 99)
    expected = [model.evaluate('Sheet1!C2'), model.evaluate('Sheet1!C3')]
    assert expected == [99, 198]
    name = os.path.join(tmp, 'm.yml')
    model.to_file(name)
    loaded = ExcelCompiler.from_file(name)
    got = [loaded.evaluate('Sheet1!C2'), loaded.evaluate('Sheet1!C3')]
    if got != expected:
        failures.append(('a', got, expected))

    wb = Workbook(); ws = wb.active; ws.title = 'Sheet1'
    ws['A1'] = '=0.5*B1+1'; ws['B1'] = '=A1'
    wb.calculation = CalcProperties(
        iterate=True, iterateCount=100, iterateDelta=0.001)
    xlsx = os.path.join(tmp, 'c.xlsx'); wb.save(xlsx)
    model = ExcelCompiler(xlsx)
    model.evaluate('Sheet1!A1')
    name = os.path.join(tmp, 'c.yml')
    model.to_file(name)
    loaded = ExcelCompiler.from_file(name)
    got, expected = loaded.evaluate('Sheet1!A1'), model.evaluate('Sheet1!A1')
    if got != expected:
        failures.append(('b', got, expected))
finally:
    shutil.rmtree(tmp, ignore_errors=True)
assert not failures, failures
print('ok')
