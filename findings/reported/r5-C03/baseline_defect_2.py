"""Baseline defect (unmodified tree): a model which holds a range over a
formula that can not be calculated (here an unknown function) is saved by
to_file (the text file is written), but can not be read back, not from yml,
json or pkl: _from_text calculates every range while loading and the failure
aborts the load (to_file for pkl fails for the same reason), although the
other saved cells (C2, C3) evaluate fine in the model that was saved.
Exits non-zero on the unmodified tree.
"""
import logging, os, shutil, tempfile
from openpyxl import Workbook
from pycel import ExcelCompiler
logging.getLogger('pycel').setLevel(logging.CRITICAL)

tmp = tempfile.mkdtemp()
try:
    wb = Workbook(); ws = wb.active; ws.title = 'Sheet1'
    ws['A1'] = 1; ws['A2'] = 2
    ws['B1'] = '=FOO(A1)'; ws['B2'] = '=A2*2'
    ws['C1'] = '=SUM(B1:B2)'; ws['C2'] = '=A1+A2'; ws['C3'] = '=C2*2'
    xlsx = os.path.join(tmp, 'w.xlsx'); wb.save(xlsx)
    model = ExcelCompiler(xlsx)
    assert model.evaluate('Sheet1!C2') == 3
    try:
        model.evaluate('Sheet1!C1')
    except Exception:
        pass
    assert model.evaluate('Sheet1!C3') == 6
    for ext in ('yml', 'json', 'pkl'):
        name = os.path.join(tmp, 'm.' + ext)
        model.to_file(name)
        loaded = ExcelCompiler.from_file(name)
        assert loaded.evaluate('Sheet1!C3') == 6
finally:
    shutil.rmtree(tmp, ignore_errors=True)
print('ok')
