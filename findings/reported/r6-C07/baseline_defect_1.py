"""Baseline defect (UNMODIFIED tree), exits 1 there.

pycel.lib.function_helpers.apply_meta() stores the name space of the formula a
lib function is being loaded for in the function's metadata dict
(`meta['name_space'] = name_space`).  That dict hangs on the function object of
the lib module (`f.excel_func_meta`), so it is one dict for the whole process,
and every load of the function for another formula - of any workbook, on any
thread - overwrites it.  INDEX() (lib/lookup.py) and CELL() (lib/information.py)
take `_C_` from there (`cell.excel_func_meta['name_space']['_C_']`) when they
are handed a reference, so they resolve the reference in the workbook which
loaded the function LAST, not in the workbook of the formula being evaluated.

Needs: the function is handed an address (here from OFFSET, a computed
reference), the formula of workbook A is already loaded (evaluated once),
another workbook loads a formula with the same function, and then A calculates
its formula again (after a set_value(), or in the next pass of an iterative
evaluation).  Here: thread A evaluates, thread B evaluates, thread A changes an
input and evaluates again, and gets the number from B's workbook.

(With the change in patch.diff this program happens to pass: both workbooks
then share one name space which is re-bound on every evaluation.)
"""
import sys
import threading

import openpyxl

from pycel import ExcelCompiler


def workbook(scale):
    wb = openpyxl.Workbook()
    ws = wb.active
    ws.title = 'Sheet1'
    ws['A1'] = 1 * scale
    ws['A2'] = 2 * scale
    ws['A3'] = 3 * scale
    ws['B1'] = '=CELL("contents",OFFSET(A1,1,0))+A3'
    return wb


def on_thread(func, *args):
    result = []
    thread = threading.Thread(target=lambda: result.append(func(*args)))
    thread.start()
    thread.join()
    return result[0]


def main():
    model_a = ExcelCompiler(excel=workbook(1))
    model_b = ExcelCompiler(excel=workbook(1000))

    first_a = on_thread(model_a.evaluate, 'Sheet1!B1')      # 2 + 3
    first_b = on_thread(model_b.evaluate, 'Sheet1!B1')      # 2000 + 3000

    def again():
        model_a.set_value('Sheet1!A3', 4)
        return model_a.evaluate('Sheet1!B1')                # 2 + 4

    second_a = on_thread(again)
    print(first_a, first_b, second_a)
    assert (first_a, first_b) == (5, 5000)
    if second_a != 6:
        print(f'workbook A calculated {second_a} from a cell of workbook B, '
              f'alone it gives 6')
        return 1
    return 0


if __name__ == '__main__':
    sys.exit(main())
