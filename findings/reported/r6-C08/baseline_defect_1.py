"""Baseline defect (unmodified tree), property C08, save / load path.

A formula cell which does not depend on an input and evaluates to a text that
starts with '=' (here ="="&"1+1" -> the text '=1+1') is frozen by trim_graph
to that text.  _to_text() writes the frozen text as is, and on load
_CompiledImporter._get_cell() takes every string starting with '=' for
(python) formula code.  The trimmed model answers correctly before the round
trip ('=1+11'), after to_file() / from_file() (yml, json and pkl) the frozen
cell is calculated as the expression 1+1, and the output is '21'.  With a text
like '=A1' evaluating the output of the loaded model raises (NameError ->
UnknownFunction / FormulaEvalError).

Exits non-zero on the unmodified tree.
"""
import logging
import os
import shutil
import tempfile

from openpyxl import Workbook

from pycel import ExcelCompiler

logging.getLogger('pycel').setLevel(logging.CRITICAL)


def main(tmp):
    wb = Workbook()
    ws = wb.active
    ws.title = 'S'
    ws['A1'] = 1
    ws['B1'] = '="="&"1+1"'
    ws['C1'] = '=B1&A1'
    xlsx = os.path.join(tmp, 'book.xlsx')
    wb.save(xlsx)

    untrimmed = ExcelCompiler(filename=xlsx)
    assert untrimmed.evaluate('S!C1') == '=1+11'

    trimmed = ExcelCompiler(filename=xlsx)
    assert trimmed.evaluate('S!C1') == '=1+11'
    trimmed.trim_graph(['S!A1'], ['S!C1'])
    assert trimmed.evaluate('S!C1') == '=1+11'

    failures = []
    for file_type in ('yml', 'json', 'pkl'):
        saved = os.path.join(tmp, file_type + '_model')
        trimmed.to_file(saved, file_types=(file_type, ))
        loaded = ExcelCompiler.from_file(saved)
        for value in (1, 2):
            untrimmed.set_value('S!A1', value)
            loaded.set_value('S!A1', value)
            expected = untrimmed.evaluate('S!C1')
            try:
                got = loaded.evaluate('S!C1')
            except Exception as exc:
                got = f'{type(exc).__name__}'
            if got != expected:
                failures.append((file_type, value, expected, got))
    for failure in failures:
        print('%s: input %r: untrimmed %r, trimmed + loaded %r' % failure)
    return 1 if failures else 0


if __name__ == '__main__':
    tmp_dir = tempfile.mkdtemp()
    try:
        code = main(tmp_dir)
    finally:
        shutil.rmtree(tmp_dir, ignore_errors=True)
    raise SystemExit(code)
