"""Baseline C06: a generator nested in the address list is exhausted by the first pass.

Acyclic workbook A1 = 1, A2 = A1+1, A3 = A2+1.  evaluate([generator, 'S!A1']):
plain evaluation returns [(2, 3), 1]; iterative evaluation walks the address
structure once per pass, the first evaluation of a model takes two passes, so the
generator is empty in the pass whose results are returned.
"""
import logging

from openpyxl import Workbook

from pycel import ExcelCompiler

logging.disable(logging.CRITICAL)


def compiler(iterate):
    wb = Workbook()
    ws = wb.active
    ws.title = 'S'
    ws['A1'] = 1
    ws['A2'] = '=A1+1'
    ws['A3'] = '=A2+1'
    if iterate:
        wb.calculation.iterate = True
    return ExcelCompiler(excel=wb)


results = {}
for iterate in (False, True):
    c = compiler(iterate)
    results[iterate] = c.evaluate([(a for a in ('S!A2', 'S!A3')), 'S!A1'])

print('plain evaluation     (expected):', results[False])
print('iterative evaluation (pycel)   :', results[True])
print('VIOLATION' if results[True] != results[False] else 'same')
