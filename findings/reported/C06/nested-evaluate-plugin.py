"""Baseline C06: an iterative evaluate() nested in another one lifts the pass limit.

Outer workbook: A1 = 0.9*A1 + SUBMODEL(1), iterative, 3 iterations, tolerance 1e-12.
SUBMODEL is a plugin function that evaluates another ExcelCompiler which also has
iterative calculation on (1000 iterations).  The pass bookkeeping is one thread-local
object for all compilers, so the inner evaluate() overwrites the outer iteration
number and limit in every pass.  Every pass of the outer model evaluates A1 (and so
calls SUBMODEL) exactly once, so the number of calls is the number of passes.
"""
import logging
import os
import sys

from openpyxl import Workbook

sys.path.insert(0, os.path.dirname(os.path.abspath(__file__)))
import baseline_submodel_plugin  # noqa: E402

from pycel import ExcelCompiler  # noqa: E402

logging.disable(logging.CRITICAL)

wb = Workbook()
ws = wb.active
ws.title = 'S'
ws['A1'] = '=0.9*A1+SUBMODEL(1)'
wb.calculation.iterate = True
wb.calculation.iterateCount = 3
wb.calculation.iterateDelta = 1e-12

c = ExcelCompiler(excel=wb, plugins=('baseline_submodel_plugin', ))
value = c.evaluate('S!A1', iterations=3)
passes = baseline_submodel_plugin.calls[0]
print('expected: at most 3 passes, A1 = third iterate = about 5.42')
print(f'pycel   : {passes} passes, A1 = {value!r}')
print('VIOLATION' if passes > 3 else 'ok')
