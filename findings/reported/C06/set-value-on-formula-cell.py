"""Baseline C06: set_value() over a formula cell of an acyclic workbook.

A1 = 1, A2 = A1+1, A3 = A2+1, B1 = SUM(A1:A3).  Plain evaluation keeps the value
written over the formula of A2 until one of A2's precedents changes, iterative
evaluation calculates A2 again with the next evaluate(), so the two modes differ
after the history  evaluate, set_value(A2, 10), evaluate.
"""
import logging

from openpyxl import Workbook

from pycel import ExcelCompiler

logging.disable(logging.CRITICAL)


def compiler(iterate):
    wb = Workbook()
    ws = wb.active
    ws.title = 'S'
    ws['A1'] = 1
    ws['A2'] = '=A1+1'
    ws['A3'] = '=A2+1'
    ws['B1'] = '=SUM(A1:A3)'
    if iterate:
        wb.calculation.iterate = True
    return ExcelCompiler(excel=wb)


results = {}
for iterate in (False, True):
    c = compiler(iterate)
    first = c.evaluate('S!B1')
    c.set_value('S!A2', 10)
    results[iterate] = (first, c.evaluate('S!B1'), c.evaluate('S!A2'))

print('plain evaluation     (expected): (B1, B1 after set_value(A2, 10), A2) =', results[False])
print('iterative evaluation (pycel)   : (B1, B1 after set_value(A2, 10), A2) =', results[True])
print('VIOLATION' if results[True] != results[False] else 'same')
