"""plugin for nested-evaluate-plugin.py: SUBMODEL() evaluates a second, iterative model"""
from openpyxl import Workbook

from pycel import ExcelCompiler

calls = [0]
_inner = None


def _get_inner():
    global _inner
    if _inner is None:
        wb = Workbook()
        ws = wb.active
        ws.title = 'I'
        ws['A1'] = '=0.5*B1+1'
        ws['B1'] = '=0.5*A1+1'
        wb.calculation.iterate = True
        wb.calculation.iterateCount = 1000
        wb.calculation.iterateDelta = 1e-9
        _inner = ExcelCompiler(excel=wb)
    return _inner


def submodel(x):
    calls[0] += 1
    return _get_inner().evaluate('I!A1')    # about 2
