"""Baseline C06: evaluate(..., tolerance=0) / iterations=0 are taken as 'not given'.

A1 = 0.5*B1+1, B1 = 0.5*A1+1 (fixed point 2), workbook settings 100 iterations,
tolerance 0.001.  With tolerance=0 requested and 1000 iterations allowed evaluate
may only stop before pass 1000 when no cell moved at all, which is the case at
the value 2.0 exactly (reached after about 54 passes, tolerance=1e-300 does that).
pycel falls back to the tolerance of the workbook (`tolerance or ...`) and stops
while the cells still move by 1e-4.
"""
import logging

from openpyxl import Workbook

from pycel import ExcelCompiler

logging.disable(logging.CRITICAL)


def compiler():
    wb = Workbook()
    ws = wb.active
    ws.title = 'S'
    ws['A1'] = '=0.5*B1+1'
    ws['B1'] = '=0.5*A1+1'
    wb.calculation.iterate = True
    wb.calculation.iterateCount = 100
    wb.calculation.iterateDelta = 0.001
    return ExcelCompiler(excel=wb)


tiny = compiler().evaluate('S!A1', iterations=1000, tolerance=1e-300)
zero = compiler().evaluate('S!A1', iterations=1000, tolerance=0)
print('expected (no cell moved by more than 0 in the last pass):', tiny)
print('pycel evaluate(iterations=1000, tolerance=0)             :', zero)
print('VIOLATION' if zero != tiny else 'same')
