"""Baseline C06: set_value(range, values, set_as_range=True) is lost in iterative mode.

Acyclic workbook A1..A3 = 1,2,3 ; B1 = SUM(A1:A3).  The property says iterative
evaluation returns exactly what plain evaluation returns after any set_value
history, including formulas that read ranges.
"""
import logging

from openpyxl import Workbook

from pycel import ExcelCompiler

logging.disable(logging.CRITICAL)


def compiler(iterate):
    wb = Workbook()
    ws = wb.active
    ws.title = 'S'
    ws['A1'], ws['A2'], ws['A3'] = 1, 2, 3
    ws['B1'] = '=SUM(A1:A3)'
    if iterate:
        wb.calculation.iterate = True
    return ExcelCompiler(excel=wb)


results = {}
for iterate in (False, True):
    c = compiler(iterate)
    first = c.evaluate('S!B1')
    c.set_value('S!A1:A3', [10, 20, 30], set_as_range=True)
    results[iterate] = (first, c.evaluate('S!B1'), c.evaluate('S!A1:A3'))

print('plain evaluation     (expected):', results[False])
print('iterative evaluation (pycel)   :', results[True])
print('VIOLATION' if results[True] != results[False] else 'same')
