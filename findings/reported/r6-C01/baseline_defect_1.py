"""Baseline defect (unmodified tree): an unbounded range (A:A) is bounded to the
used part of the sheet once, when the formula is built.  A blank cell of that
column which lies below the used part can be brought into the model with
evaluate() and then be written with set_value(), and the formula reading A:A
never sees it: it is not a member of the range node that stands for A:A, so
there is no edge from it and its value is not read.

A from-scratch compile of the same workbook with the current input values
(A10 = 5) reads A1:A10 and gives 11, the model with the history keeps 6.

Debatable whether a cell outside the used range counts as an input of the
workbook, but the reference A:A is a written reference and A10 is covered by it.

exit 0: coherent, AssertionError: defect present
"""
import openpyxl

from pycel import ExcelCompiler


def workbook(a10=None):
    wb = openpyxl.Workbook()
    ws = wb.active
    ws.title = 'Sheet1'
    ws['A1'], ws['A2'], ws['A3'] = 1, 2, 3
    if a10 is not None:
        ws['A10'] = a10
    ws['B1'] = '=SUM(A:A)'
    return wb


model = ExcelCompiler(excel=workbook())
assert model.evaluate('Sheet1!B1') == 6
assert model.evaluate('Sheet1!A10') is None     # blank, now in the model
model.set_value('Sheet1!A10', 5)
got = model.evaluate('Sheet1!B1')

expected = ExcelCompiler(excel=workbook(a10=5)).evaluate('Sheet1!B1')
assert expected == 11
assert got == expected, f'SUM(A:A) after set_value(A10, 5): {got}, from scratch: {expected}'
print('ok')
