"""Baseline defect 1 (unmodified tree): the clip area of A:A / 1:1 depends on
what was read before the first unbounded range of the sheet.

excelwrapper.get_range() reads `sheet[coordinate]` from openpyxl, which CREATES
the cells of a written reference that reaches past the used area (here A1:A10 on
a sheet that uses A1:A3), so openpyxl's max_row grows.  max_col_row() is looked
up (and then cached) on the first unbounded range of the sheet.  If a formula
with such a written reference is compiled before, A:A is clipped to A1:A10 with
seven blank cells instead of A1:A3, and formulas for which blanks count see a
different value:

    C1 = SUM(A1:A10)                 (reaches past the used area)
    F1 = SUMPRODUCT((A:A=0)*1)       0 if evaluated first, 7 after C1
    G1 = COUNTIF(A:A,"")             0 / 7
    H1 = MATCH(0,A:A,0)              #N/A / 4

So the value of F1, G1, H1 depends on the first-evaluation order (C05).
Exits non-zero when the values differ.
"""
import logging
import sys

import openpyxl

from pycel import ExcelCompiler

logging.disable(logging.CRITICAL)


def workbook():
    wb = openpyxl.Workbook()
    ws = wb.active
    ws.title = 'S'
    ws['A1'], ws['A2'], ws['A3'] = 1, 2, 3
    ws['C1'] = '=SUM(A1:A10)'
    ws['F1'] = '=SUMPRODUCT((A:A=0)*1)'
    ws['G1'] = '=COUNTIF(A:A,"")'
    ws['H1'] = '=MATCH(0,A:A,0)'
    return wb


def values(first):
    model = ExcelCompiler(excel=workbook())
    for address in first:
        model.evaluate(address)
    return {a: model.evaluate(a) for a in ('S!F1', 'S!G1', 'S!H1', 'S!A:A')}


alone = values(())
after_c1 = values(('S!C1', ))
print('evaluated first    :', alone)
print('evaluated after C1 :', after_c1)
sys.exit(0 if alone == after_c1 else 1)
