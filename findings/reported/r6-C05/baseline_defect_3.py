"""Baseline defect 3 (unmodified tree): after a range could not be built, the
first evaluation of an unrelated cell fails once.

    C1 = SUBTOTAL(B1, A1:A3)   can not be compiled (pycel wants a literal function
                               number), any formula that can not be compiled does
    D1 = C1 + 1
    E1 = A1 + A2               has nothing to do with C1 and D1

evaluate('S!C1:D1') raises, as it has to.  But ExcelCompiler._make_cells() has
queued the range in self.range_todos, and _process_gen_graph() raises the build
failure BEFORE it gets to (and empties) that queue.  The next graph build, for
whatever address, evaluates the queued range after its own wiring and raises the
error of C1: the first evaluate('S!E1') fails, the second one returns 3.

    order  C1:D1, E1, E1   ->  error, error, 3
    order  E1, C1:D1, E1   ->  3, error, 3

The outcome of E1 depends on what was evaluated before, and repeating evaluate()
does not return the same (C05).  Exits non-zero when the outcomes differ.
"""
import logging
import sys

import openpyxl

from pycel import ExcelCompiler

logging.disable(logging.CRITICAL)


def workbook():
    wb = openpyxl.Workbook()
    ws = wb.active
    ws.title = 'S'
    ws['A1'], ws['A2'], ws['A3'] = 1, 2, 3
    ws['B1'] = 9
    ws['C1'] = '=SUBTOTAL(B1,A1:A3)'
    ws['D1'] = '=C1+1'
    ws['E1'] = '=A1+A2'
    return wb


def outcome(model, address):
    try:
        return 'value', model.evaluate(address)
    except Exception as exc:
        return 'error', type(exc).__name__


model = ExcelCompiler(excel=workbook())
e1_first = outcome(model, 'S!E1')

model = ExcelCompiler(excel=workbook())
rng = outcome(model, 'S!C1:D1')
e1_after_range = outcome(model, 'S!E1')
e1_again = outcome(model, 'S!E1')

print('E1 evaluated first            :', e1_first)
print('C1:D1                         :', rng)
print('E1 after the failed range     :', e1_after_range)
print('E1 once more                  :', e1_again)
sys.exit(0 if e1_first == e1_after_range == e1_again else 1)
