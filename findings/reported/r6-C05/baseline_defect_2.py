"""Baseline defect 2 (unmodified tree): a cell of a CSE array formula on a sheet
whose name needs quoting for another reason than a blank (a hyphen, an
apostrophe, ...) can be evaluated as an element of its range but not on its own.

excelwrapper._OpxRange.cell_to_formula() writes the formula of a member cell as
`=index(<sheet>!B1:B3,i,j)` using AddressMixin.quoted_address, and quote_sheet()
only quotes names that hold a blank.  For the sheet `Data-1` the text is
`=index(Data-1!B1:B3,2,1)`, which is tokenized as `Data - 1!B1:B3` and fails with
KeyError 'Worksheet 1 does not exist' (for `Bob's` it is a TokenizerError).
The range B1:B3 itself is compiled from the array formula and evaluates fine.

    B1:B3 = {=A1:A3*2}     C1 = B2+1

    evaluate('Data-1!B1:B3') -> (2, 4, 6)      evaluate('Data-1!B2') -> KeyError
    evaluate('Data-1!C1')    -> KeyError       (5 on a sheet named `S`)

evaluate(cell) and the matching element of evaluate(enclosing range) disagree
(C05).  Exits non-zero when they do.
"""
import logging
import sys

import openpyxl
from openpyxl.worksheet.formula import ArrayFormula

from pycel import ExcelCompiler

logging.disable(logging.CRITICAL)


def workbook(title):
    wb = openpyxl.Workbook()
    ws = wb.active
    ws.title = title
    ws['A1'], ws['A2'], ws['A3'] = 1, 2, 3
    ws['B1'] = ArrayFormula('B1:B3', '=A1:A3*2')
    ws['C1'] = '=B2+1'
    return wb


def outcome(model, address):
    try:
        return 'value', model.evaluate(address)
    except Exception as exc:
        return 'error', type(exc).__name__


status = 0
for title in ('S', 'Data-1', "Bob's"):
    model = ExcelCompiler(excel=workbook(title))
    as_range = outcome(model, f'{title}!B1:B3')
    as_cell = outcome(model, f'{title}!B2')
    dependant = outcome(model, f'{title}!C1')
    print(f'{title!r:9} B1:B3 -> {as_range}   B2 -> {as_cell}   C1 -> {dependant}')
    if as_range[0] != as_cell[0] or (
            as_range[0] == 'value' and as_range[1][1] != as_cell[1]):
        status = 1
sys.exit(status)
