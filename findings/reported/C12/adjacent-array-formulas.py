"""consistent workbook reported as a mismatch: two adjacent CSE array formulas
{=A1:A3*2} in D1:D3 and {=A1:A3*20} in E1:E3. A range D1:E3 spanning both is
taken for ONE array formula, because _OpxRange only checks that every cell
starts with the text of the first one ('=CSE_INDEX(A1:A3*2' is a prefix of
'=CSE_INDEX(A1:A3*20')"""
import os, sys
sys.path.insert(0, os.path.dirname(os.path.abspath(__file__)))
from _mkxlsx import validate

cells = {'A1': 1, 'A2': 2, 'A3': 3,
         'D1': '<c r="D1"><f t="array" ref="D1:D3">A1:A3*2</f><v>2</v></c>',
         'D2': '<c r="D2"><v>4</v></c>', 'D3': '<c r="D3"><v>6</v></c>',
         'E1': '<c r="E1"><f t="array" ref="E1:E3">A1:A3*20</f><v>20</v></c>',
         'E2': '<c r="E2"><v>40</v></c>', 'E3': '<c r="E3"><v>60</v></c>',
         'F1': ('=SUM(D1:E3)', 132)}
print('expected {} (2+4+6+20+40+60 = 132); got:', validate(cells))
