"""tolerance=0 makes validate_calcs report every numeric and logical formula
of a consistent workbook (close_enough: abs(diff) < (1 + rel) * 0 is never true)"""
import os, sys
sys.path.insert(0, os.path.dirname(os.path.abspath(__file__)))
from _mkxlsx import validate

cells = {'A1': 2, 'B1': ('=A1+1', 3), 'C1': ('=A1>1', True), 'D1': ('=A1&"x"', '2x')}
print('expected (stored results are exactly what the formulas give): {}')
print('validate_calcs(tolerance=None):', validate(cells))
print('validate_calcs(tolerance=0)   :', validate(cells, tolerance=0))
