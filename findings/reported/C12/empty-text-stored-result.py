"""a stored result that is the empty text (<c t="str"><f>..</f><v></v></c>) is
read as None = 'no stored result', so altering a stored result to "" is never
reported"""
import os, sys
sys.path.insert(0, os.path.dirname(os.path.abspath(__file__)))
from _mkxlsx import validate

good = {'A1': 2, 'B1': ('=A1+1', 3), 'C1': ('=A1&"x"', '2x'), 'D1': ('=B1*2', 6)}
print('consistent:', validate(good))
for ref in ('B1', 'C1'):
    bad = dict(good)
    bad[ref] = (good[ref][0], '')
    print(f'stored result of {ref} altered to "": expected a mismatch for Sheet1!{ref}, got',
          validate(bad))
