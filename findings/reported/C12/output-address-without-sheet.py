"""an output address given without a sheet name ('B1') makes a consistent
workbook report a KeyError under 'exceptions': the graph is built for
<active sheet>!B1 but the cell is then looked up as 'B1'"""
import os, sys
sys.path.insert(0, os.path.dirname(os.path.abspath(__file__)))
from _mkxlsx import validate

good = {'A1': 2, 'B1': ('=A1+1', 3)}
print("validate_calcs('Sheet1!B1'): ", validate(good, output_addrs='Sheet1!B1'))
print("validate_calcs('B1'), expected {} as well (evaluate('B1') works), got:",
      validate(good, output_addrs='B1'))
