"""hand written xlsx with stored formula results"""
import zipfile
from xml.sax.saxutils import escape

CT = ('<?xml version="1.0" encoding="UTF-8" standalone="yes"?>'
      '<Types xmlns="http://schemas.openxmlformats.org/package/2006/content-types">'
      '<Default Extension="rels" ContentType="application/vnd.openxmlformats-package.relationships+xml"/>'
      '<Default Extension="xml" ContentType="application/xml"/>'
      '<Override PartName="/xl/workbook.xml" ContentType="application/vnd.openxmlformats-officedocument.spreadsheetml.sheet.main+xml"/>'
      '%s</Types>')
RELS = ('<?xml version="1.0" encoding="UTF-8" standalone="yes"?>'
        '<Relationships xmlns="http://schemas.openxmlformats.org/package/2006/relationships">'
        '<Relationship Id="rId1" Type="http://schemas.openxmlformats.org/officeDocument/2006/relationships/officeDocument" Target="xl/workbook.xml"/>'
        '</Relationships>')


def cell_xml(ref, spec):
    """spec: value  or (formula, stored)"""
    if isinstance(spec, str) and spec.startswith('<c '):
        return spec
    if isinstance(spec, tuple):
        formula, stored = spec
        f = '<f>%s</f>' % escape(formula.lstrip('='))
    else:
        f, stored = '', spec
    if stored is None:
        return '<c r="%s">%s</c>' % (ref, f)
    if isinstance(stored, bool):
        return '<c r="%s" t="b">%s<v>%d</v></c>' % (ref, f, stored)
    if isinstance(stored, (int, float)):
        return '<c r="%s">%s<v>%r</v></c>' % (ref, f, stored)
    if isinstance(stored, str) and stored.startswith('#') and f:
        return '<c r="%s" t="e">%s<v>%s</v></c>' % (ref, f, escape(stored))
    if f:
        return '<c r="%s" t="str">%s<v>%s</v></c>' % (ref, f, escape(stored))
    return '<c r="%s" t="inlineStr"><is><t>%s</t></is></c>' % (ref, escape(stored))


def write_xlsx(path, sheets, iterate=False):
    """sheets: {name: {ref: spec}}"""
    import re
    names = list(sheets)
    with zipfile.ZipFile(path, 'w') as z:
        z.writestr('[Content_Types].xml', CT % ''.join(
            '<Override PartName="/xl/worksheets/sheet%d.xml" ContentType="application/vnd.openxmlformats-officedocument.spreadsheetml.worksheet+xml"/>' % (i + 1)
            for i in range(len(names))))
        z.writestr('_rels/.rels', RELS)
        z.writestr('xl/workbook.xml', (
            '<?xml version="1.0" encoding="UTF-8" standalone="yes"?>'
            '<workbook xmlns="http://schemas.openxmlformats.org/spreadsheetml/2006/main" '
            'xmlns:r="http://schemas.openxmlformats.org/officeDocument/2006/relationships">'
            '<sheets>%s</sheets><calcPr calcId="1"%s/></workbook>') % (
            ''.join('<sheet name="%s" sheetId="%d" r:id="rId%d"/>' % (n, i + 1, i + 1)
                    for i, n in enumerate(names)),
            ' iterate="1"' if iterate else ''))
        z.writestr('xl/_rels/workbook.xml.rels', (
            '<?xml version="1.0" encoding="UTF-8" standalone="yes"?>'
            '<Relationships xmlns="http://schemas.openxmlformats.org/package/2006/relationships">%s</Relationships>') % ''.join(
            '<Relationship Id="rId%d" Type="http://schemas.openxmlformats.org/officeDocument/2006/relationships/worksheet" Target="worksheets/sheet%d.xml"/>' % (i + 1, i + 1)
            for i in range(len(names))))
        for i, n in enumerate(names):
            rows = {}
            for ref, spec in sheets[n].items():
                m = re.match(r'([A-Z]+)(\d+)$', ref)
                rows.setdefault(int(m.group(2)), []).append((len(m.group(1)), m.group(1), ref, spec))
            body = ''
            for r in sorted(rows):
                body += '<row r="%d">%s</row>' % (r, ''.join(
                    cell_xml(ref, spec) for _, _, ref, spec in sorted(rows[r])))
            z.writestr('xl/worksheets/sheet%d.xml' % (i + 1), (
                '<?xml version="1.0" encoding="UTF-8" standalone="yes"?>'
                '<worksheet xmlns="http://schemas.openxmlformats.org/spreadsheetml/2006/main">'
                '<sheetData>%s</sheetData></worksheet>') % body)


def validate(sheets, **kwargs):
    """write the workbook, compile it, return validate_calcs(**kwargs)"""
    import contextlib, io, logging, os, tempfile
    from pycel import ExcelCompiler
    logging.disable(logging.CRITICAL)
    if not all(isinstance(v, dict) for v in sheets.values()):
        sheets = {'Sheet1': sheets}
    with tempfile.TemporaryDirectory() as tmp:
        path = os.path.join(tmp, 'book.xlsx')
        write_xlsx(path, sheets)
        with contextlib.redirect_stdout(io.StringIO()):
            return ExcelCompiler(filename=path).validate_calcs(**kwargs)
