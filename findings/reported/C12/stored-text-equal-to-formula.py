"""a formula cell whose stored (text) result equals the text of its formula is
taken for 'no original data': it is skipped (continue) and its precedents are
not queued either"""
import os, sys
sys.path.insert(0, os.path.dirname(os.path.abspath(__file__)))
from _mkxlsx import validate

bad = {'A1': 2, 'B1': ('=A1+1', '=A1+1')}
print('B1 "=A1+1" stored as the text "=A1+1", recomputed 3')
print('expected: mismatch for Sheet1!B1; got:', validate(bad))

# and the walk stops there: A2 (altered) is only reachable through B2
bad = {'A1': 2, 'A2': ('=A1*2', 99), 'B2': ('=A2+1', '=A2+1')}
print('expected: mismatch for Sheet1!A2 (stored 99, recomputed 4) and Sheet1!B2; got:',
      validate(bad, output_addrs=['Sheet1!B2']))
