"""when a checked cell cannot be evaluated it is reported, but the walk stops
there: its precedents are never queued, so an altered stored result that is
only reachable through it is not reported"""
import os, sys
sys.path.insert(0, os.path.dirname(os.path.abspath(__file__)))
from _mkxlsx import validate

bad = {'A1': 1, 'B1': ('=A1+1', 99), 'C1': ('=FOOBAR(B1)', 5)}
r = validate(bad, output_addrs=['Sheet1!C1'])
print('expected: C1 under not-implemented AND a mismatch for Sheet1!B1 (stored 99, recomputed 2)')
print('got keys:', {k: sorted(v) for k, v in r.items()})
print("for comparison with C1 '=B1*1' stored 2:",
      validate(dict(bad, C1=('=B1*1', 2)), output_addrs=['Sheet1!C1']))
