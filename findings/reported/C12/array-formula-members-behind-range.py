"""the member cells of a CSE array formula D1:D3 are formula cells with stored
results, but when an output reaches them through the range D1:D3 the walk
follows only the precedents of the array formula, never the members: an
altered stored result of D2 is not reported"""
import os, sys
sys.path.insert(0, os.path.dirname(os.path.abspath(__file__)))
from _mkxlsx import validate

cells = {'A1': 1, 'A2': 2, 'A3': 3, 'B1': 4, 'B2': 5, 'B3': 6,
         'D1': '<c r="D1"><f t="array" ref="D1:D3">A1:A3*B1:B3</f><v>4</v></c>',
         'D2': '<c r="D2"><v>10</v></c>', 'D3': '<c r="D3"><v>18</v></c>',
         'E1': ('=SUM(D1:D3)', 32)}
print('consistent:', validate(cells), validate(cells, output_addrs=['Sheet1!E1']))
bad = dict(cells, D2='<c r="D2"><v>11</v></c>')
print('D2 stored 11 instead of 10, all formulas  :', validate(bad))
print('D2 stored 11, output_addrs=[Sheet1!E1], expected the same mismatch for D2, got:',
      validate(bad, output_addrs=['Sheet1!E1']))
