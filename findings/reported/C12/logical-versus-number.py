"""logicals are compared as numbers: a stored TRUE altered to the number 1 (or
a stored 1 altered to TRUE, 0 <-> FALSE) is not reported, and with a
tolerance > 1 a stored TRUE altered to FALSE is not reported either"""
import os, sys
sys.path.insert(0, os.path.dirname(os.path.abspath(__file__)))
from _mkxlsx import validate

good = {'A1': 2, 'B1': ('=A1>1', True), 'C1': ('=A1/2', 1), 'D1': ('=A1-2', 0)}
print('consistent:', validate(good))
for ref, new in (('B1', 1), ('C1', True), ('D1', False)):
    bad = dict(good)
    bad[ref] = (good[ref][0], new)
    print(f'{ref} {good[ref]} stored as {new!r}: expected mismatch for Sheet1!{ref}, got',
          validate(bad))
bad = dict(good, B1=('=A1>1', False))
print('B1 stored FALSE instead of TRUE, tolerance=None:', validate(bad))
print('B1 stored FALSE instead of TRUE, tolerance=2, expected the same mismatch, got:',
      validate(bad, tolerance=2))
