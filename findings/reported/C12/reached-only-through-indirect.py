"""a formula cell that the checked output reads only through INDIRECT is not
on the work list: its altered stored result is not named, only the output"""
import os, sys
sys.path.insert(0, os.path.dirname(os.path.abspath(__file__)))
from _mkxlsx import validate

bad = {'A1': 1, 'B1': ('=A1+1', 99), 'C1': ('=INDIRECT("B1")', 2)}
print('expected: mismatch for Sheet1!B1 (stored 99, recomputed 2); got:',
      validate(bad, output_addrs=['Sheet1!C1']))
