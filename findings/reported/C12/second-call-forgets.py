"""validate_calcs overwrites the stored results with what it recomputes, a
second call on the same compiler (or a call with other outputs) does not
report the altered cell any more"""
import contextlib, io, logging, os, sys, tempfile
sys.path.insert(0, os.path.dirname(os.path.abspath(__file__)))
from _mkxlsx import write_xlsx
from pycel import ExcelCompiler
logging.disable(logging.CRITICAL)

with tempfile.TemporaryDirectory() as tmp:
    path = os.path.join(tmp, 'book.xlsx')
    write_xlsx(path, {'Sheet1': {'A1': 1, 'B1': ('=A1+1', 99), 'C1': ('=B1*2', 4)}})
    with contextlib.redirect_stdout(io.StringIO()):
        c = ExcelCompiler(filename=path)
        first = c.validate_calcs(output_addrs=['Sheet1!B1'])
        second = c.validate_calcs()
print('first call, output B1 :', first)
print('second call, all cells, expected B1 (stored 99) to be named again; got:', second)
