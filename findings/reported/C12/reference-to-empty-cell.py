"""consistent workbook reported as a mismatch: a formula that is a reference
(INDIRECT, OFFSET) to an empty cell shows 0 in Excel, pycel recomputes None
and None is not close to the stored 0"""
import os, sys
sys.path.insert(0, os.path.dirname(os.path.abspath(__file__)))
from _mkxlsx import validate

cells = {'A1': 1, 'B1': ('=INDIRECT("Z9")', 0), 'C1': ('=OFFSET(A1,5,5)', 0),
         'D1': ('=Z9', 0)}
print('expected {}; got:', validate(cells))
