"""Baseline defect (unmodified tree), C06: a workbook without circular
references does not return what non-iterative evaluation returns after a
set_value history that holds  set_value(range, values, set_as_range=True).

Non-iterative mode keeps the values set on the range node, so SUM(A1:A3) sees
them.  Iterative mode always rebuilds a plain range from its cells (and the
cells are not written by set_as_range), so the set_value is silently lost and
SUM(A1:A3) keeps returning the old sum.
"""
import logging

from openpyxl import Workbook

from pycel import ExcelCompiler

logging.disable(logging.CRITICAL)


def model(cycles):
    wb = Workbook()
    ws = wb.active
    ws.title = 'Sheet1'
    ws['A1'], ws['A2'], ws['A3'] = 1, 2, 3
    ws['B1'] = '=SUM(A1:A3)'
    return ExcelCompiler(excel=wb, cycles=cycles)


plain, iterative = model(False), model(True)
assert plain.evaluate('Sheet1!B1') == iterative.evaluate('Sheet1!B1') == 6
for m in (plain, iterative):
    m.set_value('Sheet1!A1:A3', ((5,), (6,), (7,)), set_as_range=True)
expect = plain.evaluate('Sheet1!B1')        # 18
got = iterative.evaluate('Sheet1!B1')       # 6
assert got == expect, f'plain {expect}, iterative {got}'
print('ok')
