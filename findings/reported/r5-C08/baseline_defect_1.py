"""Baseline defect (unmodified tree): trim_graph freezes cells that were never
calculated to 'no value'.

trim_graph() freezes a formula no input reaches by dropping the formula and
keeping cell.value.  When that cell has not been calculated (a workbook without
stored results - anything written by openpyxl - that is trimmed without
evaluating the outputs first, or a cell that a set_value() on one of its (non
input) precedents has reset), cell.value is None, and the trimmed model, live
and saved, reads the cell as blank.  The untrimmed model calculates it.

    A1 1 (input)   X1 3   B1 =X1*2   C1 =A1+B1 (output)

untrimmed: C1 = 7 ; trimmed without a prior evaluate(): C1 = 1
"""
import logging
import os
import shutil
import sys
import tempfile

from openpyxl import Workbook

from pycel import ExcelCompiler

logging.getLogger('pycel').setLevel(logging.CRITICAL)


def main():
    tmp = tempfile.mkdtemp()
    try:
        wb = Workbook()
        ws = wb.active
        ws.title = 'Sheet1'
        ws['A1'] = 1
        ws['X1'] = 3
        ws['B1'] = '=X1*2'
        ws['C1'] = '=A1+B1'
        xlsx = os.path.join(tmp, 'book.xlsx')
        wb.save(xlsx)

        failures = []
        reference = ExcelCompiler(xlsx)
        expected = reference.evaluate('Sheet1!C1')
        assert expected == 7

        # 1) trimmed without evaluating first
        model = ExcelCompiler(xlsx)
        model.trim_graph(['Sheet1!A1'], ['Sheet1!C1'])
        got = model.evaluate('Sheet1!C1')
        if got != expected:
            failures.append(f'trim without evaluate: C1 is {got!r}, not {expected!r}')

        # 2) evaluated, then a non input precedent is changed, then trimmed
        reference.set_value('Sheet1!X1', 5)
        expected = reference.evaluate('Sheet1!C1')
        assert expected == 11
        model = ExcelCompiler(xlsx)
        model.evaluate('Sheet1!C1')
        model.set_value('Sheet1!X1', 5)
        model.trim_graph(['Sheet1!A1'], ['Sheet1!C1'])
        got = model.evaluate('Sheet1!C1')
        if got != expected:
            failures.append(f'trim after set_value(X1): C1 is {got!r}, not {expected!r}')

        for failure in failures:
            print(failure)
        return 1 if failures else 0
    finally:
        shutil.rmtree(tmp)


if __name__ == '__main__':
    sys.exit(main())
