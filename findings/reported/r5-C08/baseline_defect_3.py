"""Baseline defect (unmodified tree): a frozen cell whose value is text that
begins with '=' is read back from the saved model as a formula.

    A1 1 (input)   X1 'b'   B1 ="="&X1  (text '=b', no input reaches it)
    C1 =B1&A1 (output)

After trim_graph B1 is saved as the value '=b'; the reader takes every text
that starts with '=' for python code, so the loaded model fails to evaluate C1
(or evaluates whatever the text happens to mean) instead of returning '=b2'.
"""
import logging
import os
import shutil
import sys
import tempfile

from openpyxl import Workbook

from pycel import ExcelCompiler

logging.getLogger('pycel').setLevel(logging.CRITICAL)


def main():
    tmp = tempfile.mkdtemp()
    try:
        wb = Workbook()
        ws = wb.active
        ws.title = 'Sheet1'
        ws['A1'] = 1
        ws['X1'] = 'b'
        ws['B1'] = '="="&X1'
        ws['C1'] = '=B1&A1'
        xlsx = os.path.join(tmp, 'book.xlsx')
        wb.save(xlsx)

        reference = ExcelCompiler(xlsx)
        reference.evaluate('Sheet1!C1')
        reference.set_value('Sheet1!A1', 2)
        expected = reference.evaluate('Sheet1!C1')
        assert expected == '=b2', expected

        model = ExcelCompiler(xlsx)
        model.evaluate('Sheet1!C1')
        model.trim_graph(['Sheet1!A1'], ['Sheet1!C1'])
        failures = []
        for file_type in ('yml', 'json', 'pkl'):
            name = os.path.join(tmp, f'saved_as_{file_type}_model')
            try:
                model.to_file(name, file_types=file_type)
                loaded = ExcelCompiler.from_file(name)
                loaded.set_value('Sheet1!A1', 2)
                got = loaded.evaluate('Sheet1!C1')
            except Exception as exc:
                got = f'{type(exc).__name__} raised'
            if got != expected:
                failures.append(f'{file_type}: C1 is {got!r}, not {expected!r}')
        for failure in failures:
            print(failure)
        return 1 if failures else 0
    finally:
        shutil.rmtree(tmp)


if __name__ == '__main__':
    sys.exit(main())
