"""Baseline defect (unmodified tree): a buried input that another input
reaches goes stale in the model loaded from a file.

    A1 1 (input)   B1 =A1+1   C1 =B1*2 (input, buried)   D1 =C1+1 (output)

trim_graph(['A1', 'C1'], ['D1']) keeps the formula of C1 (A1 reaches it), as
the untrimmed model does.  set_value(C1, 5) followed by set_value(A1, 7) makes
the untrimmed model (and the live trimmed model) recalculate C1 from A1:
D1 = (7+1)*2+1 = 17.  In the model loaded from the saved file nothing has been
calculated yet, B1 has no value, and _reset() does not look behind a cell
without a value: C1 keeps the 5 and D1 is 6.
"""
import logging
import os
import shutil
import sys
import tempfile

from openpyxl import Workbook

from pycel import ExcelCompiler

logging.getLogger('pycel').setLevel(logging.CRITICAL)


def main():
    tmp = tempfile.mkdtemp()
    try:
        wb = Workbook()
        ws = wb.active
        ws.title = 'Sheet1'
        ws['A1'] = 1
        ws['B1'] = '=A1+1'
        ws['C1'] = '=B1*2'
        ws['D1'] = '=C1+1'
        xlsx = os.path.join(tmp, 'book.xlsx')
        wb.save(xlsx)

        reference = ExcelCompiler(xlsx)
        reference.evaluate('Sheet1!D1')

        model = ExcelCompiler(xlsx)
        model.evaluate('Sheet1!D1')
        model.trim_graph(['Sheet1!A1', 'Sheet1!C1'], ['Sheet1!D1'])
        name = os.path.join(tmp, 'saved_model')
        model.to_file(name, file_types='yml')
        loaded = ExcelCompiler.from_file(name)

        results = {}
        for label, m in (('untrimmed', reference), ('live', model), ('loaded', loaded)):
            m.set_value('Sheet1!C1', 5)
            m.set_value('Sheet1!A1', 7)
            results[label] = m.evaluate('Sheet1!D1')
        print(results)
        return 0 if len(set(results.values())) == 1 else 1
    finally:
        shutil.rmtree(tmp)


if __name__ == '__main__':
    sys.exit(main())
