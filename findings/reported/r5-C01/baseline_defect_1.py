"""Baseline defect (present on the UNMODIFIED tree), property C01.

ExcelCompiler._reset() is recursive, one python frame per level of the
dependency chain.  With a chain of formulas longer than the recursion limit
allows (A2=A1+1, A3=A2+1, ... 1500 cells, all legal and acyclic), which was
calculated bottom up in pieces so that evaluate() never ran into the limit,
set_value() on the head of the chain raises RecursionError half way through
the reset, and leaves the model in a state no from-scratch compile produces:

  * the written cell is left blank (value None): set_value() parks the new
    value, _reset() sets the cell to None, and the final assignment of the new
    value is never reached,
  * the first ~1000 dependants were reset and are calculated again from that
    blank (A100 == 99: neither the old input 1 nor the new input 100),
  * the dependants further down the chain were never reset and keep the values
    calculated from the OLD input (A1000 == 1000, A1500 == 1500), evaluate()
    returns them without any error.

Expected: either set_value() succeeds (every cell then evaluates as in a
from-scratch compile with A1 == 100), or it fails leaving the old, consistent
state (A1 == 1).  Exits non-zero on the unmodified tree.
"""
import logging
import sys

from openpyxl import Workbook

from pycel import ExcelCompiler

logging.disable(logging.CRITICAL)

N = 1500


def build(a1):
    wb = Workbook()
    ws = wb.active
    ws.title = 'Sheet1'
    ws['A1'] = a1
    for i in range(2, N + 1):
        ws[f'A{i}'] = f'=A{i - 1}+1'
    return wb


def evaluate_in_pieces(model):
    return {i: model.evaluate(f'Sheet1!A{i}') for i in range(100, N + 1, 100)}


model = ExcelCompiler(excel=build(1))
assert evaluate_in_pieces(model)[N] == N

raised = None
try:
    model.set_value('Sheet1!A1', 100)
except RecursionError as exc:
    raised = exc

a1 = model.evaluate('Sheet1!A1')
got = evaluate_in_pieces(model)

consistent_states = []
for a1_value in (1, 100):
    ref = ExcelCompiler(excel=build(a1_value))
    consistent_states.append((ref.evaluate('Sheet1!A1'), evaluate_in_pieces(ref)))

if (a1, got) not in consistent_states:
    print(f'set_value raised: {raised!r}')
    print(f'A1 = {a1!r}')
    print({i: v for i, v in got.items() if i in (100, 900, 1000, N)})
    print('this is neither the model for A1 == 1 nor the model for A1 == 100')
    sys.exit(1)
print('ok')
