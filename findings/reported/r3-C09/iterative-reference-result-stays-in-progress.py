"""Iterative mode: a formula that evaluates to a reference (OFFSET, INDIRECT)
to a failing cell stays "in progress" for ever.

The reference is followed after the formula has been calculated, outside of
the code that clears the work-in-progress flag on a failure.  From then on
the cell answers with its previous value: no error on a retry, and a stale
value after the failure is gone.
"""
from _common import ExcelCompiler, PLUGINS, openpyxl, plug, show

wb = openpyxl.Workbook()
ws = wb.active
ws.title = 'S'
ws['A1'] = 1
ws['A2'] = '=boom("f", A1)+1'
ws['B1'] = '=OFFSET(A1,1,0)'       # a reference to A2
ws['B2'] = '=B1+1'
wb.calculation.iterate = True
model = ExcelCompiler(excel=wb, plugins=PLUGINS)

print('all is well')
show(model, 'S!B2', 3)
print('A2 fails, A1 is set to 2')
plug.FAILING.add('f')
model.set_value('S!A1', 2)
show(model, 'S!B2', 'FormulaEvalError')
show(model, 'S!B2', 'FormulaEvalError again')
show(model, 'S!B1', 'FormulaEvalError')
print('A2 does not fail any more (A2 = 3)')
plug.FAILING.clear()
show(model, 'S!A2', 3)
show(model, 'S!B1', 3)
show(model, 'S!B2', 4)
