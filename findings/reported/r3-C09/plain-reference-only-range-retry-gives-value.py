"""Plain mode: a formula that uses a range only as a reference gets its value
and then fails in the range: the retry (and its dependants) do not fail again.

_evaluate() stores the value of the cell, then calculates the ranges the
formula only uses as a reference; a member of the range that fails makes this
evaluate() raise, the next one returns the stored value.  (The value is the
right one, but the first and the second evaluation of the same state differ,
and the range stays without a value.)
"""
from _common import ExcelCompiler, PLUGINS, openpyxl, plug, show

wb = openpyxl.Workbook()
ws = wb.active
ws.title = 'S'
ws['A1'], ws['A2'], ws['A3'] = 1, '=boom("f", 2)', 5
ws['E1'] = '=OFFSET(A1:A3,0,0,1,1)'     # is A1
ws['E2'] = '=E1+100'
plug.FAILING.add('f')
model = ExcelCompiler(excel=wb, plugins=PLUGINS)

print('A2, a member of A1:A3, fails: three times the same evaluation')
for attempt in range(3):
    show(model, 'S!E2', 'each time the same: FormulaEvalError (or each time 101)')
