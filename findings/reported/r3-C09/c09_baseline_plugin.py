"""Plugin for the reproducers: a function which raises on demand"""
from pycel.lib.function_helpers import excel_helper

FAILING = set()


@excel_helper()
def boom(tag, value=0):
    if tag in FAILING:
        raise RuntimeError(f'boom {tag}')
    return value
