"""Side finding (no failure injected): in iterative mode a range intersection
that is a single cell fails with a FormulaEvalError that wraps an
AttributeError ('_CycleCell' object has no attribute 'addresses').
"""
from _common import ExcelCompiler, openpyxl


def build(iterate):
    wb = openpyxl.Workbook()
    ws = wb.active
    ws.title = 'S'
    ws['A1'], ws['A2'], ws['A3'] = 1, 2, 5
    ws['E1'] = '=SUM(A1:A3 A1:B1)'
    wb.calculation.iterate = iterate
    return ExcelCompiler(excel=wb)


for iterate in (False, True):
    try:
        result = build(iterate).evaluate('S!E1')
    except Exception as exc:
        result = f'{type(exc).__name__}: ...{str(exc).splitlines()[-2][:90]}'
    print(f'  iterative={iterate}: E1 expected 1, pycel gives {result}')
