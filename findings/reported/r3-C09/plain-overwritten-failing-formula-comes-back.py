"""Plain mode: the constant that overwrites a failing formula cell is lost as
soon as a precedent of the old formula is set (or recalculate() is called).

set_value() keeps the formula of the cell, so the reset of a precedent (and
recalculate()) brings the failing formula back: the dependants fail again,
a fresh model with the constant in that cell does not.
"""
from _common import ExcelCompiler, PLUGINS, openpyxl, plug, show


def build(a2):
    wb = openpyxl.Workbook()
    ws = wb.active
    ws.title = 'S'
    ws['A1'] = 1
    ws['A2'] = a2
    ws['A3'] = '=A2*2'
    return ExcelCompiler(excel=wb, plugins=PLUGINS)


plug.FAILING.add('f')
for step in ('set_value of A1', 'recalculate()'):
    model = build('=boom("f", A1)+1')
    print('A2 fails')
    show(model, 'S!A3', 'FormulaEvalError')
    print('A2 is overwritten with 7')
    model.set_value('S!A2', 7)
    show(model, 'S!A3', 14)
    print(step)
    if step.startswith('set'):
        model.set_value('S!A1', 3)
    else:
        try:
            model.recalculate()
        except Exception as exc:
            print(f'  recalculate() raised {type(exc).__name__}')
    show(model, 'S!A2', 7)
    show(model, 'S!A3', 14)
    print()
