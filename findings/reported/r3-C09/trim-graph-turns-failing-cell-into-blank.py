"""Plain mode: trim_graph() after a failed evaluation turns the failing cell
(which has no value) into an empty constant, its dependant then evaluates
from a blank instead of failing.
"""
from _common import ExcelCompiler, PLUGINS, openpyxl, plug, show

wb = openpyxl.Workbook()
ws = wb.active
ws.title = 'S'
ws['A1'] = 1
ws['A2'] = '=boom("f", A1)+1'
ws['B1'] = 10
ws['B2'] = '=A2+B1'
plug.FAILING.add('f')
model = ExcelCompiler(excel=wb, plugins=PLUGINS)

print('A2 fails')
show(model, 'S!B2', 'FormulaEvalError')
print('trim_graph(inputs B1, outputs B2)')
model.trim_graph(['S!B1'], ['S!B2'])
show(model, 'S!B2', 'FormulaEvalError (A2 still has no value)')
model.set_value('S!B1', 20)
show(model, 'S!B2', 'FormulaEvalError')
