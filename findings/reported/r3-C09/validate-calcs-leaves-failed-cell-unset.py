"""Plain mode: validate_calcs() drops the value of each formula cell and
evaluates it; when that fails the cell stays without a value while its
dependants keep theirs.

From then on the dependants return the old value instead of failing, and
set_value() of a precedent does not reach them (the reset stops at the
cell that has no value): they are stale for ever.
"""
import contextlib
import io

from _common import ExcelCompiler, PLUGINS, openpyxl, plug, show

wb = openpyxl.Workbook()
ws = wb.active
ws.title = 'S'
ws['A1'] = 1
ws['A2'] = '=boom("f", A1)+1'
ws['A3'] = '=A2*2'
model = ExcelCompiler(excel=wb, plugins=PLUGINS)

print('all is well')
show(model, 'S!A3', 4)
print('boom() starts to fail, validate_calcs()')
plug.FAILING.add('f')
with contextlib.redirect_stdout(io.StringIO()):
    failed = model.validate_calcs()
print(f'  validate_calcs() reports: {list(failed)}')
show(model, 'S!A2', 'FormulaEvalError')
show(model, 'S!A3', 'FormulaEvalError')
print('boom() works again, A1 is set to 5')
plug.FAILING.clear()
model.set_value('S!A1', 5)
show(model, 'S!A2', 6)
show(model, 'S!A3', 12)
