import logging
import os
import sys

sys.path.insert(0, os.path.dirname(os.path.abspath(__file__)))
logging.getLogger('pycel').setLevel(logging.CRITICAL + 1)

import openpyxl  # noqa: E402,F401

import c09_baseline_plugin as plug  # noqa: E402,F401
from pycel import ExcelCompiler  # noqa: E402,F401

PLUGINS = ('c09_baseline_plugin', )


def show(model, address, expected):
    try:
        result = repr(model.evaluate(address))
    except Exception as exc:
        result = f'{type(exc).__name__}'
    print(f'  {address}: expected {expected}, pycel gives {result}')
    return result
