"""Side finding (unknown function, serialisation): a model with a range that
holds a cell using a plugin function cannot be loaded from yml/json, and
cannot be saved as pkl.

Loading builds the ranges (and calculates them) before from_file() has set
the plugins: UnknownFunction comes out of from_file() / to_file().
"""
import os
import tempfile

from _common import ExcelCompiler, PLUGINS, openpyxl

tmp_root = os.path.abspath(os.path.join(
    os.path.dirname(os.path.abspath(__file__)), '..', '..', 'tmp'))
os.makedirs(tmp_root, exist_ok=True)
tmp = tempfile.mkdtemp(dir=tmp_root)
wb = openpyxl.Workbook()
ws = wb.active
ws.title = 'S'
ws['A1'], ws['A2'], ws['A3'] = 1, '=boom("x", A1)+1', 5
ws['B1'] = '=SUM(A1:A3)'
model = ExcelCompiler(excel=wb, plugins=PLUGINS)
print('  B1: expected 8, pycel gives', model.evaluate('S!B1'))
for ext in ('yml', 'json', 'pkl'):
    name = os.path.join(tmp, 'model.' + ext)
    try:
        model.to_file(name)
        loaded = ExcelCompiler.from_file(name, plugins=PLUGINS)
        result = loaded.evaluate('S!B1')
    except Exception as exc:
        result = type(exc).__name__
    print(f'  {ext}: save, load, B1: expected 8, pycel gives {result}')
