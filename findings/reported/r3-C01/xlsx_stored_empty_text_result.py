"""Baseline defect (C01): xlsx with stored results in which a formula result is
the empty text "" (Excel stores <c t="str"><f>..</f><v></v></c>, openpyxl reads
the stored result as None).  The cell comes into the model looking 'not
calculated' while its dependants carry stored results, and _reset() does not
look behind a cell without a value: set_value on an input upstream of that
cell leaves everything downstream of it stale.

A1 = 5, B1 = IF(A1>0,"","neg"), C1 = LEN(B1), D1 = C1+1
"""
import logging
import os
import re
import sys
import tempfile
import zipfile

from openpyxl import Workbook

from pycel import ExcelCompiler

logging.disable(logging.CRITICAL)
HERE = os.path.dirname(os.path.abspath(__file__))
TMP_ROOT = os.path.normpath(os.path.join(HERE, '..', '..', 'tmp'))
os.makedirs(TMP_ROOT, exist_ok=True)
TMP = tempfile.mkdtemp(dir=TMP_ROOT)

FORMULAS = {'B1': '=IF(A1>0,"","neg")', 'C1': '=LEN(B1)', 'D1': '=C1+1'}


def workbook(a1):
    wb = Workbook()
    ws = wb.active
    ws.title = 'S'
    ws['A1'] = a1
    for addr, formula in FORMULAS.items():
        ws[addr] = formula
    return wb


def save_with_stored_results(path, a1, stored):
    """what Excel writes: the formulas together with their results"""
    raw = path + '.raw'
    workbook(a1).save(raw)
    with zipfile.ZipFile(raw) as zin, zipfile.ZipFile(
            path, 'w', zipfile.ZIP_DEFLATED) as zout:
        for item in zin.infolist():
            data = zin.read(item.filename)
            if item.filename == 'xl/worksheets/sheet1.xml':
                xml = data.decode()
                for addr, val in stored.items():
                    cell_type = ' t="str"' if isinstance(val, str) else ''
                    xml, n = re.subn(
                        r'<c r="%s"[^>]*><f>(.*?)</f><v ?/?>(</v>)?</c>' % addr,
                        lambda m: f'<c r="{addr}"{cell_type}><f>{m.group(1)}</f>'
                                  f'<v>{val}</v></c>', xml)
                    assert n == 1, addr
                data = xml.encode()
            zout.writestr(item, data)


path = os.path.join(TMP, 'stored.xlsx')
save_with_stored_results(path, 5, {'B1': '', 'C1': 0, 'D1': 1})

outputs = ['S!B1', 'S!C1', 'S!D1']
model = ExcelCompiler(path)
# D1 comes with its stored result, B1 is not calculated on the way
print('D1 =', model.evaluate('S!D1'), '| value of the B1 cell:',
      repr(model.cell_map['S!B1'].value))
model.set_value('S!A1', -1)
got = [model.evaluate(a) for a in reversed(outputs)][::-1]
reference = ExcelCompiler(excel=workbook(-1))
expected = [reference.evaluate(a) for a in outputs]
print(f'after set_value(A1, -1): expected (from-scratch compile) {expected}, pycel returns {got}')
sys.exit(0 if got == expected else 1)
