"""Baseline defect (C01): history dependent value of a formula cell that is the
(single cell) result of a range intersection.

D1 = SUM(B1:B2 B2:C2) reads the intersection B2 with _R_("S!B2"), that is with
_evaluate_range().  When B2 (= A2*2) has no value at that moment, _evaluate_range
takes the cell for a CSE array formula, calculates it in an array context and
caches the 1x1 array ((12,),) as the value of the scalar cell B2.  Every other
formula that reads B2 afterwards gets a tuple instead of a number.

In a from-scratch compile the range B1:B2 is calculated while the graph is
built, B2 gets its scalar value first and everything is fine; after a set_value
reset, evaluating D1 before the other readers of B2 poisons B2.
"""
import logging
import sys

from openpyxl import Workbook

from pycel import ExcelCompiler

logging.disable(logging.CRITICAL)


def workbook(a2=5):
    wb = Workbook()
    ws = wb.active
    ws.title = 'S'
    ws['A1'], ws['A2'], ws['C2'] = 1, a2, 7
    ws['B1'] = '=A1*2'
    ws['B2'] = '=A2*2'
    ws['D1'] = '=SUM(B1:B2 B2:C2)'
    ws['E1'] = '=SUMIF(B1:B2,">0")'
    ws['F1'] = '=ISNUMBER(B2)'
    ws['G1'] = '=SUMIF(B1:B2,12)'
    return wb


def ev(model, addr):
    try:
        return model.evaluate(addr)
    except Exception as exc:
        return f'{type(exc).__name__}: {str(exc).strip().splitlines()[-2]}'


outputs = ['S!D1', 'S!E1', 'S!F1', 'S!G1', 'S!B2']
model = ExcelCompiler(excel=workbook())
print('initial            :', [ev(model, a) for a in outputs])
model.set_value('S!A2', 6)
got = [ev(model, a) for a in outputs]          # D1 is evaluated first
reference = ExcelCompiler(excel=workbook(6))
expected = [ev(reference, a) for a in outputs]
print('after set_value(A2, 6)')
print('  expected (from-scratch compile):', expected)
print('  pycel returns                  :', got)
print('  value cached in cell B2        :', repr(model.cell_map['S!B2'].value))
sys.exit(0 if got == expected else 1)
