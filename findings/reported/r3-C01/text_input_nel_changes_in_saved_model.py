"""Baseline defect (C01, deserialized models): a text input holding U+0085 (NEL,
a legal character of an Excel text) does not survive to_file()/from_file():
yaml writes it, and json (ensure_ascii=False) writes it raw, and the yaml loader
used for both folds it into a blank.  The loaded model (yml, json and the pkl
built from them) evaluates the input and its dependants differently from a
from-scratch compile with the same input value.
(json models with U+007F, U+0080..U+009F or U+FFFE in a text cannot be loaded at
all: ruamel ReaderError.)
"""
import logging
import os
import sys
import tempfile

from openpyxl import Workbook

from pycel import ExcelCompiler

logging.disable(logging.CRITICAL)
HERE = os.path.dirname(os.path.abspath(__file__))
TMP_ROOT = os.path.normpath(os.path.join(HERE, '..', '..', 'tmp'))
os.makedirs(TMP_ROOT, exist_ok=True)
TMP = tempfile.mkdtemp(dir=TMP_ROOT)

TEXT = 'a\x85b'


def workbook(a1):
    wb = Workbook()
    ws = wb.active
    ws.title = 'S'
    ws['A1'] = a1
    ws['B1'] = '=IF(A1="a b","blank","not a blank")'
    return wb


reference = ExcelCompiler(excel=workbook('x'))
reference.evaluate('S!B1')
reference.set_value('S!A1', TEXT)
expected = [reference.evaluate('S!A1'), reference.evaluate('S!B1')]

bad = 0
for ext in ('yml', 'json', 'pkl'):
    model = ExcelCompiler(excel=workbook('x'))
    model.evaluate('S!B1')
    model.set_value('S!A1', TEXT)
    path = os.path.join(TMP, 'model.' + ext)
    model.to_file(path)
    loaded = ExcelCompiler.from_file(path)
    got = [loaded.evaluate('S!A1'), loaded.evaluate('S!B1')]
    print(f'{ext}: expected {expected!r}, loaded model returns {got!r}')
    bad += got != expected
sys.exit(1 if bad else 0)
