"""Baseline defect (C01): _reset() recurses once per level of the dependency
chain.  A chain deeper than the interpreter's recursion limit can be evaluated
(in steps), but set_value on its first input then raises RecursionError half
way: the input is left BLANK (neither the old nor the new value), the upper part
of the chain is reset and the lower part keeps its values.  Writing the value
again 'works' (no exception), the reset stops at once at the already reset
first dependant, and the lower part of the chain is stale from then on.
"""
import logging
import sys

from openpyxl import Workbook

from pycel import ExcelCompiler

logging.disable(logging.CRITICAL)
N = 1500


def workbook(a1=1):
    wb = Workbook()
    ws = wb.active
    ws.title = 'S'
    ws['A1'] = a1
    for r in range(2, N + 1):
        ws[f'A{r}'] = f'=A{r - 1}+1'
    return wb


def evaluate_in_steps(model):
    for r in range(100, N + 1, 100):
        model.evaluate(f'S!A{r}')
    return model.evaluate(f'S!A{N}')


model = ExcelCompiler(excel=workbook())
print(f'A{N} =', evaluate_in_steps(model))

try:
    model.set_value('S!A1', 10)
    print('set_value(A1, 10) returned')
except RecursionError as exc:
    print('set_value(A1, 10) raised RecursionError:', str(exc)[:60])
    print('  A1 is now', repr(model.cell_map['S!A1'].value),
          '| A500:', model.cell_map['S!A500'].value,
          f'| A{N}:', model.cell_map[f'S!A{N}'].value)
    model.set_value('S!A1', 10)
    print('second set_value(A1, 10) returned without an exception')

got = evaluate_in_steps(model)
expected = evaluate_in_steps(ExcelCompiler(excel=workbook(10)))
print(f'A{N}: expected (from-scratch compile, A1=10) {expected}, pycel returns {got}')
print('A900:', model.evaluate('S!A900'), ' A1100:', model.evaluate('S!A1100'))
sys.exit(0 if got == expected else 1)
