"""Baseline defect (C01): an unbounded range (A:A) is bound to the used area of
the sheet once, when it is built; an input written later below that area is a
cell of column A in a from-scratch compile, but never reaches =SUM(A:A) in the
live model.
"""
import logging
import sys

from openpyxl import Workbook

from pycel import ExcelCompiler

logging.disable(logging.CRITICAL)


def workbook(a10=None):
    wb = Workbook()
    ws = wb.active
    ws.title = 'S'
    ws['A1'], ws['A2'], ws['A3'] = 1, 2, 3
    ws['B1'] = '=SUM(A:A)'
    if a10 is not None:
        ws['A10'] = a10
    return wb


model = ExcelCompiler(excel=workbook())
print('B1 =', model.evaluate('S!B1'))
print('A10 =', model.evaluate('S!A10'), '(blank input, now in the cell map)')
model.set_value('S!A10', 4)
got = model.evaluate('S!B1')
expected = ExcelCompiler(excel=workbook(4)).evaluate('S!B1')
print(f'after set_value(A10, 4): expected (from-scratch compile) {expected}, pycel returns {got}')
print('A:A stands for', model.cell_map['S!A:A'].formula.python_code)
sys.exit(0 if got == expected else 1)
