"""Baseline defect (C01): a chain of range operators over written references
reads cells that are not precedents of the formula in the dependency graph.

=SUM(A3:(B2):C1) reads the rectangle that spans A3, B2 and C1, which is A1:C3.
ExcelFormula.needed_addresses only notes the pairwise spans A2:B3 and B1:C2, so
A1 and C3 are read but there is no edge A1 -> E1 / C3 -> E1: set_value on them
does not reset E1.
"""
import logging
import sys

from openpyxl import Workbook

from pycel import ExcelCompiler

logging.disable(logging.CRITICAL)


def workbook(a1=1):
    wb = Workbook()
    ws = wb.active
    ws.title = 'S'
    for r in range(1, 4):
        for c in 'ABC':
            ws[f'{c}{r}'] = 1
    ws['A1'] = a1
    ws['E1'] = '=SUM(A3:(B2):C1)'
    return wb


model = ExcelCompiler(excel=workbook())
first = model.evaluate('S!E1')
print('python code      :', model.cell_map['S!E1'].formula.python_code)
print('needed addresses :', [str(a) for a in model.cell_map['S!E1'].needed_addresses])
model.set_value('S!A1', 100)
got = model.evaluate('S!E1')
expected = ExcelCompiler(excel=workbook(100)).evaluate('S!E1')
print(f'E1 before set_value: {first}')
print(f'after set_value(A1, 100): expected (from-scratch compile) {expected}, pycel returns {got}')
sys.exit(0 if got == expected else 1)
