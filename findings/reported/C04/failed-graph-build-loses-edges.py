"""BASELINE DEFECT (unmodified pycel): when building the graph for a formula
fails on one of its precedents, the formula cell stays in cell_map but the
edges to its remaining precedents are never added.

_process_gen_graph() pops the dependant from graph_todos and then adds one edge
per needed address.  If _gen_graph() of one precedent raises (a reference to a
sheet the workbook does not have, or to a linked workbook '[1]Sheet1!A5'), the
loop is left, the popped cell is never queued again, and _gen_graph() returns
early for it from then on ('already did this cell').  A reference that is only
used as a reference (ROW(), COLUMN()) is never read, so the second evaluate()
works and returns a number - but the cell has no precedent edges at all.
"""
import logging
import sys

import networkx as nx
from openpyxl import Workbook

from pycel import ExcelCompiler

logging.disable(logging.CRITICAL)

bad = 0
for formula in ('=ROW(Missing!A5)+B1', '=ROW([1]Sheet1!A5)+B1'):
    wb = Workbook()
    ws = wb.active
    ws.title = 'Sheet1'
    ws['B1'] = 10
    ws['E1'] = formula
    model = ExcelCompiler(excel=wb)

    print(formula)
    try:
        model.evaluate('Sheet1!E1')
    except Exception as exc:
        print('  1st evaluate raises:', type(exc).__name__, str(exc).splitlines()[0])

    print('  2nd evaluate ->', model.evaluate('Sheet1!E1'), '(5 + B1 = 15)')
    cell = model.cell_map['Sheet1!E1']
    print('  python code :', cell.formula.python_code)
    print('  declared    :', [a.address for a in cell.formula.needed_addresses])
    ancestors = sorted(c.address.address for c in nx.ancestors(model.dep_graph, cell)) \
        if cell in model.dep_graph else []
    print('  ancestors   :', ancestors, "(expected to hold 'Sheet1!B1', which is read)")
    bad += 'Sheet1!B1' not in ancestors

    model.set_value('Sheet1!B1', 20)
    got = model.evaluate('Sheet1!E1')
    print('  after B1=20 ->', got, '(expected 25)')
    bad += got != 25

print('DEFECT REPRODUCED' if bad else 'not reproduced')
sys.exit(0)
