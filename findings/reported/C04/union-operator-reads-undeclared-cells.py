"""BASELINE DEFECT (unmodified pycel): the range operator ':' applied to a
parenthesised reference reads cells that are not declared precedents.

=SUM((A1:B2):C3) is the same as =SUM(A1:C3) in Excel.  pycel compiles it to
    sum_(_R_(str(_REF_("Sheet1!A1:B2") ** _REF_("Sheet1!C3"))))
The formula reads the bounding rectangle A1:C3 at run time, but the declared
precedents are only A1:B2 and C3.  C1, C2, A3 and B3 are read without being
precedents: no dep_graph edge, stale after set_value, dropped by trim_graph.
(The same text without parentheses, =SUM(A1:B2:C3), is resolved at compile time
to _R_("Sheet1!A1:C3") and is fine.)
"""
import logging
import os
import sys
import tempfile

import networkx as nx
from openpyxl import Workbook

from pycel import ExcelCompiler

logging.disable(logging.CRITICAL)


def workbook():
    wb = Workbook()
    ws = wb.active
    ws.title = 'Sheet1'
    ws['A1'], ws['B2'], ws['C3'] = 1, 2, 3
    ws['C1'], ws['A3'] = 10, 100
    ws['E1'] = '=SUM((A1:B2):C3)'
    ws['E2'] = '=SUM(A1:(B2:C3))'
    return wb


bad = 0
model = ExcelCompiler(excel=workbook())
for addr in ('Sheet1!E1', 'Sheet1!E2'):
    print(addr, '=', model.evaluate(addr), '(expected 116)')
    cell = model.cell_map[addr]
    print('  python code :', cell.formula.python_code)
    print('  declared    :', [a.address for a in cell.formula.needed_addresses])
    ancestors = sorted(c.address.address for c in nx.ancestors(model.dep_graph, cell))
    print('  ancestors   :', ancestors)
    print('  C1 ancestor :', 'Sheet1!C1' in ancestors, '(expected True, C1 is read)')
    bad += 'Sheet1!C1' not in ancestors

model.set_value('Sheet1!C1', 20)
for addr in ('Sheet1!E1', 'Sheet1!E2'):
    got = model.evaluate(addr)
    print(f'after C1=20: {addr} = {got} (expected 126)')
    bad += got != 126

# trim_graph + save/load: the undeclared cells are not even kept in the model
model = ExcelCompiler(excel=workbook())
model.evaluate('Sheet1!E1')
model.trim_graph(input_addrs=['Sheet1!A1'], output_addrs=['Sheet1!E1'])
with tempfile.TemporaryDirectory() as tmp:
    name = os.path.join(tmp, 'trimmed.json')
    model.to_file(name)
    loaded = ExcelCompiler.from_file(name)
loaded.set_value('Sheet1!A1', 2)
got = loaded.evaluate('Sheet1!E1')
print(f'trimmed, saved, loaded, A1=2: Sheet1!E1 = {got} (expected 117)')
bad += got != 117

print('DEFECT REPRODUCED' if bad else 'not reproduced')
sys.exit(0)
