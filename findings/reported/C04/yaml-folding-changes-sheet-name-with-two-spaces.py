"""BASELINE DEFECT (unmodified pycel): saving to yaml changes the references of
a long formula when the sheet name holds two consecutive blanks.

The yaml file is written with width=120, long python code is folded.  ruamel
folds the plain scalar inside _C_("A  B!A5") (after 'A '), and reading the file
back joins the two lines with ONE blank: the loaded formula reads "A B!A5",
a sheet that does not exist, which the loaded model silently treats as an empty
cell.  The loaded formula no longer has 'A  B!A5' (...A11, A17, ...) as
precedent / ancestor although those cells influence it in the workbook, its
value is wrong and it ignores set_value on them.  json is fine.
"""
import logging
import os
import sys
import tempfile

import networkx as nx
from openpyxl import Workbook

from pycel import ExcelCompiler

logging.disable(logging.CRITICAL)

SHEET = 'A  B'      # two blanks, a legal sheet name

wb = Workbook()
main = wb.active
main.title = 'Main'
data = wb.create_sheet(SHEET)
for i in range(1, 30):
    data.cell(row=i, column=1, value=i)
main['A1'] = '=' + '+'.join(f"'{SHEET}'!A{i}" for i in range(1, 30))

model = ExcelCompiler(excel=wb)
expected = sum(range(1, 30))
print('from workbook: Main!A1 =', model.evaluate('Main!A1'), f'(expected {expected})')
code = model.cell_map['Main!A1'].formula.python_code

bad = 0
for ext in ('json', 'yml'):
    with tempfile.TemporaryDirectory() as tmp:
        name = os.path.join(tmp, 'model.' + ext)
        model.to_file(name)
        loaded = ExcelCompiler.from_file(name)
    cell = loaded.cell_map['Main!A1']
    same = cell.formula.python_code == code
    got = loaded.evaluate('Main!A1')
    print(f'{ext}: python code unchanged: {same}; Main!A1 = {got} (expected {expected})')
    declared = {a.address for a in cell.formula.needed_addresses}
    wrong = sorted(a for a in declared if not a.startswith(SHEET + '!'))
    print(f'{ext}: precedents on a sheet that does not exist: {wrong}')
    ancestors = {c.address.address for c in nx.ancestors(loaded.dep_graph, cell)}
    print(f"{ext}: '{SHEET}!A5' is an ancestor of Main!A1: {SHEET + '!A5' in ancestors} (expected True)")
    loaded.set_value(SHEET + '!A5', 1005)
    got2 = loaded.evaluate('Main!A1')
    print(f"{ext}: after '{SHEET}!A5'=1005: Main!A1 = {got2} (expected {expected + 1000})")
    bad += (not same) + (got != expected) + (got2 != expected + 1000)

print('DEFECT REPRODUCED' if bad else 'not reproduced')
sys.exit(0)
