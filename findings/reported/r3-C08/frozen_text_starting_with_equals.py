"""A frozen cell whose text starts with '=' is read back as a formula by from_file."""
from _common import compare
S = 'Sheet1!'
compare({'Sheet1': {'A1': 1, 'B1': '="=A1"&"+1"', 'D1': '=A1&B1'}},
        [S + 'A1'], [S + 'D1'], [[(S + 'A1', 5)]])
