"""A frozen float inf is written as Infinity by json and read back as the text 'Infinity'."""
from _common import compare
S = 'Sheet1!'
compare({'Sheet1': {'A1': 1, 'B1': '=SUM(1E308,1E308)', 'D1': '=IF(B1>A1, 1, 2)',
                    'E1': '=ISNUMBER(B1)&A1'}},
        [S + 'A1'], [S + 'D1', S + 'E1'], [[(S + 'A1', 5)]])
