def triple(x):
    return x * 3
