"""Values assigned with set_value to a cell that keeps its formula are not saved:
(1) a formula cell that depends on the input was overridden before trim_graph,
(2) a buried input that another input reaches is assigned after trim_graph and the model
    is saved afterwards,
(3) an input range is assigned with set_as_range=True and the model is saved afterwards."""
import os
from _common import compare, make_xlsx, TMPDIR
from pycel import ExcelCompiler
S = 'Sheet1!'
print('--- (1) override before trim_graph')
compare({'Sheet1': {'A1': 1, 'C1': '=A1*2', 'D1': '=A1+C1'}},
        [S + 'A1'], [S + 'D1'], [[(S + 'A1', 1)], [(S + 'A1', 7)]], before_trim=[(S + 'C1', 100)])

print('--- (2) buried input reached by another input, assigned, then saved')
path = make_xlsx({'Sheet1': {'A1': 1, 'B1': '=A1*2', 'D1': '=B1+1'}}, 'two.xlsx')
reference, trimmed = ExcelCompiler(filename=path), ExcelCompiler(filename=path)
for model in (reference, trimmed):
    model.evaluate(S + 'D1')
trimmed.trim_graph([S + 'A1', S + 'B1'], [S + 'D1'])
for model in (reference, trimmed):
    model.set_value(S + 'B1', 5)
name = os.path.join(TMPDIR, 'two.yml')
trimmed.to_file(name)
print('expected (untrimmed)', reference.evaluate(S + 'D1'), '; trimmed direct',
      trimmed.evaluate(S + 'D1'), '; trimmed saved/loaded',
      ExcelCompiler.from_file(name).evaluate(S + 'D1'))

print('--- (3) input range assigned with set_as_range=True, then saved')
path = make_xlsx({'Sheet1': {'A1': 1, 'A2': 2, 'D2': '=SUM(A1:A2)'}}, 'three.xlsx')
reference, trimmed = ExcelCompiler(filename=path), ExcelCompiler(filename=path)
for model in (reference, trimmed):
    model.evaluate(S + 'D2')
trimmed.trim_graph([S + 'A1:A2'], [S + 'D2'])
for model in (reference, trimmed):
    model.set_value(S + 'A1:A2', [[5], [6]], set_as_range=True)
name = os.path.join(TMPDIR, 'three.yml')
trimmed.to_file(name)
print('expected (untrimmed)', reference.evaluate(S + 'D2'), '; trimmed direct',
      trimmed.evaluate(S + 'D2'), '; trimmed saved/loaded',
      ExcelCompiler.from_file(name).evaluate(S + 'D2'))
