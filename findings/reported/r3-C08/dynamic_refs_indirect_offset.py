"""Cells only reached through INDIRECT()/OFFSET() are not precedents for trim_graph:
they are removed, a saved trimmed model reads them as empty; the OFFSET base cell is
frozen although it was never calculated (wrong even without saving)."""
from _common import compare
S = 'Sheet1!'
print('--- INDIRECT')
compare({'Sheet1': {'A1': 1, 'B1': 10, 'B2': 20, 'D1': '=INDIRECT("B"&A1)'}},
        [S + 'A1'], [S + 'D1'], [[(S + 'A1', 2)], [(S + 'A1', 1)]])
print('--- OFFSET')
compare({'Sheet1': {'A1': 1, 'B1': 10, 'B2': 20, 'B3': 30, 'D1': '=OFFSET(B1,A1,0)'}},
        [S + 'A1'], [S + 'D1'], [[(S + 'A1', 2)], [(S + 'A1', 0)]])
print('--- OFFSET whose base cell is a formula that was not needed yet')
compare({'Sheet1': {'A1': 1, 'Z1': 6, 'B1': '=Z1*2', 'B2': 20, 'D1': '=OFFSET(B1,A1,0)'}},
        [S + 'A1'], [S + 'D1'], [[(S + 'A1', 0)], [(S + 'A1', 1)]])
