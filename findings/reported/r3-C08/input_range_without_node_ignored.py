"""An input range that no formula uses as a range (its cells are used one by one) is not
in cell_map: trim_graph only logs a warning, freezes what reads its cells and removes the
cells, so the inputs cannot be assigned any more."""
from _common import compare
S = 'Sheet1!'
compare({'Sheet1': {'A1': 1, 'A2': 2, 'M1': '=A1*2', 'D1': '=M1+A2'}},
        [S + 'A1:A2'], [S + 'D1'], [[(S + 'A1:A2', (5, 6))]])
