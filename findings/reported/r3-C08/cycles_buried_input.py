"""Iterative (cycles) mode: a value assigned to a buried input is recalculated away by
the untrimmed model on the next evaluate, the trimmed model keeps it."""
from _common import compare
S = 'Sheet1!'
compare({'Sheet1': {'X1': 4, 'B1': '=X1*2', 'D1': '=B1+1'}},
        [S + 'B1'], [S + 'D1'], [[(S + 'B1', 5)], [(S + 'B1', 6)]],
        cycles={'iterations': 100, 'tolerance': 0.0001})
