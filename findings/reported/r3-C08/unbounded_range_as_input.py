"""An input given as an unbounded range (Sheet2!A:A): its cells are not taken as inputs,
formulas reading them are frozen (and the frozen value is wiped by the later set_value
in the directly used model)."""
from _common import compare
compare({'Sheet1': {'A1': 1, 'D1': '=SUM(Sheet2!A:A)+A1'}, 'Sheet2': {'A1': 3, 'A2': '=A1*2'}},
        ['Sheet2!A:A'], ['Sheet1!D1'], [[('Sheet2!A1', 5)]])
