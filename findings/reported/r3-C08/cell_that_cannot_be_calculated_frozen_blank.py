"""A cell that feeds an output but raises when calculated (function not implemented) is
frozen as blank: the untrimmed model raises, the trimmed model returns a value."""
from _common import compare
S = 'Sheet1!'
compare({'Sheet1': {'A1': 1, 'B1': '=CHAR(65)', 'D1': '=A1&B1'}},
        [S + 'A1'], [S + 'D1'], [[(S + 'A1', 3)]])
