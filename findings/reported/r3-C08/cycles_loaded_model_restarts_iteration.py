"""Iterative mode, a real cycle that depends on the input: the saved trimmed model has
no previous results and restarts the iteration from blank cells, so it stops at other
values than the untrimmed (and the directly used trimmed) model."""
from _common import compare
S = 'Sheet1!'
compare({'Sheet1': {'A1': 1, 'B1': '=C1*0.5+A1', 'C1': '=B1*0.5', 'E1': 3, 'F1': '=E1*2',
                    'D1': '=B1+C1+F1'}},
        [S + 'A1'], [S + 'D1'], [[(S + 'A1', 5)], [(S + 'A1', 7)]],
        cycles={'iterations': 100, 'tolerance': 0.0001})
