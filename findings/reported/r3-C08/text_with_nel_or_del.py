"""Text holding U+0085 (NEL) comes back with a blank instead after to_file/from_file
(yml, json and pkl); a model with text holding U+007F that was saved as json cannot be
loaded back (ReaderError)."""
from _common import compare
S = 'Sheet1!'
print('--- NEL in a constant that feeds the output')
compare({'Sheet1': {'A1': 1, 'B1': 'a\x85b', 'D1': '=B1&A1', 'E1': '=LEN(B1)+A1'}},
        [S + 'A1'], [S + 'D1', S + 'E1'], [[(S + 'A1', 5)]])
print('--- NEL in a text literal of a kept formula')
compare({'Sheet1': {'A1': 1, 'D1': '="a\x85b"&A1'}}, [S + 'A1'], [S + 'D1'], [[(S + 'A1', 5)]])
print('--- DEL')
compare({'Sheet1': {'A1': 1, 'B1': 'a\x7fb', 'D1': '=B1&A1'}},
        [S + 'A1'], [S + 'D1'], [[(S + 'A1', 5)]])
