"""set_value(buried_input, None): the untrimmed model falls back to the formula of the
cell, the trimmed model (input frozen to a constant) reads it as blank."""
from _common import compare
S = 'Sheet1!'
compare({'Sheet1': {'X1': 4, 'B1': '=X1*2', 'D1': '=B1+1'}},
        [S + 'B1'], [S + 'D1'], [[(S + 'B1', 5)], [(S + 'B1', None)], [(S + 'B1', 6)]])
