"""A kept formula that uses a plugin function and is a cell of a range: from_file (and
to_file for pkl) calculate ranges while the graph is built, before the plugins are known,
and raise UnknownFunction."""
import os
import sys
sys.path.insert(0, os.path.dirname(os.path.abspath(__file__)))
from _common import compare  # noqa: E402
S = 'Sheet1!'
compare({'Sheet1': {'A1': 1, 'B1': '=TRIPLE(A1)', 'B2': 5, 'D1': '=SUM(B1:B2)'}},
        [S + 'A1'], [S + 'D1'], [[(S + 'A1', 2)]], plugins=('myplug_baseline',))
