"""Shared helper of the baseline reproducers (public pycel API only)."""
import logging
import os
import tempfile

from openpyxl import Workbook

from pycel import ExcelCompiler

logging.disable(logging.CRITICAL)

_TMP = os.path.normpath(os.path.join(
    os.path.dirname(os.path.abspath(__file__)), '..', '..', 'tmp'))
TMPDIR = tempfile.mkdtemp(dir=_TMP if os.path.isdir(_TMP) else None)


def make_xlsx(sheets, name='model.xlsx'):
    """sheets: {sheet name: {coordinate: value or formula}}"""
    wb = Workbook()
    for i, (title, cells) in enumerate(sheets.items()):
        ws = wb.active if i == 0 else wb.create_sheet(title)
        ws.title = title
        for coord, value in cells.items():
            ws[coord] = value
    path = os.path.join(TMPDIR, name)
    wb.save(path)
    return path


def evaluate(model, outputs):
    try:
        return model.evaluate(outputs)
    except Exception as exc:  # show it instead of a value
        return f'{type(exc).__name__}: {str(exc).splitlines()[-1][:90]}'


def compare(sheets, inputs, outputs, steps, before_trim=(), formats=('yml', 'json', 'pkl'),
            cycles=None, plugins=None):
    """Untrimmed compile vs trimmed (direct and saved/loaded) under the same set_value calls"""
    path = make_xlsx(sheets)
    kwargs = {}
    if cycles is not None:
        kwargs['cycles'] = cycles
    if plugins is not None:
        kwargs['plugins'] = plugins
    reference = ExcelCompiler(filename=path, **kwargs)
    trimmed = ExcelCompiler(filename=path, **kwargs)
    for model in (reference, trimmed):
        evaluate(model, outputs)
        for addr, value in before_trim:
            model.evaluate(addr)
            model.set_value(addr, value)
        evaluate(model, outputs)
    trimmed.trim_graph(inputs, outputs)
    models = {'trimmed, direct': trimmed}
    bad = 0
    for ext in formats:
        name = os.path.join(TMPDIR, 'trimmed.' + ext)
        try:
            trimmed.to_file(name)
            models['trimmed, ' + ext] = ExcelCompiler.from_file(name, plugins=plugins)
        except Exception as exc:
            print(f'  to_file/from_file ({ext}) failed: {type(exc).__name__}: '
                  f'{str(exc).splitlines()[-1][:90]}')
            bad += 1
    for step in [()] + list(steps):
        for addr, value in step:
            reference.set_value(addr, value)
        expected = evaluate(reference, outputs)
        print(f'after {step!r}: expected (untrimmed) {expected!r}')
        for name, model in models.items():
            try:
                for addr, value in step:
                    model.set_value(addr, value)
                got = evaluate(model, outputs)
            except Exception as exc:
                got = f'{type(exc).__name__}: {str(exc)[:90]}'
            flag = 'ok ' if repr(got) == repr(expected) else 'BAD'
            bad += flag == 'BAD'
            print(f'   {flag} {name}: {got!r}')
    print('DEFECT REPRODUCED' if bad else 'no difference')
    return bad
