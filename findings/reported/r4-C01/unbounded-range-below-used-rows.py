"""C01 on the unmodified tree: a whole column reference and an input cell below
the rows the sheet used when it was compiled.

The unbounded range A:A is bound to the used part of the sheet (A1:A3) once,
when its reference cell is built.  A blank cell further down (A5) can be
evaluated and then set, but it is not a precedent of anything: SUM(A:A) does
not see it, a fresh compile of the workbook holding that value does.

  S!A1:A3 = 1, 2, 3     S!B1 = SUM(A:A)    S!B2 = COUNT(A:A)
"""
import logging
import sys

from openpyxl import Workbook

from pycel import ExcelCompiler

logging.disable(logging.CRITICAL)


def workbook(a5=None):
    wb = Workbook()
    ws = wb.active
    ws.title = 'S'
    ws['A1'], ws['A2'], ws['A3'] = 1, 2, 3
    if a5 is not None:
        ws['A5'] = a5
    ws['B1'] = '=SUM(A:A)'
    ws['B2'] = '=COUNT(A:A)'
    return wb


def main():
    compiler = ExcelCompiler(excel=workbook())
    print('at the start: B1 =', compiler.evaluate('S!B1'),
          ' B2 =', compiler.evaluate('S!B2'))

    # the blank cell has to be in the model before it can be set
    print('A5 =', repr(compiler.evaluate('S!A5')))
    compiler.set_value('S!A5', 10)

    got = compiler.evaluate('S!B1'), compiler.evaluate('S!B2')
    fresh = ExcelCompiler(excel=workbook(10))
    expected = fresh.evaluate('S!B1'), fresh.evaluate('S!B2')
    print('after set_value(S!A5, 10)')
    print('  expected (fresh compile): (B1, B2) =', expected)
    print('  pycel returns           : (B1, B2) =', got)
    if got != expected:
        print('VIOLATION: the column does not see the cell')
        return 1
    print('ok')
    return 0


if __name__ == '__main__':
    sys.exit(main())
