"""C01 on the unmodified tree: xlsx with stored results, a formula whose stored
result is the empty string.

Excel stores the result "" of a formula as  <c t="str"><f>..</f><v></v></c> ;
openpyxl (data_only) reads that as None, so the cell comes into the model as
'not calculated yet' while the cells that were calculated from it come with
their stored results.  _reset() stops at cells without a value, so set_value()
on an input of that formula never reaches what is behind it.

  S!A1  -5
  S!B1  =IF(A1>0,"big","")      stored result ""
  S!C1  =IF(B1="",0,1)          stored result 0
"""
import logging
import os
import sys
import tempfile
import zipfile

from openpyxl import Workbook

from pycel import ExcelCompiler

logging.disable(logging.CRITICAL)


def workbook(a1):
    wb = Workbook()
    ws = wb.active
    ws.title = 'S'
    ws['A1'] = a1
    ws['B1'] = '=IF(A1>0,"big","")'
    ws['C1'] = '=IF(B1="",0,1)'
    return wb


def save_with_results(wb, path, results):
    """openpyxl does not write formula results: put them into the sheet xml"""
    plain = path + '.plain.xlsx'
    wb.save(plain)
    with zipfile.ZipFile(plain) as zin, zipfile.ZipFile(
            path, 'w', zipfile.ZIP_DEFLATED) as zout:
        for item in zin.infolist():
            data = zin.read(item.filename)
            if item.filename == 'xl/worksheets/sheet1.xml':
                xml = data.decode()
                for coord, (cell_type, text) in results.items():
                    start = xml.index(f'<c r="{coord}"')
                    end = xml.index('</c>', start)
                    cell = xml[start:end]
                    assert '<v />' in cell or '<v></v>' in cell, cell
                    cell = cell.replace('<v />', f'<v>{text}</v>').replace(
                        '<v></v>', f'<v>{text}</v>')
                    if cell_type:
                        cell = cell.replace(
                            f'<c r="{coord}"', f'<c r="{coord}" t="{cell_type}"', 1)
                    xml = xml[:start] + cell + xml[end:]
                data = xml.encode()
            zout.writestr(item, data)
    os.unlink(plain)


def main():
    tmp_base = '/tmp/seed4/C01/tmp'
    tmp_dir = tempfile.mkdtemp(dir=tmp_base if os.path.isdir(tmp_base) else None)
    filename = os.path.join(tmp_dir, 'stored.xlsx')
    save_with_results(workbook(-5), filename,
                      {'B1': ('str', ''), 'C1': (None, '0')})

    compiler = ExcelCompiler(filename)
    print('C1 at the start              :', repr(compiler.evaluate('S!C1')))
    print('model after the first build  :',
          {a: c.value for a, c in compiler.cell_map.items()})

    compiler.set_value('S!A1', 5)
    got = compiler.evaluate('S!C1')
    expected = ExcelCompiler(excel=workbook(5)).evaluate('S!C1')
    print('after set_value(S!A1, 5)')
    print('  expected (fresh compile)   : C1 =', repr(expected))
    print('  pycel returns              : C1 =', repr(got),
          ' (B1 =', repr(compiler.evaluate('S!B1')) + ')')
    if got != expected:
        print('VIOLATION: C1 is stale')
        return 1
    print('ok')
    return 0


if __name__ == '__main__':
    sys.exit(main())
