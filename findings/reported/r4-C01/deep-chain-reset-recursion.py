"""C01 on the unmodified tree: a long chain of formulas (a running total over
1500 rows) which was calculated in steps.

_reset() walks the dependants recursively, one python frame per cell.  With a
chain longer than the recursion limit set_value() raises RecursionError half
way: the input is left blank (None), the first ~1000 cells are reset and the
rest keeps its values.  The model stays incoherent: writing the value again
succeeds (the reset now stops at the cells which are already empty) and the
end of the chain never sees the new input.

  S!A1 = 1,  S!A<n> = A<n-1>+1  for n = 2..1500
"""
import logging
import sys

from openpyxl import Workbook

from pycel import ExcelCompiler

logging.disable(logging.CRITICAL)

N = 1500


def workbook(a1):
    wb = Workbook()
    ws = wb.active
    ws.title = 'S'
    ws['A1'] = a1
    for row in range(2, N + 1):
        ws[f'A{row}'] = f'=A{row - 1}+1'
    return wb


def in_steps(compiler):
    # from the top down in steps of 100 rows, no evaluation goes deep
    for row in range(100, N + 1, 100):
        compiler.evaluate(f'S!A{row}')
    return compiler.evaluate(f'S!A{N}')


def main():
    compiler = ExcelCompiler(excel=workbook(1))
    print(f'A{N} at the start:', in_steps(compiler))

    try:
        compiler.set_value('S!A1', 11)
        print('set_value(S!A1, 11): ok')
    except RecursionError:
        print('set_value(S!A1, 11): RecursionError')
    print('  A1 is now', repr(compiler.evaluate('S!A1')))

    # the caller tries again, this time without an error
    compiler.set_value('S!A1', 11)
    print('set_value(S!A1, 11) again: ok, A1 is now',
          repr(compiler.evaluate('S!A1')))

    expected = in_steps(ExcelCompiler(excel=workbook(11)))
    got = in_steps(compiler)
    print(f'expected (fresh compile with A1 = 11): A{N} =', expected)
    print(f'pycel returns                        : A{N} =', got)
    stale = [row for row in range(2, N + 1)
             if compiler.evaluate(f'S!A{row}') != row + 10]
    if stale:
        print(f'VIOLATION: {len(stale)} stale cells, A{stale[0]}..A{stale[-1]}')
        return 1
    print('ok')
    return 0


if __name__ == '__main__':
    sys.exit(main())
