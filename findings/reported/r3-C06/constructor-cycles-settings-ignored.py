"""ExcelCompiler(workbook, cycles={'iterations': .., 'tolerance': ..}): the
documented override of the workbook's iteration settings is replaced by the
workbook's own settings (or by None -> 10000 / 0.01), the requested number of
passes and tolerance are never used."""
from _common import model
import baseline_plugin

m = model({'A1': '=0.5*B1+1+COUNTCALL()', 'B1': '=0.5*A1+1'},
          cycles={'iterations': 3, 'tolerance': 1e-9},
          iterate=True, count=100, delta=0.001, plugins=('baseline_plugin',))
value = m.evaluate('S!A1')
passes = baseline_plugin.calls
print(f'cycles asked for: iterations=3, tolerance=1e-9; '
      f'compiler.cycles = {m.cycles}')
print(f'evaluate(A1) -> {value!r} after {passes} passes')
print('expected by the property: at most 3 passes (1.96875 after 3 passes)')
print('VIOLATED' if passes > 3 else 'ok')
