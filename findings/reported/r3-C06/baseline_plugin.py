"""plugin functions for the baseline reproducers"""
calls = 0


def failif(flag, value):
    """an input that is sometimes not available"""
    if flag:
        raise RuntimeError('input not available')
    return value


def countcall():
    """0, counts how often it is calculated (once per pass)"""
    global calls
    calls += 1
    return 0
