"""Iterative mode: evaluate() of a list that holds an iterable (generator) of
addresses returns an empty tuple for it: only the outermost iterable is made a
tuple before the passes start, the inner one is used up by the first pass and
the results come from the last pass.  Acyclic workbook."""
from _common import model

CELLS = {'A1': 1, 'B1': '=A1+1', 'C1': '=B1+1'}
results = {}
for cycles in (False, True):
    m = model(CELLS, cycles=cycles, iterate=cycles, count=100, delta=0.001)
    results[cycles] = m.evaluate(
        [(addr for addr in ('S!B1', 'S!C1')), 'S!A1'])
    print('iterative' if cycles else 'plain    ', results[cycles])
print('expected by the property: iterative == plain == [(2, 3), 1]')
print('VIOLATED' if results[True] != results[False] else 'ok')
