"""evaluate(addr, iterations=n, tolerance=0) does not iterate until nothing
moves: 0 is falsy, 'tolerance or self.cycles[...] or 0.01' replaces it by the
workbook's (or the default) tolerance, so evaluate stops before the iteration
limit although cells moved by more than the requested tolerance (0).
(iterations=0 is replaced the same way.)"""
from _common import model
import baseline_plugin

m = model({'A1': '=0.5*B1+1+COUNTCALL()', 'B1': '=0.5*A1+1'},
          iterate=True, count=100, delta=0.001, plugins=('baseline_plugin',))
value = m.evaluate('S!A1', iterations=1000, tolerance=0)
passes = baseline_plugin.calls
print(f'evaluate(A1, iterations=1000, tolerance=0) -> {value!r} '
      f'after {passes} passes')
print('expected by the property: stops before pass 1000 only if no cell '
      'moved at all in the last pass, ie: the result is exactly 2.0 '
      '(reached after about 55 passes)')
print('VIOLATED' if passes < 1000 and value != 2 else 'ok')
