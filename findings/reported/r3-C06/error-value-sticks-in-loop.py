"""A circular system keeps an error value forever once a set_value history
passed through a non numeric input: every cell of the loop is calculated from
the previous (error) value of the others.  After the input is a number again
the system is linear and contracting again, the result is not near the fixed
point.  (Excel behaves the same way, listed for completeness.)"""
from _common import model

m = model({'A1': '=0.5*B1+C1', 'B1': '=0.5*A1+1', 'C1': 1},
          iterate=True, count=100, delta=0.001)
first = m.evaluate('S!A1')
m.set_value('S!C1', 'x')
broken = m.evaluate('S!A1')
m.set_value('S!C1', 1)
after = m.evaluate('S!A1')
print((first, broken, after))
print('expected by the property: (about 2, #VALUE!, about 2)')
print('VIOLATED' if not isinstance(after, (int, float)) else 'ok')
