"""Iterative mode: set_value(range, values, set_as_range=True) is ignored by
formulas that read the range (the range is built from its cells again), plain
evaluation uses the values that were set.  Acyclic workbook."""
from _common import model

CELLS = {'A1': 1, 'A2': 2, 'A3': 3, 'B1': '=SUM(A1:A3)'}
results = {}
for cycles in (False, True):
    m = model(CELLS, cycles=cycles, iterate=cycles, count=100, delta=0.001)
    first = m.evaluate('S!B1')
    m.set_value('S!A1:A3', [[10], [20], [30]], set_as_range=True)
    results[cycles] = (first, m.evaluate('S!B1'))
    print('iterative' if cycles else 'plain    ', results[cycles])
print('expected by the property: iterative == plain == (6, 60)')
print('VIOLATED' if results[True] != results[False] else 'ok')
