"""Iterative mode: a formula that evaluates to a reference (OFFSET, INDIRECT)
stays 'in progress' forever when the cell it refers to raised.

_evaluate() dereferences the address after eval() has returned, outside the
try/except of the eval wrapper that clears cell.wip, so the referencing cell
keeps wip=True, answers with its previous value (None) and is never calculated
again - also after the cause of the failure is gone.  Acyclic workbook, plain
evaluation recovers.
"""
from _common import model

CELLS = {'A1': '=OFFSET(B1,0,0)', 'A2': '=A1+1',
         'B1': '=FAILIF(C1,D1)', 'C1': True, 'D1': 7}

results = {}
for cycles in (False, True):
    m = model(CELLS, cycles=cycles, iterate=cycles, count=100, delta=0.001,
              plugins=('baseline_plugin',))
    m.evaluate(['S!C1', 'S!D1'])
    try:
        m.evaluate('S!A2')
        first = 'no error'
    except Exception as exc:
        first = type(exc).__name__
    m.set_value('S!C1', False)          # the input is available now
    after = m.evaluate('S!A2')
    m.set_value('S!D1', 8)
    later = m.evaluate('S!A2')
    results[cycles] = (first, after, later)
    print('iterative' if cycles else 'plain    ', results[cycles])

print('expected by the property: iterative == plain ==',
      ('FormulaEvalError', 8, 9))
print('VIOLATED' if results[True] != results[False] else 'ok')
