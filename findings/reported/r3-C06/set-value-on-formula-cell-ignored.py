"""Iterative mode: set_value() on a formula cell is ignored by the next
evaluate() (the formula is calculated again), plain evaluation keeps the value
that was set.  Acyclic workbook, so both have to agree."""
from _common import model

CELLS = {'A1': 1, 'B1': '=A1+1', 'C1': '=B1*2'}
results = {}
for cycles in (False, True):
    m = model(CELLS, cycles=cycles, iterate=cycles, count=100, delta=0.001)
    first = m.evaluate('S!C1')
    m.set_value('S!B1', 10)
    results[cycles] = (first, m.evaluate('S!C1'), m.evaluate('S!B1'))
    print('iterative' if cycles else 'plain    ', results[cycles])
print('expected by the property: iterative == plain == (4, 20, 10)')
print('VIOLATED' if results[True] != results[False] else 'ok')
