"""A workbook with iterative calculation on and no iterateCount / iterateDelta
(Excel leaves them out when they have their defaults, 100 and 0.001) is
evaluated with up to 10000 passes and a tolerance of 0.01: more passes than
the workbook asks for, and it stops while cells still move by more than the
workbook's 0.001."""
from _common import model
import baseline_plugin

m = model({'A1': '=0.999*B1+1+COUNTCALL()', 'B1': '=A1'}, iterate=True,
          plugins=('baseline_plugin',))
value = m.evaluate('S!A1')
passes = baseline_plugin.calls
print(f'compiler.cycles = {m.cycles}')
print(f'evaluate(A1) -> {value!r} after {passes} passes '
      f'(fixed point 1000, last step about {0.001 * (1000 - value):.3g})')
print('expected (Excel defaults): at most 100 passes')
print('VIOLATED' if passes > 100 else 'ok')
