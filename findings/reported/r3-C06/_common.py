"""helpers for the baseline reproducers"""
import logging
import os
import sys

sys.path.insert(0, os.path.dirname(os.path.abspath(__file__)))
logging.disable(logging.CRITICAL)

from openpyxl import Workbook  # noqa: E402
from pycel import ExcelCompiler  # noqa: E402


def model(cells, cycles=None, iterate=None, count=None, delta=None,
          plugins=None):
    wb = Workbook()
    ws = wb.active
    ws.title = 'S'
    for addr, content in cells.items():
        ws[addr] = content
    if iterate is not None:
        wb.calculation.iterate = iterate
        wb.calculation.iterateCount = count
        wb.calculation.iterateDelta = delta
    return ExcelCompiler(excel=wb, cycles=cycles, plugins=plugins)
