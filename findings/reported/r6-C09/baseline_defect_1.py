"""Baseline defect (unmodified tree), property C09, plain mode.

A formula that uses a range only as a reference (ROW(B1:B3), COLUMN(..), an
operand of an intersection) does not read the cells of the range while it is
calculated.  _evaluate() therefore stores the value of the formula first
(`cell.value = value`) and only then calculates the "reference only" ranges
the formula names (the loop over cell.needed_addresses at the end of
ExcelCompiler._evaluate).  When a cell of such a range fails, that loop raises
AFTER the dependant got its value:

    evaluate(D1)   -> UnknownFunction   (range is calculated while the graph is built)
    evaluate(D1)   -> UnknownFunction   (raised behind `cell.value = value`)
    evaluate(D1)   -> 1                 (the value stored by the failed attempt)

So retrying a dependant of the failing cell does not "fail again": the same
call on the same model raises twice and then answers, the outcome depends on
how often it was tried.  (The number is the one Excel shows, ROW() does not
need B2, but then no attempt should have failed; either way the failed
evaluation left a calculated cell behind.)

exits 1 on the unmodified tree
"""
import logging
import sys

import openpyxl

from pycel import ExcelCompiler
from pycel.excelutil import PyCelException

logging.getLogger('pycel').setLevel(logging.CRITICAL)

wb = openpyxl.Workbook()
ws = wb.active
ws.title = 'S'
ws['A1'] = 1
ws['B1'] = '=A1+1'
ws['B2'] = '=NOPE(A1)'      # the failing cell
ws['B3'] = 3
ws['D1'] = '=ROW(B1:B3)'    # written reference to a range holding the failing cell

compiler = ExcelCompiler(excel=wb)
outcomes = []
for attempt in range(4):
    try:
        outcomes.append(compiler.evaluate('S!D1'))
    except PyCelException as exc:
        outcomes.append(type(exc).__name__)

print(outcomes)
if len(set(map(str, outcomes))) != 1:
    print('the same evaluation on the same model: fails, fails, then answers')
    sys.exit(1)
