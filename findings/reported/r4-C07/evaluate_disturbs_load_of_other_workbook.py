"""C07 baseline: an evaluation on one thread disturbs the load of another
workbook on another thread (same mechanism as the known load/load case, the
patch of openpyxl's reader, but here thread 1 only evaluates).

ExcelOpxWrapper.get_range() - called when an evaluation builds cells - wraps
its reads in mock.patch('openpyxl.worksheet._reader.from_excel', ...), as
load() does.  When the get_range() of thread 1 is entered before, and left in
the middle of, the load() of thread 2, leaving it puts the original reader
function back, and thread 2 reads its date cells as datetime objects.

expected: thread 2 gets Sheet!B1 = 43832 (as it does when run alone)
"""
import datetime as dt
import logging
import os
import sys
import tempfile
import threading
import time

from openpyxl import Workbook
from openpyxl.worksheet.worksheet import Worksheet

from pycel import ExcelCompiler

logging.getLogger('pycel').setLevel(logging.CRITICAL)

TMP = os.path.join(os.path.dirname(os.path.abspath(__file__)), '..', '..', 'tmp')
os.makedirs(TMP, exist_ok=True)
tmp_dir = tempfile.mkdtemp(dir=TMP)

# workbook 2: a date and a formula on it, and enough cells to take a moment
wb = Workbook()
ws = wb.active
ws['A1'] = dt.datetime(2020, 1, 1)
ws['B1'] = '=A1+1'
filler = wb.create_sheet('Filler')
for row in range(1, 20001):
    filler.append([row, row + 1, row + 2])
wb2_name = os.path.join(tmp_dir, 'wb2.xlsx')
wb.save(wb2_name)


def load_and_evaluate():
    compiler = ExcelCompiler(filename=wb2_name)
    return compiler.evaluate('Sheet!B1')


alone = load_and_evaluate()
print('thread 2 alone:                       Sheet!B1 =', repr(alone))


# workbook 1: reading its cells can be held up (stands for a preemption)
armed = threading.Event()
in_read = threading.Event()
go_on = threading.Event()


class SlowSheet(Worksheet):
    def __getitem__(self, key):
        if key == 'B1' and armed.is_set() and not in_read.is_set():
            in_read.set()
            go_on.wait(120)
        return super().__getitem__(key)


wb1 = Workbook()
wb1.remove(wb1.active)
ws1 = SlowSheet(wb1, title='Sheet')
wb1._add_sheet(ws1)
ws1['A1'] = 1
ws1['B1'] = '=A1+1'
ws1['C1'] = '=B1+1'
compiler_1 = ExcelCompiler(excel=wb1)
armed.set()

results = {}


def thread_1():
    results[1] = compiler_1.evaluate('Sheet!C1')


def thread_2():
    try:
        results[2] = load_and_evaluate()
    except Exception as exc:
        results[2] = f'{type(exc).__name__}: {str(exc).strip().splitlines()[-1]}'


def in_load(thread):
    frame = sys._current_frames().get(thread.ident)
    while frame is not None:
        if frame.f_code.co_name == 'load_workbook':
            return True
        frame = frame.f_back
    return False


t1 = threading.Thread(target=thread_1)
t1.start()
assert in_read.wait(120)        # thread 1 is inside get_range()
t2 = threading.Thread(target=thread_2)
t2.start()
while t2.is_alive() and not in_load(t2):
    time.sleep(0.001)           # thread 2 has begun to load
go_on.set()                     # thread 1 leaves get_range()
t1.join()
t2.join()

print('thread 1 (evaluates only):            Sheet!C1 =', repr(results[1]))
print('thread 2 with thread 1 evaluating:    Sheet!B1 =', repr(results[2]))
print('expected for thread 2:                Sheet!B1 =', repr(alone))
print('DEFECT' if results[2] != alone else 'not reproduced')
