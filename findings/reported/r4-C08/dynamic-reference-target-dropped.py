"""The cell that OFFSET() / INDIRECT() points at is not a precedent in the
graph: trim_graph drops it, and the saved trimmed model reads it as blank.

expected (untrimmed model): C1 = A<B1+1>, C2 = A<B1>, C3 = SUM(A1:A<B1+1>)
"""
from _common import compiled, evaluate, saved_and_loaded

INPUTS, OUTPUTS = ['S!B1'], ['S!C1', 'S!C2', 'S!C3']
cells = {'A1': 10, 'A2': 20, 'A3': 30, 'B1': 1,
         'C1': '=OFFSET(A1,B1,0)', 'C2': '=INDIRECT("A"&B1)',
         'C3': '=SUM(A1:OFFSET(A1,B1,0))'}

untrimmed = compiled(cells, OUTPUTS)
trimmed = compiled(cells, OUTPUTS)
trimmed.trim_graph(INPUTS, OUTPUTS)
models = {'trimmed (live)': trimmed}
for ft in ('yml', 'json', 'pkl'):
    models[f'trimmed, saved as {ft} and loaded'] = saved_and_loaded(trimmed, ft, 'dyn')

for b1 in (None, 2):
    if b1 is not None:
        untrimmed.set_value('S!B1', b1)
    print(f'B1={b1 or 1}: expected (untrimmed) {evaluate(untrimmed, OUTPUTS)}')
    for name, model in models.items():
        if b1 is not None:
            model.set_value('S!B1', b1)
        print(f'    {name}: {evaluate(model, OUTPUTS)}')
