"""(outside the quantifier of the property: it needs recalculate())
trim_graph removes the plain range A1:A3 behind the whole column reference
A:A from cell_map when no input reaches it.  recalculate() on the live trimmed
model evaluates the cell standing in for A:A again, which takes the missing
range for 'a single cell' and stores the data nested one level too deep:
INDEX / MATCH over A:A then give #REF! / a wrong answer.

expected (untrimmed model, also after recalculate()): C1 = INDEX(A:A,D1) + MATCH(30,A:A,0)
"""
from _common import compiled, evaluate

INPUTS, OUTPUTS = ['S!D1'], ['S!C1']
cells = {'A1': 10, 'A2': 20, 'A3': 30, 'D1': 2,
         'B1': '=INDEX(A:A,D1)', 'B2': '=MATCH(30,A:A,0)', 'C1': '=B1+B2'}

untrimmed = compiled(cells, OUTPUTS)
trimmed = compiled(cells, OUTPUTS)
trimmed.trim_graph(INPUTS, OUTPUTS)
untrimmed.recalculate()
trimmed.recalculate()
print(f'after recalculate(): expected (untrimmed) {evaluate(untrimmed, OUTPUTS)}'
      f'   trimmed (live): {evaluate(trimmed, OUTPUTS)}')
untrimmed.set_value('S!D1', 3)
trimmed.set_value('S!D1', 3)
print(f'D1=3: expected (untrimmed) {evaluate(untrimmed, OUTPUTS)}'
      f'   trimmed (live): {evaluate(trimmed, OUTPUTS)}')
print('value held for A:A in the trimmed model:', trimmed.cell_map['S!A:A'].value)
