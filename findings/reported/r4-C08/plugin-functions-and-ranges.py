"""Loading a text file (yml/json) calculates every range, and with it the
formulas below the ranges, before from_file() has set the plugins.

a) a plugin function outside any range: the evaluator was built at load time
   without the plugins and is kept, so the function stays unknown in the model
   loaded from yml/json (the pickle is fine).
b) a plugin function in a cell of a range: from_file() of yml/json raises, and
   to_file() cannot even write the pickle (it is built by loading the text).

expected (untrimmed model): a) D1 = SUM(B1:B2) + TRIPLE(A1)   b) C1 = SUM(B1:B2)
"""
from _common import ExcelCompiler, TMP, compiled, evaluate
import os

PLUGINS = ('baseline_plugin', )
INPUTS = ['S!A1']

cases = {
    'a': ({'A1': 1, 'B1': '=A1*2', 'B2': 5, 'C1': '=SUM(B1:B2)',
           'C2': '=TRIPLE(A1)', 'D1': '=C1+C2'}, ['S!D1']),
    'b': ({'A1': 1, 'B1': '=TRIPLE(A1)', 'B2': 5, 'C1': '=SUM(B1:B2)'}, ['S!C1']),
}

for case, (cells, outputs) in cases.items():
    untrimmed = compiled(cells, outputs, plugins=PLUGINS)
    trimmed = compiled(cells, outputs, plugins=PLUGINS)
    trimmed.trim_graph(INPUTS, outputs)
    print(f'case {case}: expected (untrimmed) A1=1: {evaluate(untrimmed, outputs)}', end='')
    untrimmed.set_value('S!A1', 2)
    print(f'  A1=2: {evaluate(untrimmed, outputs)}')
    print(f'    trimmed (live): A1=1: {evaluate(trimmed, outputs)}')
    for ft in ('yml', 'json', 'pkl'):
        name = os.path.join(TMP, f'plug_{case}_{ft}_file')
        try:
            trimmed.to_file(name, file_types=ft)
        except Exception as exc:  # noqa
            print(f'    to_file({ft}) raised {type(exc).__name__}: '
                  + str(exc).strip().splitlines()[-1])
            continue
        try:
            model = ExcelCompiler.from_file(f'{name}.{ft}', plugins=PLUGINS)
        except Exception as exc:  # noqa
            print(f'    from_file({ft}, plugins=...) raised {type(exc).__name__}: '
                  + str(exc).strip().splitlines()[-1])
            continue
        first = evaluate(model, outputs)
        model.set_value('S!A1', 2)
        print(f'    trimmed, saved as {ft} and loaded: A1=1: {first}  '
              f'A1=2: {evaluate(model, outputs)}')
