"""plugin module for plugin-functions-and-ranges.py"""


def triple(x):
    return x * 3
