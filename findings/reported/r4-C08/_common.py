"""helpers shared by the reproducers in this directory"""
import atexit
import logging
import os
import shutil
import sys
import tempfile

from openpyxl import Workbook

sys.path.insert(0, os.path.dirname(os.path.abspath(__file__)))

from pycel import ExcelCompiler  # noqa: E402

logging.getLogger('pycel').setLevel(logging.CRITICAL)

_TMP_ROOT = os.path.join(os.path.dirname(os.path.dirname(os.path.dirname(
    os.path.abspath(__file__)))), 'tmp')
os.makedirs(_TMP_ROOT, exist_ok=True)
TMP = tempfile.mkdtemp(dir=_TMP_ROOT)
atexit.register(shutil.rmtree, TMP, ignore_errors=True)


def workbook(cells, sheet='S'):
    wb = Workbook()
    ws = wb.active
    ws.title = sheet
    for addr, value in cells.items():
        ws[addr] = value
    return wb


def compiled(cells, outputs, **kwargs):
    model = ExcelCompiler(excel=workbook(cells), **kwargs)
    model.evaluate(outputs)
    return model


def saved_and_loaded(model, file_type, tag, **kwargs):
    name = os.path.join(TMP, f'{tag}_{file_type}_file')
    model.to_file(name, file_types=file_type)
    return ExcelCompiler.from_file(f'{name}.{file_type}', **kwargs)


def evaluate(model, outputs):
    try:
        return model.evaluate(outputs)
    except Exception as exc:  # noqa
        return f'{type(exc).__name__}: ' + str(exc).strip().splitlines()[-1]
