"""set_value(input, None) on a buried (formula) input.  In the untrimmed model
the cell keeps its formula, a value of None reads as 'not calculated' and the
formula result comes back; in the trimmed model the input was frozen (no
formula) and None is a blank.

expected (untrimmed model): D1 = B1*2 + A1, with B1 back at A1+A2 = 3
"""
from _common import compiled, evaluate, saved_and_loaded

INPUTS, OUTPUTS = ['S!B1'], ['S!D1']
cells = {'A1': 1, 'A2': 2, 'B1': '=A1+A2', 'C1': '=B1*2', 'D1': '=C1+A1'}

untrimmed = compiled(cells, OUTPUTS)
trimmed = compiled(cells, OUTPUTS)
trimmed.trim_graph(INPUTS, OUTPUTS)
models = {'trimmed (live)': trimmed}
for ft in ('yml', 'pkl'):
    models[f'trimmed, saved as {ft} and loaded'] = saved_and_loaded(trimmed, ft, 'none')

for b1 in (5, None, 4):
    untrimmed.set_value('S!B1', b1)
    print(f'B1:={b1}: expected (untrimmed) {evaluate(untrimmed, OUTPUTS)}')
    for name, model in models.items():
        model.set_value('S!B1', b1)
        print(f'    {name}: {evaluate(model, OUTPUTS)}')
