"""An unbounded range (A:A) given as an input: the node for it is the cell
that stands in for the range, not a range, so its cells are not taken as
inputs.  B2 (=A2*2) is frozen; in the live model set_value(A2) then wipes the
frozen B2 (the graph still has the edge), in the saved model B2 stays at its
trim-time value.

expected (untrimmed model): C1 = SUM(A:A) + A2*2
"""
from _common import compiled, evaluate, saved_and_loaded

INPUTS, OUTPUTS = ['S!A:A'], ['S!C1']
cells = {'A1': 1, 'A2': 2, 'A3': 3,
         'B1': '=SUM(A:A)', 'B2': '=A2*2', 'C1': '=B1+B2'}

untrimmed = compiled(cells, OUTPUTS)
trimmed = compiled(cells, OUTPUTS)
trimmed.trim_graph(INPUTS, OUTPUTS)
models = {'trimmed (live)': trimmed}
for ft in ('yml', 'pkl'):
    models[f'trimmed, saved as {ft} and loaded'] = saved_and_loaded(trimmed, ft, 'unb')

for a2 in (None, 5):
    if a2 is not None:
        untrimmed.set_value('S!A2', a2)
    print(f'A2={a2 or 2}: expected (untrimmed) {evaluate(untrimmed, OUTPUTS)}')
    for name, model in models.items():
        if a2 is not None:
            model.set_value('S!A2', a2)
        print(f'    {name}: {evaluate(model, OUTPUTS)}')
