"""An input range whose cells are only read one by one (=A1+A2+A3) is not a
node of the graph.  trim_graph only logs a warning ('not found in cell_map'),
does not treat the cells of the range as inputs, freezes the formula that
reads them and removes the input cells from the model: set_value() on them
fails, and after evaluating the address (as the message suggests) set_value()
has no effect on the output.

expected (untrimmed model): C1 = (A1+A2+A3)*2
"""
from _common import compiled, evaluate, saved_and_loaded

INPUTS, OUTPUTS = ['S!A1:A3'], ['S!C1']
cells = {'A1': 1, 'A2': 2, 'A3': 3, 'B1': '=A1+A2+A3', 'C1': '=B1*2'}

untrimmed = compiled(cells, OUTPUTS)
trimmed = compiled(cells, OUTPUTS)
trimmed.trim_graph(INPUTS, OUTPUTS)          # no exception
print('cells of the trimmed model:', sorted(trimmed.cell_map))
models = {'trimmed (live)': trimmed}
for ft in ('yml', 'pkl'):
    models[f'trimmed, saved as {ft} and loaded'] = saved_and_loaded(trimmed, ft, 'rng')

print(f'A1=1: expected (untrimmed) {evaluate(untrimmed, OUTPUTS)}')
for name, model in models.items():
    print(f'    {name}: {evaluate(model, OUTPUTS)}')

untrimmed.set_value('S!A1', 5)
print(f'A1=5: expected (untrimmed) {evaluate(untrimmed, OUTPUTS)}')
for name, model in models.items():
    try:
        model.set_value('S!A1', 5)
        note = ''
    except AssertionError as exc:
        note = f'set_value raised AssertionError ({str(exc)[:45]}...); '
        model.evaluate('S!A1')
        model.set_value('S!A1', 5)
        note += 'after evaluate(A1) and set_value: '
    print(f'    {name}: {note}{evaluate(model, OUTPUTS)}')
