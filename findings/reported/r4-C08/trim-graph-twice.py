"""(outside the quantifier of the property: a second trim_graph call)
trim_graph removes the plain ranges no input reaches from cell_map but its
precedent walk looks every precedent up in cell_map: calling trim_graph again
with the same arguments raises KeyError, unless the range happened to be
rebuilt by an evaluation in between.

expected: the second call is a no-op
"""
from _common import compiled, evaluate

INPUTS, OUTPUTS = ['S!D1'], ['S!C1']
cells = {'A1': 10, 'A2': 20, 'A3': 30, 'D1': 2,
         'B1': '=SUM(A1:A3)+D1', 'C1': '=B1*2'}
trimmed = compiled(cells, OUTPUTS)
trimmed.trim_graph(INPUTS, OUTPUTS)
print('after first trim_graph:', evaluate(trimmed, OUTPUTS))
try:
    trimmed.trim_graph(INPUTS, OUTPUTS)
    print('second trim_graph: ok')
except Exception as exc:  # noqa
    print(f'second trim_graph raised {type(exc).__name__}: {exc}')
