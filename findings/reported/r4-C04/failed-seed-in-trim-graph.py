"""A seed that cannot be built, given together with good ones, leaves the good
ones in the model without their precedent->dependant edges.

_gen_graph(iterable) makes the cells of every seed first and wires them
afterwards.  When a later seed raises (here: an output address on a sheet
that does not exist, given to trim_graph) the cells already made stay in
cell_map and on graph_todos.  evaluate() finds them in cell_map, so it does
not build (and wire) anything: when all their precedents are in the model
already, they are calculated fine but never get an edge, and go stale.
"""
from openpyxl import Workbook
from pycel import ExcelCompiler

wb = Workbook()
ws = wb.active
ws.title = 'Sheet1'
ws['A1'] = 1
ws['B1'] = '=A1+1'
ws['C1'] = '=A1*10'

sc = ExcelCompiler(excel=wb)
assert sc.evaluate('Sheet1!C1') == 10      # A1 and C1 are in the model

try:
    sc.trim_graph(input_addrs=['Sheet1!A1'],
                  output_addrs=['Sheet1!B1', 'NoSuchSheet!A1'])
except KeyError as exc:
    print('trim_graph failed, as it should:', exc)

print('B1 =', sc.evaluate('Sheet1!B1'), '(A1 is 1)')
sc.set_value('Sheet1!A1', 5)
b1 = sc.evaluate('Sheet1!B1')
a1_cell, b1_cell = sc.cell_map['Sheet1!A1'], sc.cell_map['Sheet1!B1']
print('B1 reads A1, declared precedents of B1:',
      [a.address for a in b1_cell.needed_addresses])
print('edge A1 -> B1 in dep_graph:', sc.dep_graph.has_edge(a1_cell, b1_cell))
print('after set_value(A1, 5): expected B1 = 6, pycel returns', b1,
      '| C1 =', sc.evaluate('Sheet1!C1'))
print('DEFECT' if b1 != 6 else 'ok')
