"""Same defect as parse-failure-while-wiring.py, with an everyday trigger: a
sheet whose name holds a double quote (6" pipe - legal in Excel).

The code generated for D2 is _C_("6" pipe!A1") * 2, python's tokenizer stops
on it inside ExcelFormula.needed_addresses, which _process_gen_graph() calls
outside of its try block.  D1 was queued together with D2 (both are precedents
of D3) and is left on graph_todos: it is in cell_map, it is calculated, but it
never gets the edge from A1 and does not follow set_value().
"""
import logging

from openpyxl import Workbook
from pycel import ExcelCompiler

logging.disable(logging.CRITICAL)

wb = Workbook()
ws = wb.active
ws.title = 'Sheet1'
wb.create_sheet('6" pipe')['A1'] = 7
ws['A1'] = 1
ws['D1'] = '=A1+1'
ws['D2'] = "='6\" pipe'!A1*2"
ws['D3'] = '=D1+D2'
ws['E1'] = '=A1*100'

sc = ExcelCompiler(excel=wb)
assert sc.evaluate('Sheet1!E1') == 100     # A1 is in the model
try:
    sc.evaluate('Sheet1!D3')
except Exception as exc:
    print('evaluate(D3) failed:', type(exc).__name__, exc)

print('D1 =', sc.evaluate('Sheet1!D1'), '(A1 is 1)')
sc.set_value('Sheet1!A1', 5)
d1 = sc.evaluate('Sheet1!D1')
print('edge A1 -> D1 in dep_graph:', sc.dep_graph.has_edge(
    sc.cell_map['Sheet1!A1'], sc.cell_map['Sheet1!D1']))
print('after set_value(A1, 5): expected D1 = 6, pycel returns', d1)
print('DEFECT' if d1 != 6 else 'ok')
