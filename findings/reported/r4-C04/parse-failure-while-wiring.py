"""A formula that cannot be compiled, met while the graph is wired, leaves the
cells that were still waiting without their precedent->dependant edges.

_process_gen_graph() only guards the building of a precedent.  When
`dependant.needed_addresses` itself raises (the formula of D2 is legal Excel,
pycel's parser stops with an AssertionError on it) the nodes still on
graph_todos (D1) stay there.  D1 is in cell_map, evaluate() does not build
anything for it, and as its precedent A1 was in the model already nothing else
triggers the wiring: D1 is calculated, but has no edge from A1.
"""
from openpyxl import Workbook
from pycel import ExcelCompiler

wb = Workbook()
ws = wb.active
ws.title = 'Sheet1'
ws['A1'], ws['B1'], ws['C3'] = 1, 2, 3
ws['D1'] = '=A1+1'
ws['D2'] = '=SUM((A1):(C3))'
ws['D3'] = '=D1+D2'
ws['E1'] = '=A1*100'

sc = ExcelCompiler(excel=wb)
assert sc.evaluate('Sheet1!E1') == 100     # A1 is in the model

try:
    sc.evaluate('Sheet1!D3')
except Exception as exc:
    print('evaluate(D3) failed:', type(exc).__name__)

print('D1 =', sc.evaluate('Sheet1!D1'), '(A1 is 1)')
sc.set_value('Sheet1!A1', 5)
d1 = sc.evaluate('Sheet1!D1')
a1_cell, d1_cell = sc.cell_map['Sheet1!A1'], sc.cell_map['Sheet1!D1']
print('D1 reads A1, declared precedents of D1:',
      [a.address for a in d1_cell.needed_addresses])
print('edge A1 -> D1 in dep_graph:', sc.dep_graph.has_edge(a1_cell, d1_cell))
print('after set_value(A1, 5): expected D1 = 6, pycel returns', d1,
      '| E1 =', sc.evaluate('Sheet1!E1'))
print('DEFECT' if d1 != 6 else 'ok')
