"""Baseline defect (unmodified tree): the clip of an unbounded range depends on
which (empty) cells were evaluated before the range was first compiled.

ExcelOpxWrapper.max_col_row() takes openpyxl's max_row / max_column the first
time an unbounded range of the sheet is needed and keeps them.  openpyxl
creates a cell object for every coordinate that is merely looked at, so
evaluating an empty cell outside the used area (directly, or as precedent of
a formula such as =E20) before the first use of A:A enlarges the "used area".
"""
import logging

import openpyxl

from pycel import ExcelCompiler

logging.getLogger('pycel').setLevel(logging.CRITICAL)


def workbook():
    wb = openpyxl.Workbook()
    ws = wb.active
    ws.title = 'Sheet1'
    ws['A1'], ws['A2'], ws['A3'] = 1, 2, 3
    ws['C1'] = '=COUNTIF(A:A,"")'     # blanks seen in column A
    ws['C2'] = '=INDEX(A:A,10)'       # row 10 of column A
    ws['C3'] = '=E20'                 # E20 is empty
    return wb


ADDRS = ('Sheet1!C1', 'Sheet1!C2', 'Sheet1!A:A')

a = ExcelCompiler(excel=workbook())
res_a = {addr: a.evaluate(addr) for addr in ADDRS}

b = ExcelCompiler(excel=workbook())
b.evaluate('Sheet1!C3')              # or b.evaluate('Sheet1!E20')
res_b = {addr: b.evaluate(addr) for addr in ADDRS}

print('expected by C05: the same values in both orders')
print('C1, C2, A:A evaluated first       :', res_a)
print('C3 (=E20) evaluated before them   :', res_b)
print('SAME' if res_a == res_b else 'DIFFERENT (defect)')
