"""Baseline defect (unmodified tree): CELL("contents", <reference>) reads the
cell through the compiler that most recently LOADED a formula using CELL, not
through the compiler the formula belongs to.

lib/information.py cell() (and lib/lookup.py index() for arrays of addresses)
take `_C_` from  <function>.excel_func_meta['name_space'], a dict that is
shared by all compilers of the process and overwritten by apply_meta() every
time any formula using the function is loaded.  With two models alive, a
recalculation of the first one (no input changed) gives the value of the
other workbook.
"""
import logging

import openpyxl

from pycel import ExcelCompiler

logging.getLogger('pycel').setLevel(logging.CRITICAL)


def workbook(a1):
    wb = openpyxl.Workbook()
    ws = wb.active
    ws.title = 'Sheet1'
    ws['A1'] = a1
    ws['D2'] = '=CELL("contents",INDIRECT("A1"))'
    return wb


x = ExcelCompiler(excel=workbook(1))
y = ExcelCompiler(excel=workbook(100))
before = x.evaluate('Sheet1!D2')
y.evaluate('Sheet1!D2')
x.recalculate()                      # nothing was changed in x
after = x.evaluate('Sheet1!D2')

print('expected: x.evaluate(D2) == x.evaluate(A1) == 1 before and after recalculate()')
print('x D2 before:', before, '  x D2 after x.recalculate():', after,
      '  x A1:', x.evaluate('Sheet1!A1'))
print('SAME' if before == after == 1 else 'DIFFERENT (defect)')
