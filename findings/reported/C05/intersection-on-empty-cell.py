"""Baseline defect (unmodified tree, not an order dependence): a range
intersection that resolves to a single EMPTY cell cannot be evaluated.

`=A5:A7 A6:C6` compiles to _R_(str(_REF_(..) & _REF_(..))), _evaluate_range()
gets the _Cell of A6, which "needs calc" because its value is None, and
treats it as a range (AttributeError on .addresses, reported as
FormulaEvalError).  With a constant in A6 the same formula gives its value,
Excel gives 0 for the empty cell.
"""
import logging

import openpyxl

from pycel import ExcelCompiler

logging.getLogger('pycel').setLevel(logging.CRITICAL)

for a6 in (7, None):
    wb = openpyxl.Workbook()
    ws = wb.active
    ws.title = 'Sheet1'
    ws['A5'], ws['A7'], ws['B6'] = 1, 2, 3
    ws['A6'] = a6
    ws['D2'] = '=A5:A7 A6:C6'
    compiler = ExcelCompiler(excel=wb)
    try:
        result = compiler.evaluate('Sheet1!D2')
    except Exception as exc:
        result = f'{type(exc).__name__}: {str(exc).splitlines()[-1][:90]}'
    print(f'A6 = {a6!r}: expected {a6 or 0}, pycel returns: {result}')
