"""Baseline defect (unmodified tree): a range that starts at the top left of a
CSE array formula and covers a second array formula with the same text is
taken to be ONE array formula of the size of the range.

_OpxRange.__new__ (excelwrapper.py) only checks that every cell of the range
holds a CSE_INDEX(...) marker starting with the same formula text, not that
the cells belong to the same array.  Here A1:A2 and A3:A4 each hold
{=$D$1:$D$2}.  evaluate('Sheet1!A3') is 10, but the third element of
evaluate('Sheet1!A1:A4') is '#N/A' (the 2 row result "fitted" to 4 rows), in
every evaluation order; =SUM(A1:A4) is '#N/A' instead of 60.
"""
import logging

import openpyxl
from openpyxl.worksheet.formula import ArrayFormula

from pycel import ExcelCompiler

logging.getLogger('pycel').setLevel(logging.CRITICAL)

wb = openpyxl.Workbook()
ws = wb.active
ws.title = 'Sheet1'
ws['D1'], ws['D2'] = 10, 20
ws['A1'] = ArrayFormula('A1:A2', '=$D$1:$D$2')
ws['A3'] = ArrayFormula('A3:A4', '=$D$1:$D$2')
ws['F1'] = '=SUM(A1:A4)'

compiler = ExcelCompiler(excel=wb)
cells = tuple(compiler.evaluate(f'Sheet1!A{i}') for i in (1, 2, 3, 4))
rng = compiler.evaluate('Sheet1!A1:A4')
total = compiler.evaluate('Sheet1!F1')
print('expected by C05: evaluate(A1:A4) == the four cells == (10, 20, 10, 20), F1 == 60')
print('cells one by one :', cells)
print('evaluate(A1:A4)  :', rng)
print('F1 =SUM(A1:A4)   :', total)
print('SAME' if cells == rng and total == 60 else 'DIFFERENT (defect)')
