"""Baseline defect (unmodified tree): the sheet-less access path
(evaluate('D3'), resolved with the active sheet) works on a compiler built
from the workbook, but raises AttributeError on the same model after
to_file() / from_file(): _CompiledImporter has no get_active_sheet_name().
"""
import logging
import os
import tempfile

import openpyxl

from pycel import ExcelCompiler

logging.getLogger('pycel').setLevel(logging.CRITICAL)

wb = openpyxl.Workbook()
ws = wb.active
ws.title = 'Sheet1'
ws['A1'] = 1
ws['D3'] = '=A1+1'
filename = os.path.join(tempfile.mkdtemp(), 'model.xlsx')
wb.save(filename)

compiler = ExcelCompiler(filename)
print('expected: evaluate("D3") == evaluate("Sheet1!D3") == 2, before and after save/load')
print('compiler:', compiler.evaluate('Sheet1!D3'), compiler.evaluate('D3'))
compiler.to_file(file_types=('yml', ))
loaded = ExcelCompiler.from_file(filename)
print('loaded  :', loaded.evaluate('Sheet1!D3'), end=' ')
try:
    print(loaded.evaluate('D3'))
    print('SAME')
except Exception as exc:
    print(f'{type(exc).__name__}: {exc}')
    print('DIFFERENT (defect)')
