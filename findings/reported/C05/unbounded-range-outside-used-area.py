"""Baseline defect (unmodified tree): an unbounded range that does not touch
the used area of its sheet cannot be evaluated, unless some cell of it was
looked at before.

ExcelOpxWrapper.get_range() intersects F:F with the used area A1:B2, the
result is the string '#NULL!' and the next line asks it for .coordinate.
Excel gives 0 for =SUM(F:F).  After evaluate('Sheet1!F9') (an empty cell)
openpyxl reports a larger used area and the same calls succeed, so the
outcome depends on the evaluation order.
"""
import logging

import openpyxl

from pycel import ExcelCompiler

logging.getLogger('pycel').setLevel(logging.CRITICAL)


def workbook():
    wb = openpyxl.Workbook()
    ws = wb.active
    ws.title = 'Sheet1'
    ws['A1'], ws['A2'], ws['B1'] = 1, 2, 3
    ws['D1'] = '=SUM(F:F)'
    return wb


def attempt(compiler, addr):
    try:
        return compiler.evaluate(addr)
    except Exception as exc:
        return f'{type(exc).__name__}: {str(exc).splitlines()[-1][:80]}'


a = ExcelCompiler(excel=workbook())
res_a = [attempt(a, addr) for addr in ('Sheet1!D1', 'Sheet1!F:F')]
b = ExcelCompiler(excel=workbook())
b.evaluate('Sheet1!F9')
res_b = [attempt(b, addr) for addr in ('Sheet1!D1', 'Sheet1!F:F')]

print('expected: D1 == 0 and F:F all empty, in both orders')
print('D1, F:F evaluated first     :', res_a)
print('F9 (empty) evaluated before :', res_b)
print('SAME' if res_a == res_b else 'DIFFERENT (defect)')
