"""Two CSE array formulas with the same formula text, one directly below the
other.  A range that starts at the top left of the first array and also covers
the second one is taken for ONE array formula over the whole range
(_OpxRange.__new__ only checks that every cell starts with the same formula
text), so the elements of evaluate(range) differ from evaluate(cell).
"""
import logging

import openpyxl
from openpyxl.worksheet.formula import ArrayFormula

from pycel import ExcelCompiler

logging.disable(logging.CRITICAL)


def workbook():
    wb = openpyxl.Workbook()
    ws = wb.active
    ws.title = 'S'
    ws['B1'], ws['B2'] = 1, 2
    ws['A1'] = ArrayFormula('A1:A2', '=$B$1:$B$2*2')
    ws['A3'] = ArrayFormula('A3:A4', '=$B$1:$B$2*2')
    return wb


expected = (2, 4, 2, 4)
print('expected by the property: every access path gives', expected)
for order in ('cells first', 'range first'):
    compiler = ExcelCompiler(excel=workbook())
    if order == 'cells first':
        cells = tuple(compiler.evaluate(f'S!A{r}') for r in range(1, 5))
        rng = compiler.evaluate('S!A1:A4')
    else:
        rng = compiler.evaluate('S!A1:A4')
        cells = tuple(compiler.evaluate(f'S!A{r}') for r in range(1, 5))
    col = compiler.evaluate('S!A:A')
    print(f'{order}: cells={cells} range A1:A4={rng} column A:A={col}')
    print('   ->', 'OK' if cells == rng == col == expected else 'MISMATCH')
