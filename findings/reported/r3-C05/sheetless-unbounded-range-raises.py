"""A sheet-less address is resolved with the active sheet, which works for cells
and bounded ranges, but AddressRange('A:A', sheet=...) rebuilds the corners from
their coordinates 'A' / '1', which are not addresses: evaluate('A:A') and
evaluate('1:1') raise ValueError while evaluate('S!A:A') / evaluate('S!1:1')
work (S being the active sheet).
"""
import logging

import openpyxl

from pycel import ExcelCompiler

logging.disable(logging.CRITICAL)


def workbook():
    wb = openpyxl.Workbook()
    ws = wb.active
    ws.title = 'S'
    for r in (1, 2, 3):
        ws[f'A{r}'] = r
        ws[f'B{r}'] = f'=A{r}*2'
    return wb


print('expected by the property: sheet-less address == address on the active sheet')
mismatch = False
for addr in ('B2', 'A1:B2', 'B:B', '1:1', 'A:B'):
    compiler = ExcelCompiler(excel=workbook())
    with_sheet = compiler.evaluate(f'S!{addr}')
    try:
        sheetless = compiler.evaluate(addr)
    except Exception as exc:
        sheetless = f'raises {type(exc).__name__}: {exc}'
    ok = sheetless == with_sheet
    mismatch |= not ok
    print(f"  evaluate('S!{addr}') = {with_sheet!r}; evaluate('{addr}') = "
          f"{sheetless!r}{'' if ok else '   <-- MISMATCH'}")
print('->', 'MISMATCH' if mismatch else 'OK')
