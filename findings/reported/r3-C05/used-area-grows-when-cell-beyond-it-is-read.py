"""The used area of a sheet (which clips A:A, 1:1 ...) is taken from openpyxl's
max_row/max_column the first time an unbounded range is resolved.  Reading a
cell beyond the used area (evaluate('S!A9'), or a formula =A9+1) makes openpyxl
create that cell, which grows max_row.  So what A:A means, and the value of a
formula using it, depends on what was evaluated before.
"""
import logging
import os
import tempfile

import openpyxl

from pycel import ExcelCompiler

logging.disable(logging.CRITICAL)


def workbook():
    wb = openpyxl.Workbook()
    ws = wb.active
    ws.title = 'S'
    ws['A1'], ws['A2'] = 1, 2
    ws['B1'] = '=INDEX(A:A,5)'      # row 5 is outside of the used area A1:C2
    ws['C1'] = '=A9+1'
    return wb


def run(make_compiler, label):
    print(label)
    c = make_compiler()
    b1_first = c.evaluate('S!B1'), c.evaluate('S!A:A')
    c = make_compiler()
    c.evaluate('S!C1')
    c1_first = c.evaluate('S!B1'), c.evaluate('S!A:A')
    c = make_compiler()
    c.evaluate('S!A9')
    a9_first = c.evaluate('S!B1'), c.evaluate('S!A:A')
    print('  expected by the property: B1 and A:A the same in all three runs')
    print('  B1, A:A evaluated first          :', b1_first)
    print('  C1 (=A9+1) evaluated first       :', c1_first)
    print('  empty cell S!A9 evaluated first  :', a9_first)
    print('  ->', 'OK' if b1_first == c1_first == a9_first else 'MISMATCH')


run(lambda: ExcelCompiler(excel=workbook()), 'workbook in memory')

base = os.path.join(os.path.dirname(os.path.abspath(__file__)), '..', '..', 'tmp')
tmp_dir = tempfile.mkdtemp(dir=base if os.path.isdir(base) else None)
path = os.path.join(tmp_dir, 'used_area.xlsx')
workbook().save(path)
run(lambda: ExcelCompiler(filename=path), 'workbook loaded from xlsx')
