"""A CSE array formula on a sheet whose name has to be quoted in a formula but
holds no blank ("A-B").  The formula made up for the cells of the array,
=index(A-B!A1:A2,2,1), does not quote the sheet name (quote_sheet() only looks
for a blank), so evaluate(cell) fails while evaluate(range) works.
"""
import logging

import openpyxl
from openpyxl.worksheet.formula import ArrayFormula

from pycel import ExcelCompiler

logging.disable(logging.CRITICAL)

wb = openpyxl.Workbook()
ws = wb.active
ws.title = 'A-B'
ws['C1'], ws['C2'] = 10, 20
ws['A1'] = ArrayFormula('A1:A2', '=C1:C2*2')

compiler = ExcelCompiler(excel=wb)
rng = compiler.evaluate('A-B!A1:A2')
print('expected by the property: evaluate(A-B!A2) == evaluate(A-B!A1:A2)[1] == 40')
print('range A1:A2:', rng)
try:
    print('cell A2    :', compiler.evaluate('A-B!A2'))
except Exception as exc:
    print('cell A2    : raises', type(exc).__name__, str(exc).splitlines()[-1])
    print('-> MISMATCH')
