"""A CSE array formula {=A1:A3} where A2 is empty.  The cell C2 of the array
evaluates to 0 (as in Excel), the matching element of evaluate('S!C1:C3') is
None, whatever the order.
"""
import logging

import openpyxl
from openpyxl.worksheet.formula import ArrayFormula

from pycel import ExcelCompiler

logging.disable(logging.CRITICAL)


def workbook():
    wb = openpyxl.Workbook()
    ws = wb.active
    ws.title = 'S'
    ws['A1'], ws['A3'] = 10, 30
    ws['C1'] = ArrayFormula('C1:C3', '=A1:A3')
    return wb


print('expected by the property: cells == range')
for order in ('cells first', 'range first'):
    compiler = ExcelCompiler(excel=workbook())
    if order == 'cells first':
        cells = tuple(compiler.evaluate(f'S!C{r}') for r in (1, 2, 3))
        rng = compiler.evaluate('S!C1:C3')
    else:
        rng = compiler.evaluate('S!C1:C3')
        cells = tuple(compiler.evaluate(f'S!C{r}') for r in (1, 2, 3))
    print(f'{order}: cells={cells} range={rng} ->',
          'OK' if cells == rng else 'MISMATCH')
