"""A running total of 300 rows (A1=1, An=A(n-1)+1).  evaluate('S!A300') on a
fresh model fails (recursion limit, reported as FormulaEvalError), while
evaluate('S!A1:A300') calculates the cells top down and works, after which
evaluate('S!A300') works as well: whether the cell has a value depends on what
was evaluated first and on the access path.
"""
import logging

import openpyxl

from pycel import ExcelCompiler

logging.disable(logging.CRITICAL)
N = 300


def workbook():
    wb = openpyxl.Workbook()
    ws = wb.active
    ws.title = 'S'
    ws['A1'] = 1
    for r in range(2, N + 1):
        ws[f'A{r}'] = f'=A{r - 1}+1'
    return wb


def attempt(compiler, addr):
    try:
        return compiler.evaluate(addr)
    except Exception as exc:
        return f'raises {type(exc).__name__}'


print(f'expected by the property: S!A{N} == {N} on every path and in every order')
c = ExcelCompiler(excel=workbook())
first = attempt(c, f'S!A{N}')
again = attempt(c, f'S!A{N}')
print(f'fresh model, cell first : {first!r}, again: {again!r}')
c = ExcelCompiler(excel=workbook())
rng = attempt(c, f'S!A1:A{N}')
print(f'fresh model, range first: last element {rng[-1]!r}, '
      f'then cell: {attempt(c, f"S!A{N}")!r}')
print('->', 'OK' if first == again == rng[-1] == N else 'MISMATCH')
