"""lib.lookup.index() finds the evaluator for an array of references through
index.excel_func_meta['name_space'], a dict stored on the function object and
overwritten whenever ANY formula of ANY ExcelCompiler loads INDEX.  The cells of
a CSE array formula that returns a reference ({=OFFSET(C1,0,0,3,1)}) are such
INDEX formulas: once a second model has loaded an INDEX formula, calculating
them again (recalculate(), no input changed) reads the cells of the OTHER
workbook.
"""
import logging

import openpyxl
from openpyxl.worksheet.formula import ArrayFormula

from pycel import ExcelCompiler

logging.disable(logging.CRITICAL)

wb_a = openpyxl.Workbook()
ws = wb_a.active
ws.title = 'S'
ws['C1'], ws['C2'], ws['C3'] = 10, 20, 30
ws['A1'] = ArrayFormula('A1:A3', '=OFFSET(C1,0,0,3,1)')

wb_b = openpyxl.Workbook()
ws = wb_b.active
ws.title = 'S'
ws['C1'], ws['C2'], ws['C3'] = 111, 222, 333
ws['D1'] = '=INDEX(C1:C3,2)'

cells = 'S!A1', 'S!A2', 'S!A3'
model_a = ExcelCompiler(excel=wb_a)
first = model_a.evaluate(cells)
model_b = ExcelCompiler(excel=wb_b)
model_b.evaluate('S!D1')
model_a.recalculate()
again = model_a.evaluate(cells)
print('expected by the property: model A gives (10, 20, 30) both times')
print('model A, first evaluate                        :', first)
print('model A, after model B used INDEX + recalculate:', again)
print('->', 'OK' if first == again == (10, 20, 30) else 'MISMATCH')
