"""B1 = ROW(A1:A3)+10 only uses the range as a reference, A2 holds a function
pycel does not know.  evaluate('S!B1') raises twice (first while the range is
calculated when the graph is built, then after B1 has got its value, when the
reference-only range is calculated), the third call returns 11: repeating
evaluate does not return the same thing.
"""
import logging

import openpyxl

from pycel import ExcelCompiler

logging.disable(logging.CRITICAL)

wb = openpyxl.Workbook()
ws = wb.active
ws.title = 'S'
ws['A1'], ws['A2'], ws['A3'] = 1, '=FOO(1)', 3
ws['B1'] = '=ROW(A1:A3)+10'

compiler = ExcelCompiler(excel=wb)
print('expected by the property: every evaluate(S!B1) gives the same outcome')
outcomes = []
for i in range(4):
    try:
        outcomes.append(repr(compiler.evaluate('S!B1')))
    except Exception as exc:
        outcomes.append(f'raises {type(exc).__name__}')
    print(f'call {i + 1}: {outcomes[-1]}')
print('->', 'OK' if len(set(outcomes)) == 1 else 'MISMATCH')
