"""A CSE array formula whose result is a reference (OFFSET, INDIRECT).  The
cells of the array give the referenced values, evaluate(range of the array)
gives AddressRange objects.
"""
import logging

import openpyxl
from openpyxl.worksheet.formula import ArrayFormula

from pycel import ExcelCompiler

logging.disable(logging.CRITICAL)

wb = openpyxl.Workbook()
ws = wb.active
ws.title = 'S'
ws['C1'], ws['C2'], ws['C3'] = 10, 20, 30
ws['A1'] = ArrayFormula('A1:A3', '=OFFSET(C1,0,0,3,1)')

compiler = ExcelCompiler(excel=wb)
cells = tuple(compiler.evaluate(f'S!A{r}') for r in (1, 2, 3))
rng = compiler.evaluate('S!A1:A3')
print('expected by the property: cells == range == (10, 20, 30)')
print('cells      :', cells)
print('range A1:A3:', tuple(str(v) if not isinstance(v, (int, float)) else v
                            for v in rng), [type(v).__name__ for v in rng])
print('->', 'OK' if cells == rng else 'MISMATCH')
