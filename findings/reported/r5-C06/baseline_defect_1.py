"""Baseline defect (unmodified tree), property C06, acyclic agreement after a
set_value history.

set_value() on a FORMULA cell of a workbook without circular references:
plain evaluation keeps the value which was set (the cell has a value, so it
is not calculated again) and its dependants are calculated from it, while
iterative evaluation calculates every formula cell again in every pass and so
silently drops the value which was set.

    A1 = 1, B1 = A1+1, C1 = B1*2 ; set_value(B1, 10) ; evaluate(C1)
    plain: 20 (B1 reads 10)      iterative: 4 (B1 reads 2)
"""
import os
import shutil
import tempfile

import openpyxl

from pycel import ExcelCompiler


def run(path, cycles):
    model = ExcelCompiler(path, cycles=cycles)
    assert model.evaluate('S!C1') == 4
    model.set_value('S!B1', 10)
    return model.evaluate('S!C1'), model.evaluate('S!B1')


tmp = tempfile.mkdtemp()
try:
    for iterate in (False, True):
        wb = openpyxl.Workbook()
        ws = wb.active
        ws.title = 'S'
        ws['A1'] = 1
        ws['B1'] = '=A1+1'
        ws['C1'] = '=B1*2'
        wb.calculation.iterate = iterate
        wb.save(os.path.join(tmp, f'w{int(iterate)}.xlsx'))

    plain = run(os.path.join(tmp, 'w0.xlsx'), None)
    iterative = run(os.path.join(tmp, 'w1.xlsx'), None)
    print('plain', plain, 'iterative', iterative)
    assert plain == iterative, (plain, iterative)
finally:
    shutil.rmtree(tmp, ignore_errors=True)
