"""Baseline defect (unmodified tree), property C06, tolerance honesty for the
pair (iterations, tolerance=0).

_evaluate_iterative() takes its settings with `tolerance or workbook value or
0.01` (and `iterations or ...`), so an explicit tolerance of 0 (stop only
when nothing moves at all) is replaced by the tolerance of the workbook: the
call stops far before the iteration limit while the cells still move by more
than the requested tolerance.  A tiny positive tolerance (1e-300) is honoured
and reaches the fixed point exactly after some 55 passes.

    A1 = 0.5*B1+1, B1 = 0.5*A1+1   fixed point (2, 2)
"""
import os
import shutil
import tempfile

import openpyxl

from pycel import ExcelCompiler

tmp = tempfile.mkdtemp()
try:
    wb = openpyxl.Workbook()
    ws = wb.active
    ws.title = 'S'
    ws['A1'] = '=0.5*B1+1'
    ws['B1'] = '=0.5*A1+1'
    wb.calculation.iterate = True
    wb.calculation.iterateCount = 100
    wb.calculation.iterateDelta = 0.001
    path = os.path.join(tmp, 'w.xlsx')
    wb.save(path)

    tiny = ExcelCompiler(path).evaluate(
        'S!A1', iterations=1000, tolerance=1e-300)
    zero = ExcelCompiler(path).evaluate(
        'S!A1', iterations=1000, tolerance=0)
    print('tolerance=1e-300:', tiny, ' tolerance=0:', zero)
    assert tiny == 2
    # stopped before 1000 passes, so nothing may have moved by more than 0
    assert zero == 2, zero
finally:
    shutil.rmtree(tmp, ignore_errors=True)
